------------------------------ MODULE ContextAPI ------------------------------
(***************************************************************************)
(* The graph-building API of ciphercore-base/src/graphs.rs as a state      *)
(* machine (properties C11, C12).                                          *)
(*                                                                         *)
(* STATE.  `cx` is a sequence of contexts (one or two; index c+1 for the   *)
(* context with index c).  A context is written in exactly the shape in    *)
(* which the conformance harness projects a real `Context` through its     *)
(* PUBLIC getters, so a recorded projection can be compared with `=`:      *)
(*   [fin, main, ng, gret, graphs]                                         *)
(*     fin    Context::check_finalized().is_ok()                           *)
(*     main   id of the main graph or -1                                   *)
(*     ng     get_num_graphs()                                             *)
(*     gret   graphs_names_inverse probed with NameSeq: retrieve_graph(NameSeq[i]) -> id | -1 *)
(*     graphs sequence (creation order) of                                 *)
(*       [id, fin, out, nn, name, ann, nret, nodes]                        *)
(*         name  graphs_names: <<>> or <<name>>     (Graph::get_name)      *)
(*         ann   graphs_annotations (Graph::get_annotations)               *)
(*         nret  nodes_names_inverse probed with NameSeq (retrieve_node)   *)
(*         nodes sequence of [id, op, deps, gdeps, ty, name, ann]          *)
(*           op    [o, t, i]: operation tag, type parameter, index param.  *)
(*           deps  node handles <<c,g,n>>;  gdeps graph handles <<c,g>>    *)
(*           ty    the type get_type() reports;  name/ann as for graphs    *)
(* Ids are 0-based as in the code; -1 stands for None.  Both directions of *)
(* the two name tables are separate state (name / gret, name / nret), so   *)
(* an inverse entry left behind by a failed call is a visible difference.  *)
(*                                                                         *)
(* CALLS are uniform records [k, c, gh, nh, deps, gdeps, op, nm, an, wt,   *)
(* lres, lty] (k = kind, c = receiver context, gh/nh = graph/node handle   *)
(* arguments).  `XxxRes(S, ca)` is the outcome [res, st] of mutator Xxx in *)
(* state S with the guards of the code IN THE CODE'S ORDER; every failing  *)
(* call returns the unchanged state.  One action per public mutator.       *)
(*                                                                         *)
(* Interpretation note (C11 "a finalized graph rejects every mutation"):   *)
(* add_node and set_output_node are rejected on a finalized graph.  Naming *)
(* or annotating the nodes of a finalized graph in a context that is not   *)
(* yet finalized is allowed by the code and by the documentation (names    *)
(* and annotations live in the context; recover_original_context relies on *)
(* it), so the specification allows it.  Graph::finalize and               *)
(* Context::finalize are idempotent (Ok without change) in the code.       *)
(***************************************************************************)
EXTENDS Integers, Sequences, FiniteSets, TLC, IOUtils

\* The names that name-setting calls and the retrieve_* probes use: the first NNAMES (environment,
\* default 2) of a, b, c, d.  (A plain definition, not a CONSTANT: see docs/CONVENTIONS.md.)
NumNames == IF "NNAMES" \in DOMAIN IOEnv THEN atoi(IOEnv.NNAMES) ELSE 2
NameSeq == SubSeq(<<"a", "b", "c", "d">>, 1, NumNames)

VARIABLES cx, last

NoT == [k |-> "none"]
TypeErrT == [k |-> "err"]
R(res, st) == [res |-> res, st |-> st]

NameIdxIn(names, nm) == CHOOSE i \in DOMAIN names : names[i] = nm
NameIdx(nm) == NameIdxIn(NameSeq, nm)

---------------------------------------------------------------------------
(* Types (data_types.rs): records as exported by the harness (CCTypes).    *)
ScalarTs == {"b", "u8", "i8", "u16", "i16", "u32", "i32", "u64", "i64", "u128", "i128"}

RECURSIVE ValidT(_)
ValidT(t) ==
  CASE t.k = "s" -> t.st \in ScalarTs
    [] t.k = "a" -> t.st \in ScalarTs /\ Len(t.sh) > 0 /\ \A i \in 1..Len(t.sh) : t.sh[i] > 0
    [] t.k = "t" -> \A i \in 1..Len(t.el) : ValidT(t.el[i])
    [] t.k = "v" -> ValidT(t.of)
    [] t.k = "n" -> /\ \A i \in 1..Len(t.el) : ValidT(t.el[i])
                    /\ \A i, j \in 1..Len(t.nm) : i # j => t.nm[i] # t.nm[j]
    [] OTHER -> FALSE

\* Size limits (graphs.rs:3498-3516, data_types.rs get_size_estimation_in_bits; limits u64::MAX-1).
\* TLC integers are 32 bit, so sizes are abstracted to weights in units of 2^63 bits: the two
\* designated types below are the only ones of weight > 0 that the drivers use.
\*   BigT : 2^63 elements of 64 bits, its own size estimate overflows u64  -> weight 2
\*   HugeT: 2^57 elements of 64 bits = 2^63+64 bits: one fits, two overflow -> weight 1
BigT == [k |-> "a", st |-> "i64", sh |-> <<1073741824, 1073741824, 8>>]
HugeT == [k |-> "a", st |-> "i64", sh |-> <<1073741824, 134217728>>]
RECURSIVE Weight(_)
RECURSIVE SumW(_)
SumW(ts) == IF ts = <<>> THEN 0 ELSE Weight(Head(ts)) + SumW(Tail(ts))
Weight(t) ==
  CASE t.k = "a" -> IF t.st = "i64" /\ t.sh = BigT.sh THEN 2 ELSE IF t.st = "i64" /\ t.sh = HugeT.sh THEN 1 ELSE 0
    [] t.k = "t" -> SumW(t.el)
    [] t.k = "n" -> SumW(t.el)
    [] t.k = "v" -> (t.n + 1) * Weight(t.of)
    [] OTHER -> 0

\* NumPy broadcasting of two arithmetic operands (broadcast.rs)
Max2(a, b) == IF a >= b THEN a ELSE b
DimAt(sh, i, r) == IF i > r - Len(sh) THEN sh[i - (r - Len(sh))] ELSE 1
ArithT(t1, t2) ==
  IF ~(t1.k \in {"s", "a"} /\ t2.k \in {"s", "a"}) THEN TypeErrT
  ELSE IF t1.st # t2.st THEN TypeErrT
  ELSE IF t1.k = "s" THEN t2
  ELSE IF t2.k = "s" THEN t1
  ELSE LET r == Max2(Len(t1.sh), Len(t2.sh))
           bad == \E i \in 1..r : LET a == DimAt(t1.sh, i, r)  b == DimAt(t2.sh, i, r) IN a > 1 /\ b > 1 /\ a # b
       IN IF bad THEN TypeErrT
          ELSE [k |-> "a", st |-> t1.st, sh |-> [i \in 1..r |-> Max2(DimAt(t1.sh, i, r), DimAt(t2.sh, i, r))]]

---------------------------------------------------------------------------
(* State access                                                            *)
EmptyCtx == [fin |-> FALSE, main |-> -1, ng |-> 0, gret |-> [i \in DOMAIN NameSeq |-> -1], graphs |-> <<>>]
InitWorld(nc) == [i \in 1..nc |-> EmptyCtx]

CtxOf(S, c) == S[c + 1]
GraphAt(S, gh) == S[gh[1] + 1].graphs[gh[2] + 1]
NodeAt(S, nh) == S[nh[1] + 1].graphs[nh[2] + 1].nodes[nh[3] + 1]
HasG(S, gh) == gh[1] + 1 \in DOMAIN S /\ gh[2] + 1 \in DOMAIN S[gh[1] + 1].graphs
HasN(S, nh) == HasG(S, <<nh[1], nh[2]>>) /\ nh[3] + 1 \in DOMAIN GraphAt(S, <<nh[1], nh[2]>>).nodes

\* a call can be issued iff the handles it passes exist (a handle is only obtained from a successful call)
HandlesExist(S, ca) ==
  CASE ca.k \in {"create", "cfin"} -> ca.c + 1 \in DOMAIN S
    [] ca.k \in {"add", "addt"} -> /\ HasG(S, ca.gh)
                                   /\ \A i \in DOMAIN ca.deps : HasN(S, ca.deps[i])
                                   /\ \A i \in DOMAIN ca.gdeps : HasG(S, ca.gdeps[i])
    [] ca.k = "out" -> HasG(S, ca.gh) /\ HasN(S, ca.nh)
    [] ca.k \in {"gfin", "gann"} -> HasG(S, ca.gh)
    [] ca.k \in {"main", "gname"} -> ca.c + 1 \in DOMAIN S /\ HasG(S, ca.gh)
    [] ca.k = "nname" -> ca.c + 1 \in DOMAIN S /\ HasN(S, ca.nh)
    [] ca.k = "nann" -> HasN(S, ca.nh)
    [] OTHER -> FALSE

---------------------------------------------------------------------------
(* Type inference of the operations the specification models               *)
(* (type_inference.rs process_node); every other operation tag ("X:...")   *)
(* takes outcome and type from the log (fields lres, lty of the call).     *)
IsInputNode(nd) == nd.op.o = "Input"

InferT(S, ca) ==
  LET o == ca.op.o
      nd == Len(ca.deps)
      ngd == Len(ca.gdeps)
      dts == [i \in DOMAIN ca.deps |-> NodeAt(S, ca.deps[i]).ty]
  IN CASE o = "Input" -> IF nd # 0 \/ ngd # 0 THEN TypeErrT
                         ELSE IF ValidT(ca.op.t) THEN ca.op.t ELSE TypeErrT
       [] o \in {"Add", "Subtract", "Multiply"} ->
            IF nd # 2 \/ ngd # 0 THEN TypeErrT ELSE ArithT(dts[1], dts[2])
       [] o = "CreateTuple" -> IF ngd # 0 THEN TypeErrT ELSE [k |-> "t", el |-> dts]
       [] o = "TupleGet" ->
            IF nd # 1 \/ ngd # 0 THEN TypeErrT
            ELSE IF dts[1].k \in {"t", "n"} /\ ca.op.i < Len(dts[1].el) THEN dts[1].el[ca.op.i + 1]
            ELSE TypeErrT
       [] o = "Call" ->
            IF ngd # 1 THEN TypeErrT
            ELSE LET D == GraphAt(S, ca.gdeps[1])
                     ins == SelectSeq(D.nodes, IsInputNode)
                 IN IF ~D.fin \/ D.out = -1 THEN TypeErrT
                    ELSE IF Len(ins) # nd THEN TypeErrT
                    ELSE IF \E i \in 1..nd : ins[i].op.t # dts[i] THEN TypeErrT
                    ELSE D.nodes[D.out + 1].ty
       [] OTHER -> IF ca.lres = "ok" THEN ca.lty ELSE TypeErrT

\* sum of the weights of the Input/Constant nodes already accepted (ContextBody.total_size_nodes)
RECURSIVE SumNodeW(_)
SumNodeW(ns) == IF ns = <<>> THEN 0
                ELSE (IF Head(ns).op.o \in {"Input", "X:Constant"} THEN Weight(Head(ns).op.t) ELSE 0) + SumNodeW(Tail(ns))
RECURSIVE SumGraphW(_)
SumGraphW(gs) == IF gs = <<>> THEN 0 ELSE SumNodeW(Head(gs).nodes) + SumGraphW(Tail(gs))
TotW(C) == SumGraphW(C.graphs)

---------------------------------------------------------------------------
(* Mutators                                                                *)

\* Context::create_graph (graphs.rs:3976)
CreateRes(S, ca) ==
  LET ci == ca.c + 1
      C == S[ci]
      gnew == [id |-> Len(C.graphs), fin |-> FALSE, out |-> -1, nn |-> 0, name |-> <<>>, ann |-> <<>>,
               nret |-> [i \in DOMAIN NameSeq |-> -1], nodes |-> <<>>]
  IN IF C.fin THEN R("err", S)
     ELSE R("ok", [S EXCEPT ![ci].graphs = Append(@, gnew), ![ci].ng = @ + 1])

\* Graph::remove_last_node + Context::unregister_node (graphs.rs:3520, 4484): drops the forward name,
\* the annotations and the type-cache entry of the last node (all stored on the node record here),
\* the inverse name entry found through the forward name, then pops the node.
RemoveLast(T, gh) ==
  LET ci == gh[1] + 1
      gi == gh[2] + 1
      G == T[ci].graphs[gi]
      n == Len(G.nodes)
      nd == G.nodes[n]
  IN [T EXCEPT ![ci].graphs[gi].nodes = SubSeq(@, 1, n - 1),
               ![ci].graphs[gi].nn = @ - 1,
               ![ci].graphs[gi].nret = [i \in DOMAIN @ |-> IF nd.name # <<>> /\ <<NameSeq[i]>> = nd.name THEN -1 ELSE @[i]]]

\* Graph::add_node / add_node_with_type (graphs.rs:3413 add_node_internal)
AddRes(S, ca) ==
  LET gh == ca.gh
      ci == gh[1] + 1
      gi == gh[2] + 1
      G == S[ci].graphs[gi]
      n == Len(G.nodes)
      depBad(d) == d[1] # gh[1] \/ d[2] # gh[2] \/ d[3] >= n
      gdepBad(d) == \/ ~GraphAt(S, d).fin        \* "not finalized graph dependency"
                    \/ d[2] >= gh[2]             \* "graph dependency with bigger id"
                    \/ d[1] # gh[1]              \* "graph dependency from different context"
  IN IF G.fin THEN R("err", S)
     ELSE IF \E i \in DOMAIN ca.deps : depBad(ca.deps[i]) THEN R("err", S)
     ELSE IF \E i \in DOMAIN ca.gdeps : gdepBad(ca.gdeps[i]) THEN R("err", S)
     ELSE
       LET node0 == [id |-> n, op |-> ca.op, deps |-> ca.deps, gdeps |-> ca.gdeps, ty |-> NoT,
                     name |-> <<>>, ann |-> <<>>]
           \* the node is pushed BEFORE its type is known (graphs.rs:3466-3469) ...
           pushed == [S EXCEPT ![ci].graphs[gi].nodes = Append(@, node0), ![ci].graphs[gi].nn = @ + 1]
           ty == IF ca.k = "addt"
                 THEN (IF ValidT(ca.wt) THEN ca.wt ELSE TypeErrT)   \* supplied type, only registered
                 ELSE InferT(S, ca)
       IN IF ty.k = "err" THEN R("err", RemoveLast(pushed, gh))      \* ... and popped again on failure
          ELSE LET typed == [pushed EXCEPT ![ci].graphs[gi].nodes[n + 1].ty = ty]
               IN IF Weight(ty) >= 2 THEN R("err", RemoveLast(typed, gh))     \* invalid / too large node size
                  \* total size counter (try_update_total_size, graphs.rs:4489): reads the operation's OWN type of an
                  \* Input / Constant and rejects an invalid one -- reachable through add_node_with_type only, where the
                  \* supplied type, not the operation's, was registered
                  ELSE IF /\ ca.op.o \in {"Input", "X:Constant"}
                          /\ (~ValidT(ca.op.t) \/ TotW(S[ci]) + Weight(ca.op.t) >= 2)
                       THEN R("err", RemoveLast(typed, gh))
                  ELSE R("ok", typed)

\* Graph::set_output_node (graphs.rs:3212)
OutRes(S, ca) ==
  LET ci == ca.gh[1] + 1
      gi == ca.gh[2] + 1
      G == S[ci].graphs[gi]
  IN IF G.out # -1 THEN R("err", S)
     ELSE IF <<ca.nh[1], ca.nh[2]>> # <<ca.gh[1], ca.gh[2]>> THEN R("err", S)
     ELSE R("ok", [S EXCEPT ![ci].graphs[gi].out = ca.nh[3]])

\* Graph::finalize (graphs.rs:3172)
GFinRes(S, ca) ==
  LET ci == ca.gh[1] + 1
      gi == ca.gh[2] + 1
  IN IF S[ci].graphs[gi].out = -1 THEN R("err", S)
     ELSE R("ok", [S EXCEPT ![ci].graphs[gi].fin = TRUE])

\* Context::set_main_graph (graphs.rs:4057)
MainRes(S, ca) ==
  LET ci == ca.c + 1
  IN IF S[ci].main # -1 THEN R("err", S)
     ELSE IF ca.gh[1] # ca.c THEN R("err", S)
     ELSE IF ~GraphAt(S, ca.gh).fin THEN R("err", S)
     ELSE R("ok", [S EXCEPT ![ci].main = ca.gh[2]])

\* Context::finalize (graphs.rs:4018)
CFinRes(S, ca) ==
  LET ci == ca.c + 1
      C == S[ci]
  IN IF \E gi \in DOMAIN C.graphs : ~C.graphs[gi].fin THEN R("err", S)
     ELSE IF C.main = -1 THEN R("err", S)
     ELSE R("ok", [S EXCEPT ![ci].fin = TRUE])

\* Context::set_graph_name (graphs.rs:4170)
GNameRes(S, ca) ==
  LET ci == ca.c + 1
      C == S[ci]
      gi == ca.gh[2] + 1
      ix == NameIdx(ca.nm)
  IN IF ca.gh[1] # ca.c THEN R("err", S)
     ELSE IF C.fin THEN R("err", S)
     ELSE IF C.graphs[gi].name # <<>> THEN R("err", S)
     ELSE IF C.gret[ix] # -1 THEN R("err", S)
     ELSE R("ok", [S EXCEPT ![ci].graphs[gi].name = <<ca.nm>>, ![ci].gret[ix] = ca.gh[2]])

\* Context::set_node_name (graphs.rs:4281)
NNameRes(S, ca) ==
  LET ci == ca.c + 1
      C == S[ci]
      gi == ca.nh[2] + 1
      ni == ca.nh[3] + 1
      ix == NameIdx(ca.nm)
  IN IF ca.nh[1] # ca.c THEN R("err", S)
     ELSE IF C.fin THEN R("err", S)
     ELSE IF C.graphs[gi].nodes[ni].name # <<>> THEN R("err", S)
     ELSE IF C.graphs[gi].nret[ix] # -1 THEN R("err", S)
     ELSE R("ok", [S EXCEPT ![ci].graphs[gi].nodes[ni].name = <<ca.nm>>, ![ci].graphs[gi].nret[ix] = ca.nh[3]])

\* Graph::add_annotation -> Context::add_graph_annotation (graphs.rs:4598)
GAnnRes(S, ca) ==
  LET ci == ca.gh[1] + 1
      gi == ca.gh[2] + 1
  IN IF S[ci].fin THEN R("err", S)
     ELSE R("ok", [S EXCEPT ![ci].graphs[gi].ann = Append(@, ca.an)])

\* Node::add_annotation -> Context::add_node_annotation (graphs.rs:4556)
NAnnRes(S, ca) ==
  LET ci == ca.nh[1] + 1
      gi == ca.nh[2] + 1
      ni == ca.nh[3] + 1
  IN IF S[ci].fin THEN R("err", S)
     ELSE R("ok", [S EXCEPT ![ci].graphs[gi].nodes[ni].ann = Append(@, ca.an)])

StepRes(S, ca) ==
  CASE ca.k = "create" -> CreateRes(S, ca)
    [] ca.k \in {"add", "addt"} -> AddRes(S, ca)
    [] ca.k = "out" -> OutRes(S, ca)
    [] ca.k = "gfin" -> GFinRes(S, ca)
    [] ca.k = "main" -> MainRes(S, ca)
    [] ca.k = "cfin" -> CFinRes(S, ca)
    [] ca.k = "gname" -> GNameRes(S, ca)
    [] ca.k = "nname" -> NNameRes(S, ca)
    [] ca.k = "gann" -> GAnnRes(S, ca)
    [] ca.k = "nann" -> NAnnRes(S, ca)

---------------------------------------------------------------------------
(* Actions: one per public mutator.                                        *)
Do(ca) == /\ HandlesExist(cx, ca)
          /\ LET r == StepRes(cx, ca)
             IN cx' = r.st /\ last' = [k |-> ca.k, res |-> r.res]

CreateGraph(ca) == ca.k = "create" /\ Do(ca)
AddNode(ca) == ca.k \in {"add", "addt"} /\ Do(ca)
SetOutputNode(ca) == ca.k = "out" /\ Do(ca)
FinalizeGraph(ca) == ca.k = "gfin" /\ Do(ca)
SetMainGraph(ca) == ca.k = "main" /\ Do(ca)
FinalizeContext(ca) == ca.k = "cfin" /\ Do(ca)
SetGraphName(ca) == ca.k = "gname" /\ Do(ca)
SetNodeName(ca) == ca.k = "nname" /\ Do(ca)
AnnotateGraph(ca) == ca.k = "gann" /\ Do(ca)
AnnotateNode(ca) == ca.k = "nann" /\ Do(ca)

---------------------------------------------------------------------------
(* Well-formedness of one context, stated on the public projection P of    *)
(* the context with index c; `names` is the probe sequence of gret/nret.   *)
(* The same predicate judges specification states and real contexts.       *)
WFCtxN(P, c, names) ==
  /\ P.ng = Len(P.graphs)
  /\ Len(P.gret) = Len(names)
  /\ \A gi \in DOMAIN P.graphs :
       LET G == P.graphs[gi] IN
       /\ G.id = gi - 1                                   \* dense ids in creation order
       /\ G.nn = Len(G.nodes)
       /\ G.out >= -1 /\ G.out < Len(G.nodes)
       /\ G.fin => G.out # -1
       /\ Len(G.nret) = Len(names)
       /\ \A ni \in DOMAIN G.nodes :
            LET N == G.nodes[ni] IN
            /\ N.id = ni - 1
            \* dependencies precede the user and live in the same graph and context
            /\ \A i \in DOMAIN N.deps :
                 N.deps[i][1] = c /\ N.deps[i][2] = G.id /\ N.deps[i][3] >= 0 /\ N.deps[i][3] < N.id
            \* called graphs are finalized, older, same context
            /\ \A i \in DOMAIN N.gdeps :
                 /\ N.gdeps[i][1] = c /\ N.gdeps[i][2] >= 0 /\ N.gdeps[i][2] < G.id
                 /\ P.graphs[N.gdeps[i][2] + 1].fin
            /\ ValidT(N.ty)                               \* every stored node has a valid type
            /\ Len(N.name) <= 1
            \* forward name resolves back to the node
            /\ N.name # <<>> /\ (\E i \in DOMAIN names : names[i] = N.name[1])
                 => G.nret[NameIdxIn(names, N.name[1])] = N.id
            /\ \A n2 \in DOMAIN G.nodes : n2 # ni /\ N.name # <<>> => G.nodes[n2].name # N.name
       \* inverse node-name table points at a node carrying that name
       /\ \A i \in DOMAIN names :
            G.nret[i] # -1 => /\ G.nret[i] >= 0 /\ G.nret[i] < Len(G.nodes)
                              /\ G.nodes[G.nret[i] + 1].name = <<names[i]>>
       /\ Len(G.name) <= 1
       /\ G.name # <<>> /\ (\E i \in DOMAIN names : names[i] = G.name[1])
            => P.gret[NameIdxIn(names, G.name[1])] = G.id
       /\ \A g2 \in DOMAIN P.graphs : g2 # gi /\ G.name # <<>> => P.graphs[g2].name # G.name
  /\ \A i \in DOMAIN names :
       P.gret[i] # -1 => /\ P.gret[i] >= 0 /\ P.gret[i] < Len(P.graphs)
                         /\ P.graphs[P.gret[i] + 1].name = <<names[i]>>
  /\ P.main >= -1 /\ P.main < Len(P.graphs)
  /\ P.main # -1 => P.graphs[P.main + 1].fin
  /\ P.fin => /\ P.main # -1
              /\ \A gi \in DOMAIN P.graphs : P.graphs[gi].fin

WFCtx(P, c) == WFCtxN(P, c, NameSeq)
WFWorld(S) == \A ci \in DOMAIN S : WFCtx(S[ci], ci - 1)

WellFormed == WFWorld(cx)

\* the stored type of a node of a modelled operation is the type inference gives for it
\* (holds when add_node_with_type is not used)
TypesInferred(S) ==
  \A ci \in DOMAIN S : \A gi \in DOMAIN S[ci].graphs : \A ni \in DOMAIN S[ci].graphs[gi].nodes :
    LET N == S[ci].graphs[gi].nodes[ni]
    IN N.op.o \in {"Input", "Add", "Subtract", "Multiply", "CreateTuple", "TupleGet", "Call"}
         => N.ty = InferT(S, [op |-> N.op, deps |-> N.deps, gdeps |-> N.gdeps, lres |-> "", lty |-> NoT])

\* a failing call has no effect (holds by construction; kept as a checked action property)
ErrNoEffect == [][last'.res = "err" => cx' = cx]_<<cx, last>>

\* a finalized context never changes; the nodes, output and flag of a finalized graph never change
Frozen ==
  [][\A ci \in DOMAIN cx :
        /\ cx[ci].fin => cx'[ci] = cx[ci]
        /\ \A gi \in DOMAIN cx[ci].graphs :
             cx[ci].graphs[gi].fin =>
               /\ cx'[ci].graphs[gi].fin
               /\ cx'[ci].graphs[gi].out = cx[ci].graphs[gi].out
               /\ Len(cx'[ci].graphs[gi].nodes) = Len(cx[ci].graphs[gi].nodes)
               /\ \A ni \in DOMAIN cx[ci].graphs[gi].nodes :
                    LET a == cx[ci].graphs[gi].nodes[ni]  b == cx'[ci].graphs[gi].nodes[ni]
                    IN a.op = b.op /\ a.deps = b.deps /\ a.gdeps = b.gdeps /\ a.ty = b.ty]_<<cx, last>>

---------------------------------------------------------------------------
(* Serial form of one context: what make_serializable (graphs.rs:4415)     *)
(* writes, tables sorted by key (serialize_hashmap).  Used by the          *)
(* projection comparison of C11 and by module Serialization (C12).         *)
FlatMap(F(_), sq) ==
  LET RECURSIVE go(_)
      go(i) == IF i > Len(sq) THEN <<>> ELSE F(sq[i]) \o go(i + 1)
  IN go(1)

SerNode(N) == [nd |-> [i \in DOMAIN N.deps |-> N.deps[i][3]], gd |-> [i \in DOMAIN N.gdeps |-> N.gdeps[i][2]], op |-> N.op]
SerGraph(G) == [finalized |-> G.fin, output_node |-> G.out, nodes |-> [ni \in DOMAIN G.nodes |-> SerNode(G.nodes[ni])]]
GNameEntry(G) == IF G.name = <<>> THEN <<>> ELSE <<[g |-> G.id, nm |-> G.name[1]]>>
GAnnEntry(G) == IF G.ann = <<>> THEN <<>> ELSE <<[g |-> G.id, an |-> G.ann]>>
NNameEntries(G) == LET F(N) == IF N.name = <<>> THEN <<>> ELSE <<[g |-> G.id, n |-> N.id, nm |-> N.name[1]]>>
                   IN FlatMap(F, G.nodes)
NAnnEntries(G) == LET F(N) == IF N.ann = <<>> THEN <<>> ELSE <<[g |-> G.id, n |-> N.id, an |-> N.ann]>>
                  IN FlatMap(F, G.nodes)
SerOf(P) ==
  [finalized |-> P.fin, main_graph |-> P.main,
   graphs |-> [gi \in DOMAIN P.graphs |-> SerGraph(P.graphs[gi])],
   graphs_names |-> FlatMap(GNameEntry, P.graphs),
   nodes_names |-> FlatMap(NNameEntries, P.graphs),
   graphs_annotations |-> FlatMap(GAnnEntry, P.graphs),
   nodes_annotations |-> FlatMap(NAnnEntries, P.graphs)]
SerWorld(S) == [ci \in DOMAIN S |-> SerOf(S[ci])]

\* the full projection the harness records: [pub |-> world, ser |-> serial forms]
FullProj(S) == [pub |-> S, ser |-> SerWorld(S)]
=============================================================================
