SPECIFICATION Spec
INVARIANT DivMixedInv
CHECK_DEADLOCK FALSE
