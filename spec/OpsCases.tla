------------------------------ MODULE OpsCases ------------------------------
(***************************************************************************)
(* B1 enumeration for C09 / C10: per primitive operation, TLC enumerates   *)
(* (operation record, argument types) over a bounded universe together     *)
(* with the type predicted by CCTyping!OpType (or Err) and writes them as  *)
(* ndjson (IOEnv.OUT + "<n>.ndjson", one file per operation family).  The  *)
(* harness (bin ops) replays every case against the real add_node and the  *)
(* real evaluator; OpsTrace judges what it recorded.                       *)
(*                                                                         *)
(* On the specification itself TLC checks, for every accepted case, the    *)
(* soundness theorem  OpType # Err => HasType(OpEval(args), OpType)  for   *)
(* the argument vectors zeros / ones / ramp (invariant Sound).             *)
(*   STs     scalar types of the universe                                  *)
(*   K       sample size per generator (universes larger than K are        *)
(*           sampled with RandomSubset, seeded by -seed)                   *)
(*   KeepErr keep rejected cases (C09 acceptance) or only accepted (C10)   *)
(*   Rank4   add the rank-4 shapes over {1,2}                              *)
(***************************************************************************)
EXTENDS CCTyping, Json, IOUtils, Randomization, SequencesExt

CONSTANTS STs, K, KeepErr, Rank4
VARIABLE fam

Dims == {1, 2, 3}
SH == [1..1 -> Dims] \cup [1..2 -> Dims] \cup [1..3 -> Dims] \cup (IF Rank4 THEN [1..4 -> {1, 2}] ELSE {})
ShapeOrS == SH \cup {<<>>}
AllST == {"b", "u8", "i8", "u16", "i16", "u32", "i32", "u64", "i64", "u128", "i128"}

Sample(S) == IF Cardinality(S) <= K THEN S ELSE RandomSubset(K, S)
Sample2(S, kk) == IF Cardinality(S) <= kk THEN S ELSE RandomSubset(kk, S)

\* container types used as arguments of the "wrong kind" and by the container operations
U8 == ScalarT("u8")
TupA == TupleT(<<U8, ArrayT(<<2>>, "b")>>)
VecA == VectorT(2, ArrayT(<<2>>, "u8"))
VecB == VectorT(2, ScalarT("b"))
VecS == VectorT(3, ScalarT("i8"))
Vec0 == VectorT(0, U8)
VecW == VectorT(2, ArrayT(<<1, 2>>, "i128"))
NamA == NamedT(<<"a", "b">>, <<ArrayT(<<2, 2>>, "u8"), ScalarT("b")>>)
TupE == TupleT(<<>>)
Nest == TupleT(<<VecA, TupA>>)
VecT == VectorT(2, TupA)
OddSeq == <<TupA, VecA, VecB, VecS, Vec0, VecW, NamA, TupE, Nest, VecT>>
OddIx == 1..Len(OddSeq)
SomeNum == <<U8, ScalarT("b"), ArrayT(<<2>>, "u8"), ArrayT(<<2, 3>>, "i8"), ArrayT(<<3>>, "b"), ArrayT(<<2>>, "u64"),
             ScalarT("i128"), ArrayT(<<1, 2>>, "i128"), ArrayT(<<2, 2>>, "u8"), ArrayT(<<2>>, "b")>>
TupW == TupleT(<<ArrayT(<<2>>, "u128"), ScalarT("i64"), ArrayT(<<1, 2>>, "b"), ArrayT(<<2, 1>>, "i128")>>)
NamW == NamedT(<<"a", "zz", "b">>, <<ArrayT(<<2>>, "i128"), ScalarT("u64"), VecW>>)
VecU == VectorT(3, ArrayT(<<2>>, "u128"))
VecL == VectorT(2, ScalarT("i64"))
MoreSeq == <<TupW, NamW, VecU, VecL, VectorT(1, TupW), VectorT(3, ScalarT("u16")), VectorT(2, ArrayT(<<1, 1, 2>>, "i32"))>>
AnySeq == OddSeq \o SomeNum \o MoreSeq
AnyIx == 1..Len(AnySeq)
\* invalid types (rejected by is_valid)
BadSeq == <<[k |-> "a", st |-> "u8", sh |-> <<>>], ArrayT(<<2, 0>>, "u8"), ArrayT(<<0>>, "b"),
            NamedT(<<"a", "a">>, <<U8, U8>>), TupleT(<<ArrayT(<<0>>, "u8")>>), VectorT(2, ArrayT(<<1, 0>>, "b")),
            VectorT(0, ArrayT(<<0>>, "b"))>>

C(r, a) == [rec |-> r, ats |-> a]
R0(opn) == [op |-> opn]
R1(opn) == IF opn = "Print" THEN [op |-> opn, msg |-> "m"] ELSE [op |-> opn]

NumT2(p) == MkNum(p[2], p[1])     \* <<st, shape>>

STPairs == {<<s, s>> : s \in STs} \cup {<<"u8", "i8">>, <<"b", "u8">>, <<"u64", "i128">>,
                                        <<"u8", "b">>, <<"i8", "b">>, <<"u64", "b">>, <<"i128", "b">>}
BinArgs(kk) == {<<MkNum(q[2], q[1][1]), MkNum(q[3], q[1][2])>> : q \in RandomSubset(kk, STPairs \X ShapeOrS \X ShapeOrS)}
BinOdd == {<<AnySeq[i], AnySeq[j]>> : i \in {1, 2, 11, 13}, j \in {1, 7, 11, 13}}
\* same scalar type on both sides (most of the accepted cases)
BinSame(kk) == {<<MkNum(q[2], q[1]), MkNum(q[3], q[1])>> : q \in RandomSubset(kk, STs \X ShapeOrS \X ShapeOrS)}
MixArgs(kk) == {<<MkNum(q[2], q[1]), MkNum(q[3], "b")>> : q \in RandomSubset(kk, (STs \ {"b"}) \X ShapeOrS \X ShapeOrS)}

Seqs(S, lo, hi) == UNION {[1..n -> S] : n \in lo..hi}
AxesSeqs == Seqs(0..3, 0, 3)

\* slices: every element carries all fields so that the sets are homogeneous
SlEl(e, i, hb, b, he, en, hs, s) == [e |-> e, i |-> i, hb |-> hb, b |-> b, he |-> he, en |-> en, hs |-> hs, s |-> s]
Opt(S) == {<<FALSE, 0>>} \cup {<<TRUE, n>> : n \in S}
OptStep(S) == {<<FALSE, 1>>} \cup {<<TRUE, n>> : n \in S}
SubEls(B, E, S) == {SlEl("s", 0, b[1], b[2], en[1], en[2], s[1], s[2]) : b \in Opt(B), en \in Opt(E), s \in OptStep(S)}
IdxEls(S) == {SlEl("i", n, FALSE, 0, FALSE, 0, FALSE, 1) : n \in S}
EllEl == SlEl("e", 0, FALSE, 0, FALSE, 0, FALSE, 1)
WildEls == SubEls(-4..4, -4..4, {-2, -1, 0, 1, 2}) \cup IdxEls(-4..3) \cup {EllEl}
TameEls == SubEls({0, 1, -1, -2}, {1, 2, 3, -1}, {1, 2, -1}) \cup IdxEls({0, 1, -1}) \cup {EllEl}

SlGen(kk, E, m, n, shapes) == LET W == RandomSubset(m, E) IN RandomSubset(kk, [1..n -> W] \X STs \X shapes)

\* types used by Reshape
ReshSeq == <<U8, ArrayT(<<1>>, "u8"), ArrayT(<<6>>, "u8"), ArrayT(<<2, 3>>, "u8"), ArrayT(<<3, 2, 1>>, "u8"),
             ArrayT(<<4>>, "u8"), ArrayT(<<2, 2>>, "u8"), ArrayT(<<2, 2>>, "i8"), ArrayT(<<2, 3>>, "b"), ArrayT(<<6>>, "b"),
             ArrayT(<<2, 2>>, "i128"), ArrayT(<<4>>, "i128"), ArrayT(<<4>>, "u64"), ArrayT(<<1, 4>>, "u64"),
             TupleT(<<ArrayT(<<2, 3>>, "u8"), ArrayT(<<6>>, "u8")>>), VectorT(2, ArrayT(<<6>>, "u8")),
             VectorT(2, ArrayT(<<3, 2>>, "u8")), NamedT(<<"p", "q">>, <<ArrayT(<<1, 6>>, "u8"), ArrayT(<<2, 3>>, "u8")>>),
             NamedT(<<"p", "p">>, <<ArrayT(<<1, 6>>, "u8"), ArrayT(<<2, 3>>, "u8")>>),
             TupleT(<<TupleT(<<ArrayT(<<6>>, "u8")>>), VectorT(1, ArrayT(<<3, 2>>, "u8"))>>),
             TupleT(<<U8, ArrayT(<<4>>, "i128")>>), VectorT(2, TupleT(<<ArrayT(<<1>>, "u8"), ArrayT(<<2, 2>>, "i128")>>)),
             TupleT(<<ArrayT(<<1>>, "u8"), ArrayT(<<2, 2>>, "i128"), U8, ArrayT(<<4>>, "i128")>>),
             TupE, Vec0, VectorT(0, TupA), TupleT(<<Vec0, TupE>>), ArrayT(<<2, 0>>, "u8"), [k |-> "a", st |-> "u8", sh |-> <<>>],
             TupA, VecA, VecB, ArrayT(<<2>>, "b"), VectorT(2, ScalarT("b")), ArrayT(<<2>>, "u8"), TupleT(<<U8, U8>>)>>

IndexSTs == {"u8", "u16", "u32", "u64", "b", "i8", "u128", "i64"}

\* Packing families: operations that assemble an array from pieces / cut it into pieces, with no broadcasting,
\* over piece sizes and piece counts beyond Dims (1..9, 16 pieces of 1..16 cells).  For bits (8 cells per byte,
\* every value padded to a whole byte) this covers every combination of "piece is / is not a whole number of
\* bytes" with "result is / is not a whole number of bytes"; the bit cases are enumerated exhaustively, the
\* other scalar types are sampled.
PackOuter == {<<n>> : n \in 1..9} \cup {<<16>>, <<2, 2>>, <<2, 3>>, <<2, 4>>, <<4, 2>>, <<3, 3>>, <<4, 4>>, <<2, 2, 2>>,
                                        <<2, 1, 2>>, <<1, 8>>, <<8, 1>>}
PackInner == {<<>>} \cup {<<n>> : n \in {1, 2, 3, 4, 5, 7, 8, 9}}
             \cup {<<2, 2>>, <<1, 3>>, <<3, 1>>, <<2, 3>>, <<2, 4>>, <<3, 3>>, <<4, 4>>, <<3, 5>>, <<2, 2, 2>>, <<1, 2, 2>>}
PackLens == {1, 2, 3, 4, 5, 7, 8, 9}
PackCnt == (1..9) \cup {16}
BitST == STs \cap {"b"}
\* all of the bit cases, a sample of kk of the others
PackSel(U, kk) == {q \in U : q[1] = "b"} \cup Sample2({q \in U : q[1] # "b"}, kk)
\* Concatenate of pieces of lengths ls along the first or the last axis, the other dimensions being o
PackConcat(U) == {<<IF q[2] THEN 0 ELSE Len(q[4]), q[1],
                    [i \in 1..Len(q[3]) |-> IF q[2] THEN <<q[3][i]>> \o q[4] ELSE q[4] \o <<q[3][i]>>]>> : q \in U}
PackOther == {<<>>, <<2>>, <<3>>, <<4>>, <<8>>, <<2, 2>>}

Gen(opn) ==
  CASE opn \in {"Input", "Zeros", "Ones", "Random"} ->
         {C([op |-> opn, t |-> tt], <<>>) : tt \in {AnySeq[i] : i \in AnyIx} \cup {BadSeq[i] : i \in 1..Len(BadSeq)}
                                                  \cup Sample2(UNION {{MkNum(sh, st) : sh \in ShapeOrS} : st \in STs}, 30)}
    [] opn = "Constant" ->
         {C([op |-> opn, t |-> tt, v |-> ZeroOf(tt)], <<>>) : tt \in {AnySeq[i] : i \in AnyIx}}
         \cup {C([op |-> opn, t |-> tt, v |-> OneOf(tt)], <<>>) : tt \in {AnySeq[i] : i \in AnyIx}}
    [] opn = "RandomPermutation" -> {C([op |-> opn, n |-> nn], <<>>) : nn \in {0, 1, 3}}
    [] opn \in {"Add", "Subtract", "Multiply", "Dot", "Matmul"} ->
         {C(R0(opn), a) : a \in BinArgs(K \div 3) \cup BinSame(K) \cup BinOdd}
    [] opn = "MixedMultiply" -> {C(R0(opn), a) : a \in BinArgs(K \div 3) \cup MixArgs(K) \cup BinOdd}
    [] opn = "Gemm" ->
         {C([op |-> opn, ta |-> f[1], tb |-> f[2]], a) :
            f \in BOOLEAN \X BOOLEAN, a \in BinArgs(K \div 8) \cup BinSame(K \div 3) \cup BinOdd}
    [] opn = "Truncate" ->
         {C([op |-> opn, scale |-> s[1], scale_s |-> s[2]], <<tt>>) :
            s \in {<<0, "0">>, <<1, "1">>, <<3, "3">>, <<128, "128">>, <<1000, "1000">>, <<0, "18446744073709551616">>,
                   <<0, "170141183460469231731687303715884105727">>, <<0, "170141183460469231731687303715884105728">>,
                   <<0, "340282366920938463463374607431768211455">>},
            tt \in {AnySeq[i] : i \in AnyIx} \cup Sample2(UNION {{MkNum(sh, st) : sh \in ShapeOrS} : st \in STs}, K \div 9)}
    [] opn = "Sum" ->
         {C([op |-> opn, axes |-> q[1]], <<MkNum(q[3], q[2])>>) : q \in RandomSubset(K, AxesSeqs \X STs \X ShapeOrS)}
         \cup {C([op |-> opn, axes |-> <<0>>], <<OddSeq[i]>>) : i \in OddIx}
    [] opn = "CumSum" ->
         {C([op |-> opn, axis |-> q[1]], <<MkNum(q[3], q[2])>>) : q \in Sample((0..3) \X STs \X ShapeOrS)}
         \cup {C([op |-> opn, axis |-> 0], <<OddSeq[i]>>) : i \in OddIx}
    [] opn = "PermuteAxes" ->
         {C([op |-> opn, perm |-> q[1]], <<MkNum(q[3], q[2])>>) :
            q \in RandomSubset(K \div 2, (AxesSeqs \cup {<<0, 1, 2, 3>>, <<3, 1, 0, 2>>, <<0, 1, 2, 2>>}) \X STs \X ShapeOrS)
                  \cup RandomSubset(K, {<<0>>, <<0, 1>>, <<1, 0>>, <<0, 1, 2>>, <<0, 2, 1>>, <<1, 0, 2>>, <<1, 2, 0>>, <<2, 0, 1>>, <<2, 1, 0>>,
                                         <<0, 1, 2, 3>>, <<3, 1, 0, 2>>, <<1, 0, 3, 2>>} \X STs \X SH)}
         \cup {C([op |-> opn, perm |-> <<0>>], <<OddSeq[i]>>) : i \in OddIx}
    [] opn = "InversePermutation" ->
         {C(R0(opn), <<tt>>) : tt \in {ArrayT(<<n>>, st) : n \in 1..6, st \in AllST}
                                     \cup {MkNum(q[2], q[1]) : q \in Sample2(AllST \X ShapeOrS, K \div 4)}
                                     \cup {OddSeq[i] : i \in OddIx}}
    [] opn \in {"CuckooToPermutation", "A2B", "ArrayToVector", "NOP", "Print"} ->
         {C(R1(opn), <<MkNum(q[2], q[1])>>) : q \in Sample(AllST \X ShapeOrS)}
         \cup {C(R1(opn), <<OddSeq[i]>>) : i \in OddIx}
         \cup (IF opn # "ArrayToVector" THEN {}
               ELSE {C(R1(opn), <<ArrayT(<<q[2]>> \o q[3], q[1])>>) : q \in PackSel(STs \X PackCnt \X PackInner, K \div 4)})
    [] opn = "DecomposeSwitchingMap" ->
         {C([op |-> opn, n |-> q[1]], <<MkNum(q[3], q[2])>>) : q \in Sample({1, 2, 5} \X {"u64", "u8", "b"} \X ShapeOrS)}
    [] opn = "Get" ->
         {C([op |-> opn, index |-> q[1]], <<MkNum(q[3], q[2])>>) : q \in RandomSubset(K, Seqs(0..3, 0, 4) \X STs \X ShapeOrS)}
         \cup {C([op |-> opn, index |-> q[1]], <<MkNum(q[3], q[2])>>) : q \in RandomSubset(K, Seqs(0..1, 0, 3) \X STs \X SH)}
         \cup {C([op |-> opn, index |-> <<0>>], <<OddSeq[i]>>) : i \in OddIx}
         \* one piece (the first, one in the middle, the last) of an array of PackCnt pieces
         \cup UNION {{C([op |-> opn, index |-> <<ii>>], <<ArrayT(<<q[2]>> \o q[3], q[1])>>) : ii \in {0, q[2] \div 2, q[2] - 1}} :
                       q \in Sample2(BitST \X PackCnt \X (PackInner \ {<<>>}), K \div 3)
                             \cup Sample2((STs \ {"b"}) \X PackCnt \X (PackInner \ {<<>>}), K \div 8)}
    [] opn = "GetSlice" ->
         {C([op |-> opn, slice |-> q[1]], <<MkNum(q[3], q[2])>>) :
            q \in UNION {SlGen(K \div 8, WildEls, 10, n, ShapeOrS) : n \in 1..3}
                  \cup SlGen(K \div 4, WildEls, 40, 1, SH)
                  \cup UNION {SlGen(K \div 3, TameEls, 10, n, SH) : n \in 0..3}
                  \cup SlGen(K \div 4, TameEls, 5, 4, SH)
                  \cup SlGen(K \div 2, TameEls, 20, 2, [1..2 -> Dims])
                  \cup SlGen(K \div 2, TameEls, 12, 3, [1..3 -> Dims])}
         \cup {C([op |-> opn, slice |-> <<EllEl>>], <<OddSeq[i]>>) : i \in OddIx}
    [] opn = "Reshape" ->
         {C([op |-> opn, t |-> ReshSeq[q[2]]], <<ReshSeq[q[1]]>>) :
            q \in Sample({p \in (1..Len(ReshSeq)) \X (1..Len(ReshSeq)) : ValidType(ReshSeq[p[1]])})}
    [] opn = "Assert" ->
         {C([op |-> opn, msg |-> "m"], <<AnySeq[i], AnySeq[j]>>) : i \in {1, 11, 12, 15, 20}, j \in AnyIx}
    [] opn = "PRF" ->
         {C([op |-> opn, iv |-> 0, t |-> AnySeq[j]], <<kt>>) :
            kt \in {ArrayT(<<128>>, "b"), ArrayT(<<128>>, "u8"), ArrayT(<<64>>, "b"), ArrayT(<<1, 128>>, "b"), ScalarT("b"), TupA},
            j \in {1, 11, 13, 14}}
         \cup {C([op |-> opn, iv |-> 0, t |-> BadSeq[j]], <<ArrayT(<<128>>, "b")>>) : j \in 1..Len(BadSeq)}
    [] opn = "PermutationFromPRF" ->
         {C([op |-> opn, iv |-> 0, n |-> nn], <<kt>>) :
            kt \in {ArrayT(<<128>>, "b"), ArrayT(<<128>>, "u8"), ArrayT(<<64>>, "b"), TupA}, nn \in {0, 1, 4}}
    [] opn = "Stack" ->
         {C([op |-> opn, sh |-> q[1]], q[2]) :
            q \in RandomSubset(K, {<<1>>, <<2>>, <<1, 2>>, <<2, 1>>, <<3>>, <<2, 2>>, <<>>, <<0>>, <<2, 0>>}
                                  \X Seqs({SomeNum[i] : i \in {1, 3, 9}} \cup {ArrayT(<<1>>, "u8"), ArrayT(<<2, 1>>, "u8"), ArrayT(<<3>>, "u8"), TupA}, 0, 4))
                  \cup {<<sh, [i \in 1..Prod(sh) |-> MkNum(a[((i - 1) % 2) + 2], a[1])]>> :
                          sh \in {<<1>>, <<2>>, <<3>>, <<2, 2>>, <<1, 2>>, <<2, 1, 2>>},
                          a \in RandomSubset(Max2(K \div 6, 4), STs \X ShapeOrS \X ShapeOrS)}
                  \* no broadcasting: Prod(outer) pieces of the same type
                  \cup {<<q[2], [i \in 1..Prod(q[2]) |-> MkNum(q[3], q[1])]>> : q \in PackSel(STs \X PackOuter \X PackInner, K \div 4)}}
    [] opn = "Concatenate" ->
         {C([op |-> opn, axis |-> q[1]], [i \in 1..Len(q[3]) |-> MkNum(q[3][i], q[2])]) :
            q \in UNION {LET W == RandomSubset(14, ShapeOrS) IN RandomSubset(K \div 3, (0..3) \X STs \X [1..n -> W]) : n \in 1..3}
                  \cup RandomSubset(K, (0..2) \X STs \X Seqs([1..2 -> {1, 2}], 2, 3))
                  \cup RandomSubset(K \div 2, (0..2) \X STs \X Seqs([1..3 -> {1, 2}], 2, 2))
                  \cup RandomSubset(K \div 4, (0..1) \X STs \X Seqs([1..1 -> Dims], 2, 4))
                  \cup PackConcat(BitST \X BOOLEAN \X Seqs(PackLens, 2, 2) \X PackOther)
                  \cup PackConcat(RandomSubset(K \div 4, STs \X BOOLEAN \X Seqs(PackLens, 2, 4) \X PackOther))}
         \cup {C([op |-> opn, axis |-> 0], <<ArrayT(<<2>>, "u8"), tt>>) : tt \in {ArrayT(<<2>>, "i8"), TupA, U8}}
    [] opn = "B2A" ->
         {C([op |-> opn, st |-> q[1]], <<MkNum(q[3], q[2])>>) :
            q \in Sample(AllST \X {"b", "u8"} \X ({sh \o <<w>> : sh \in {<<>>, <<1>>, <<2>>, <<2, 1>>, <<1, 3>>}, w \in {8, 16, 32, 64, 128}}
                                                  \cup {<<>>, <<1>>, <<2, 2>>}))}
         \cup {C([op |-> opn, st |-> "u8"], <<OddSeq[i]>>) : i \in OddIx}
    [] opn = "CreateTuple" -> {C(R0(opn), a) : a \in Sample(Seqs({AnySeq[i] : i \in AnyIx}, 0, 3))}
    [] opn = "CreateNamedTuple" ->
         {C([op |-> opn, nm |-> q[1]], q[2]) :
            q \in RandomSubset(K, Seqs({"a", "b", "c"}, 0, 3) \X Seqs({AnySeq[i] : i \in {1, 2, 7, 11, 13, 17}}, 0, 3))}
    [] opn = "CreateVector" ->
         {C([op |-> opn, t |-> q[1]], q[2]) :
            q \in RandomSubset(K, ({AnySeq[i] : i \in {1, 2, 11, 13, 17, 18, 21}} \cup {BadSeq[2]}) \X Seqs({AnySeq[i] : i \in {1, 2, 11, 13, 17, 18, 21}}, 0, 3))}
         \cup {C([op |-> opn, t |-> AnySeq[q[1]]], [i \in 1..q[2] |-> AnySeq[q[1]]]) : q \in AnyIx \X (0..3)}
    [] opn = "TupleGet" -> {C([op |-> opn, i |-> q[1]], <<AnySeq[q[2]]>>) : q \in (0..3) \X AnyIx}
    [] opn = "NamedTupleGet" -> {C([op |-> opn, key |-> q[1]], <<AnySeq[q[2]]>>) : q \in {"a", "b", "zz"} \X AnyIx}
    [] opn = "VectorGet" ->
         {C(R0(opn), <<AnySeq[q[1]], q[2]>>) :
            q \in AnyIx \X ({ScalarT(st) : st \in AllST} \cup {ArrayT(<<1>>, "u64"), TupE})}
    [] opn = "Zip" ->
         {C(R0(opn), a) : a \in Sample(Seqs({VecA, VecB, VecS, Vec0, VecW, VecT, VecL, VectorT(2, TupW), VectorT(3, U8), VecU, TupA, U8}, 1, 3))}
    [] opn = "Repeat" -> {C([op |-> opn, n |-> q[1]], <<AnySeq[q[2]]>>) : q \in (0..3) \X AnyIx}
    [] opn = "VectorToArray" ->
         {C(R0(opn), <<tt>>) : tt \in {AnySeq[i] : i \in AnyIx}
                                     \cup {VectorT(q[1], MkNum(q[3], q[2])) : q \in Sample2((0..3) \X STs \X ShapeOrS, K \div 2)}
                                     \cup {VectorT(q[2], MkNum(q[3], q[1])) : q \in PackSel(STs \X PackCnt \X PackInner, K \div 4)}}
    [] opn = "Gather" ->
         {C([op |-> opn, axis |-> q[1]], <<ArrayT(q[3], q[2]), MkNum(q[5], q[4])>>) :
            q \in RandomSubset(3 * K, (0..3) \X STs \X SH \X IndexSTs \X ({<<>>, <<1>>, <<2>>, <<3>>, <<1, 2>>, <<2, 1>>, <<1, 1>>, <<2, 2>>, <<1, 3>>}))}
         \cup {C([op |-> opn, axis |-> 0], <<AnySeq[q[1]], AnySeq[q[2]]>>) : q \in {1, 13} \X {2, 13, 16}}
    [] opn = "ApplyPermutation" ->
         {C([op |-> opn, inv |-> q[1]], <<ArrayT(q[3], q[2]), MkNum(q[5], q[4])>>) :
            q \in RandomSubset(3 * K, BOOLEAN \X STs \X SH \X IndexSTs \X {<<>>, <<1>>, <<2>>, <<3>>, <<1, 2>>, <<3, 1>>})}
         \cup {C([op |-> opn, inv |-> FALSE], <<AnySeq[q[1]], AnySeq[q[2]]>>) : q \in {1, 13} \X {2, 13, 16}}
    [] opn = "SegmentCumSum" ->
         {C(R0(opn), <<ArrayT(q[2], q[1]), q[3], q[4]>>) :
            q \in UNION {{<<st, sh, a2, a3>> :
                            a2 \in {ArrayT(<<sh[1]>>, "b"), ArrayT(<<sh[1]>>, "u8"), ArrayT(<<sh[1], 1>>, "b"), ScalarT("b"), ArrayT(<<3>>, "b")},
                            a3 \in {MkNum(Tail(sh), st), MkNum(sh, st), ScalarT(st), MkNum(Tail(sh), "b"), MkNum(Tail(sh), "u8"), TupA}} :
                         st \in STs, sh \in Sample2(SH, K \div 20)}}
    [] OTHER -> {}

\* wrong number of arguments
ArityVariants(opn, c) ==
  IF Arity(opn) < 0 THEN {}
  ELSE {C(c.rec, c.ats \o <<U8>>)} \cup (IF Len(c.ats) > 0 THEN {C(c.rec, SubSeq(c.ats, 1, Len(c.ats) - 1))} ELSE {})

Families == <<"Input", "Zeros", "Ones", "Random", "Constant", "RandomPermutation", "Add", "Subtract", "Multiply",
              "MixedMultiply", "Dot", "Matmul", "Gemm", "Truncate", "Sum", "CumSum", "PermuteAxes",
              "InversePermutation", "CuckooToPermutation", "DecomposeSwitchingMap", "Get", "GetSlice", "Reshape",
              "NOP", "Print", "Assert", "PRF", "PermutationFromPRF", "Stack", "Concatenate", "A2B", "B2A",
              "CreateTuple", "CreateNamedTuple", "CreateVector", "TupleGet", "NamedTupleGet", "VectorGet", "Zip",
              "Repeat", "ArrayToVector", "VectorToArray", "Gather", "ApplyPermutation", "SegmentCumSum">>
NF == Len(Families)

---------------------------------------------------------------------------
\* spec-level soundness on three argument vectors
RECURSIVE RampOf(_)
RampOf(t) ==
  CASE t.k \in {"s", "a"} -> [i \in 1..NumEl(t) |-> (i * 37 + 11) % Modulus(t.st)]
    [] OTHER -> LET cs == Components(t) IN [i \in 1..Len(cs) |-> RampOf(cs[i])]

SoundOn(c, ty, args) ==
  LET pl == Plan(c.rec, c.ats, ty) IN
  \/ pl.p = "unsupported"
  \/ ExecErr(pl, args)
  \/ HasType(Exec(pl, args, ty), ty)

SoundCase(c, ty) ==
  \/ IsErr(ty)
  \/ c.rec.op \in {"Input", "Random", "RandomPermutation", "CuckooToPermutation", "DecomposeSwitchingMap", "PRF", "PermutationFromPRF"}
  \/ /\ ValidType(ty)
     /\ SoundOn(c, ty, [i \in 1..Len(c.ats) |-> ZeroOf(c.ats[i])])
     /\ SoundOn(c, ty, [i \in 1..Len(c.ats) |-> OneOf(c.ats[i])])
     /\ SoundOn(c, ty, [i \in 1..Len(c.ats) |-> RampOf(c.ats[i])])

\* all cases of one family as a sequence of output records
Emit(n) ==
  LET opn == Families[n]
      g == Gen(opn)
      all == IF g = {} THEN {} ELSE g \cup ArityVariants(opn, CHOOSE c \in g : TRUE)
      withTy == {[rec |-> c.rec, ats |-> c.ats, ty |-> OpType(c.rec, c.ats)] : c \in all}
      kept == IF KeepErr THEN withTy ELSE {c \in withTy : ~IsErr(c.ty)}
      sq == SetToSeq(kept)
      out == [i \in 1..Len(sq) |-> [id |-> opn \o "/" \o ToString(i), rec |-> sq[i].rec, ats |-> sq[i].ats, ty |-> sq[i].ty]]
      bad == {c \in kept : ~SoundCase(c, c.ty)}
  IN /\ ndJsonSerialize(IOEnv.OUT \o ToString(n) \o ".ndjson", out)
     /\ PrintT(<<"FAMILY", opn, Len(sq), Cardinality({c \in kept : ~IsErr(c.ty)})>>)
     /\ (bad # {} => PrintT(<<"UNSOUND", ToJson(CHOOSE c \in bad : TRUE)>>))
     /\ bad = {}

Init == fam = 0
Next == \/ fam = 0 /\ fam' \in 1..NF
        \/ fam \in 1..NF /\ fam' = (IF Emit(fam) THEN -fam ELSE -1000 - fam)
Spec == Init /\ [][Next]_fam
Sound == fam > -1000
=============================================================================
