-------------------------------- MODULE CCCall --------------------------------
(***************************************************************************)
(* Reference semantics of Call and Iterate (evaluators.rs                  *)
(* evaluate_call_iterate, lines 25-61) on top of the single-graph          *)
(* interpreter CCEval.                                                     *)
(*                                                                         *)
(* A program is the export of a whole context (harness prog.rs             *)
(* context_to_prog):  [graphs |-> <<[nodes, out, gann], ...>>, main]       *)
(* where a Call / Iterate node names its callee by gdeps[1] (1-based index *)
(* into graphs; callees always precede their callers).                     *)
(*                                                                         *)
(*   Call(g; a1..ak)        = value of g's output node on inputs a1..ak    *)
(*   Iterate(g; s0, <<x1..xn>>) = <<sn, <<o1..on>>>>  where                *)
(*                            <<s_i, o_i>> = g(s_{i-1}, x_i)               *)
(* -- a left fold of the body; n = 0 gives <<s0, <<>>>>.                   *)
(* Random / PRF nodes have no plain value: programs containing them are    *)
(* only checked structurally.                                              *)
(***************************************************************************)
EXTENDS CCEval

PGraph(P, gi) == P.graphs[gi].nodes

\* plan tables of all graphs of a program (computed once per program by the caller)
ProgPlans(P) == [gi \in 1..Len(P.graphs) |-> Plans(PGraph(P, gi))]

InputPos(G, nd) == Cardinality({q \in 1..nd : IsInput(G[q])})

RECURSIVE CEvalGraph(_, _, _, _)
RECURSIVE CEvalFrom(_, _, _, _, _, _)
RECURSIVE CIterate(_, _, _, _, _, _, _)

CEvalFrom(P, PT, gi, nd, vals, ins) ==
  LET G == PGraph(P, gi) IN
  IF nd > Len(G) THEN vals
  ELSE LET r == G[nd]
           args == [q \in 1..Len(r.deps) |-> vals[r.deps[q]]]
           v == CASE IsInput(r) -> ins[InputPos(G, nd)]
                  [] r.op = "Call" -> CEvalGraph(P, PT, r.gdeps[1], args)
                  [] r.op = "Iterate" -> CIterate(P, PT, r.gdeps[1], args[1], args[2], 1, <<>>)
                  [] OTHER -> Exec(PT[gi][nd], args, r.ty)
       IN CEvalFrom(P, PT, gi, nd + 1, Append(vals, v), ins)

CEvalGraph(P, PT, gi, ins) == CEvalFrom(P, PT, gi, 1, <<>>, ins)[OutNode(PGraph(P, gi))]

\* left fold of the body over the input vector
CIterate(P, PT, body, st, xs, q, outs) ==
  IF q > Len(xs) THEN <<st, outs>>
  ELSE LET r == CEvalGraph(P, PT, body, <<st, xs[q]>>)
       IN CIterate(P, PT, body, r[1], xs, q + 1, Append(outs, r[2]))

\* value of the main graph of program P on inputs ins
CEval(P, PT, ins) == CEvalGraph(P, PT, P.main, ins)

\* a context without Call / Iterate in its main graph: CCEval!EvalPlain applies directly
IsFlat(P) == \A q \in 1..Len(PGraph(P, P.main)) : PGraph(P, P.main)[q].op \notin {"Call", "Iterate"}

ProgSupported(P) ==
  \A gi \in 1..Len(P.graphs) : \A q \in 1..Len(PGraph(P, gi)) :
     PGraph(P, gi)[q].op \in {"Call", "Iterate"} \/ SupportedNode(PGraph(P, gi), q)
=============================================================================
