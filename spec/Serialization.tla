----------------------------- MODULE Serialization -----------------------------
(***************************************************************************)
(* Serialization of contexts (property C12) on top of ContextAPI.          *)
(*                                                                         *)
(* The serial form of a context is SerOf (module ContextAPI): exactly the  *)
(* fields make_serializable writes (graphs.rs:4415), wrapped in an         *)
(* envelope [version, json] (version.rs; `json` says what the inner        *)
(* payload string is: "ok" = a JSON text of the right shape, anything else *)
(* = not decodable).                                                       *)
(*                                                                         *)
(* Recover(env, ser) is the replay of                                      *)
(* SerializableContextBody::recover_original_context (graphs.rs:3859) IN   *)
(* ITS ORDER, expressed with the mutators of ContextAPI: per graph create, *)
(* add every node (dependency ids checked against what exists so far),     *)
(* set output, finalize; then main graph, id checks of both name tables,   *)
(* graph names, node names, graph annotations, node annotations, context   *)
(* finalization.  It fails with "err" at the first failing guard or        *)
(* out-of-range id.  NOTE: the property demands an error for out-of-range  *)
(* ids in the annotation tables and for an undecodable payload; the code   *)
(* indexes / expect()s there, which the conformance check reports.         *)
(***************************************************************************)
EXTENDS ContextAPI

DataVersion == 2

CallBase == [k |-> "", c |-> 0, gh |-> <<0, 0>>, nh |-> <<0, 0, 0>>, deps |-> <<>>, gdeps |-> <<>>,
             op |-> [o |-> "", t |-> NoT, i |-> 0], nm |-> "", an |-> "", wt |-> NoT, lres |-> "", lty |-> NoT]

PlainEnv == [version |-> DataVersion, json |-> "ok"]

\* `hint` gives outcome/type for operations the specification does not model: a function from
\* <<g, n>> to a type, or <<>> when there are none (then such nodes cannot be recovered: "err").
HintT(hint, g, n) == IF <<g, n>> \in DOMAIN hint THEN hint[<<g, n>>] ELSE NoT

RECURSIVE RecNodes(_, _, _, _, _)
RecNodes(S, g, ns, i, hint) ==
  IF i > Len(ns) THEN R("ok", S)
  ELSE LET N == ns[i]
           cnt == Len(S[1].graphs[g + 1].nodes)
           ngr == Len(S[1].graphs)
           ht == HintT(hint, g, i - 1)
       IN IF \E j \in DOMAIN N.nd : N.nd[j] >= cnt \/ N.nd[j] < 0 THEN R("err", S)        \* "Non-existent node dependency"
          ELSE IF \E j \in DOMAIN N.gd : N.gd[j] >= ngr \/ N.gd[j] < 0 THEN R("err", S)   \* "Non-existent graph dependency"
          ELSE LET q == AddRes(S, [CallBase EXCEPT !.k = "add", !.gh = <<0, g>>,
                                                   !.deps = [j \in DOMAIN N.nd |-> <<0, g, N.nd[j]>>],
                                                   !.gdeps = [j \in DOMAIN N.gd |-> <<0, N.gd[j]>>],
                                                   !.op = N.op,
                                                   !.lres = IF ht.k = "none" THEN "err" ELSE "ok",
                                                   !.lty = ht])
               IN IF q.res = "err" THEN R("err", S) ELSE RecNodes(q.st, g, ns, i + 1, hint)

\* recover_original_graph
RecGraph(S, sg, hint) ==
  LET g == Len(S[1].graphs)
      s1 == CreateRes(S, [CallBase EXCEPT !.k = "create"])
  IN IF s1.res = "err" THEN R("err", S)
     ELSE LET s2 == RecNodes(s1.st, g, sg.nodes, 1, hint)
          IN IF s2.res = "err" THEN R("err", S)
             ELSE LET s3 == IF sg.output_node = -1 THEN s2
                            ELSE IF sg.output_node >= Len(s2.st[1].graphs[g + 1].nodes) \/ sg.output_node < -1 THEN R("err", S)
                            ELSE OutRes(s2.st, [CallBase EXCEPT !.k = "out", !.gh = <<0, g>>, !.nh = <<0, g, sg.output_node>>])
                  IN IF s3.res = "err" THEN R("err", S)
                     ELSE IF sg.finalized THEN GFinRes(s3.st, [CallBase EXCEPT !.k = "gfin", !.gh = <<0, g>>])
                     ELSE s3

\* fold F over the entries of a table, stopping at the first error
FoldRes(F(_, _), S, sq, i0) ==
  LET RECURSIVE go(_, _)
      go(T, i) == IF i > Len(sq) THEN R("ok", T)
                  ELSE LET q == F(T, sq[i]) IN IF q.res = "err" THEN R("err", T) ELSE go(q.st, i + 1)
  IN go(S, i0)

RECURSIVE AnnFold(_, _, _, _)
AnnFold(S, ca, ans, i) ==
  IF i > Len(ans) THEN R("ok", S)
  ELSE LET q == IF ca.k = "gann" THEN GAnnRes(S, [ca EXCEPT !.an = ans[i]]) ELSE NAnnRes(S, [ca EXCEPT !.an = ans[i]])
       IN IF q.res = "err" THEN R("err", S) ELSE AnnFold(q.st, ca, ans, i + 1)

GraphIdOK(S, g) == g >= 0 /\ g < Len(S[1].graphs)
NodeIdOK(S, g, n) == GraphIdOK(S, g) /\ n >= 0 /\ n < Len(S[1].graphs[g + 1].nodes)
NameOK(nm) == \E i \in DOMAIN NameSeq : NameSeq[i] = nm

HasUnknownOp(ser) == \E gi \in DOMAIN ser.graphs : \E ni \in DOMAIN ser.graphs[gi].nodes : ser.graphs[gi].nodes[ni].op.o = "?"

\* recover_original_context
RecoverBody(ser, hint) ==
  LET S0 == InitWorld(1)
      RG(S, sg) == RecGraph(S, sg, hint)
      g1 == FoldRes(RG, S0, ser.graphs, 1)
  IN IF g1.res = "err" THEN R("err", S0)
     ELSE
     LET m1 == IF ser.main_graph = -1 THEN g1
               ELSE IF ~GraphIdOK(g1.st, ser.main_graph) THEN R("err", S0)             \* "Non-existent main graph"
               ELSE MainRes(g1.st, [CallBase EXCEPT !.k = "main", !.gh = <<0, ser.main_graph>>])
     IN IF m1.res = "err" THEN R("err", S0)
        ELSE IF \E i \in DOMAIN ser.graphs_names : ~GraphIdOK(m1.st, ser.graphs_names[i].g) THEN R("err", S0)
        ELSE IF \E i \in DOMAIN ser.nodes_names : ~NodeIdOK(m1.st, ser.nodes_names[i].g, ser.nodes_names[i].n) THEN R("err", S0)
        ELSE
        LET GN(S, e) == GNameRes(S, [CallBase EXCEPT !.k = "gname", !.gh = <<0, e.g>>, !.nm = e.nm])
            NN(S, e) == NNameRes(S, [CallBase EXCEPT !.k = "nname", !.nh = <<0, e.g, e.n>>, !.nm = e.nm])
            \* the property demands "err" for dangling annotation ids (the code indexes unchecked)
            GA(S, e) == IF ~GraphIdOK(S, e.g) THEN R("err", S)
                        ELSE AnnFold(S, [CallBase EXCEPT !.k = "gann", !.gh = <<0, e.g>>], e.an, 1)
            NA(S, e) == IF ~NodeIdOK(S, e.g, e.n) THEN R("err", S)
                        ELSE AnnFold(S, [CallBase EXCEPT !.k = "nann", !.nh = <<0, e.g, e.n>>], e.an, 1)
            n1 == FoldRes(GN, m1.st, ser.graphs_names, 1)
        IN IF n1.res = "err" THEN R("err", S0)
           ELSE LET n2 == FoldRes(NN, n1.st, ser.nodes_names, 1)
                IN IF n2.res = "err" THEN R("err", S0)
                   ELSE LET a1 == FoldRes(GA, n2.st, ser.graphs_annotations, 1)
                        IN IF a1.res = "err" THEN R("err", S0)
                           ELSE LET a2 == FoldRes(NA, a1.st, ser.nodes_annotations, 1)
                                IN IF a2.res = "err" THEN R("err", S0)
                                   ELSE IF ser.finalized THEN
                                          LET f == CFinRes(a2.st, [CallBase EXCEPT !.k = "cfin"])
                                          IN IF f.res = "err" THEN R("err", S0) ELSE f
                                   ELSE a2

\* Deserialize for Context (graphs.rs:4652): version check, payload decoding, recovery
RecoverH(env, ser, hint) ==
  IF env.version # DataVersion THEN R("err", InitWorld(1))
  ELSE IF env.json # "ok" THEN R("err", InitWorld(1))
  ELSE IF HasUnknownOp(ser) THEN R("err", InitWorld(1))      \* unknown operation tag: the payload does not decode
  ELSE IF \E i \in DOMAIN ser.graphs_names : ~NameOK(ser.graphs_names[i].nm) THEN R("err", InitWorld(1))   \* (outside the name universe of the model)
  ELSE IF \E i \in DOMAIN ser.nodes_names : ~NameOK(ser.nodes_names[i].nm) THEN R("err", InitWorld(1))
  ELSE RecoverBody(ser, hint)
Recover(env, ser) == RecoverH(env, ser, <<>>)

\* context P as the only context of a world (handles renumbered to context 0)
Renum(P) ==
  [P EXCEPT !.graphs = [gi \in DOMAIN P.graphs |->
     [P.graphs[gi] EXCEPT !.nodes = [ni \in DOMAIN P.graphs[gi].nodes |->
        [P.graphs[gi].nodes[ni] EXCEPT !.deps = [j \in DOMAIN @ |-> <<0, @[j][2], @[j][3]>>],
                                       !.gdeps = [j \in DOMAIN @ |-> <<0, @[j][2]>>]]]]]]

\* THEOREM 1: serializing and recovering gives the same context
RoundTripCtx(P) == Recover(PlainEnv, SerOf(P)) = R("ok", <<Renum(P)>>)

---------------------------------------------------------------------------
(* The catalogue of single-field corruptions of a serial form.             *)
SetAt(sq, i, v) == [sq EXCEPT ![i] = v]
Mut(kind, env, ser) == [kind |-> kind, env |-> env, ser |-> ser]

Corruptions(ser) ==
  LET NG == Len(ser.graphs)
      NN(gi) == Len(ser.graphs[gi].nodes)
      GI == DOMAIN ser.graphs
      P(k, s) == Mut(k, PlainEnv, s)
  IN
  \* envelope
  {Mut("wrong-version", [version |-> v, json |-> "ok"], ser) : v \in {0, 1, 3}}
  \cup {Mut("payload-not-json", [version |-> DataVersion, json |-> j], ser) : j \in {"garbage", "empty-object", "truncated"}}
  \* main graph
  \cup {P("main-graph-out-of-range", [ser EXCEPT !.main_graph = NG])}
  \cup {P("main-graph-other", [ser EXCEPT !.main_graph = g]) : g \in {x \in 0..(NG - 1) : x # ser.main_graph}}
  \cup (IF ser.finalized THEN {P("finalized-context-without-main", [ser EXCEPT !.main_graph = -1])} ELSE {})
  \* context flag
  \cup {P("context-finalized-flag-flipped", [ser EXCEPT !.finalized = ~@])}
  \* graphs
  \cup {P("output-node-out-of-range", [ser EXCEPT !.graphs[gi].output_node = NN(gi)]) : gi \in GI}
  \cup {P("finalized-graph-without-output", [ser EXCEPT !.graphs[gi].output_node = -1]) : gi \in {x \in GI : ser.graphs[x].finalized}}
  \cup {P("graph-finalized-flag-flipped", [ser EXCEPT !.graphs[gi].finalized = ~@]) : gi \in GI}
  \* node dependencies: self, forward, out of range
  \cup UNION {UNION {UNION {{P("node-dependency-self", [ser EXCEPT !.graphs[gi].nodes[ni].nd[j] = ni - 1]),
                            P("node-dependency-forward", [ser EXCEPT !.graphs[gi].nodes[ni].nd[j] = ni]),
                            P("node-dependency-out-of-range", [ser EXCEPT !.graphs[gi].nodes[ni].nd[j] = NN(gi)])}
                           : j \in DOMAIN ser.graphs[gi].nodes[ni].nd}
                    : ni \in DOMAIN ser.graphs[gi].nodes}
             : gi \in GI}
  \* graph dependencies: own graph, later graph / out of range
  \cup UNION {UNION {UNION {{P("graph-dependency-self", [ser EXCEPT !.graphs[gi].nodes[ni].gd[j] = gi - 1]),
                            P("graph-dependency-out-of-range", [ser EXCEPT !.graphs[gi].nodes[ni].gd[j] = NG])}
                           : j \in DOMAIN ser.graphs[gi].nodes[ni].gd}
                    : ni \in DOMAIN ser.graphs[gi].nodes}
             : gi \in GI}
  \* unknown operation tag
  \cup UNION {{P("unknown-operation", [ser EXCEPT !.graphs[gi].nodes[ni].op.o = "?"]) : ni \in DOMAIN ser.graphs[gi].nodes} : gi \in GI}
  \* graph-name table
  \cup {P("graph-name-id-out-of-range", [ser EXCEPT !.graphs_names[i].g = NG]) : i \in DOMAIN ser.graphs_names}
  \cup {P("graph-name-extra-entry-out-of-range", [ser EXCEPT !.graphs_names = Append(@, [g |-> NG, nm |-> NameSeq[1]])])}
  \cup {P("graph-name-duplicate-name", [ser EXCEPT !.graphs_names[i].nm = ser.graphs_names[1].nm]) : i \in DOMAIN ser.graphs_names \ {1}}
  \cup {P("graph-name-duplicate-id", [ser EXCEPT !.graphs_names[i].g = ser.graphs_names[1].g]) : i \in DOMAIN ser.graphs_names \ {1}}
  \* node-name table
  \cup {P("node-name-graph-out-of-range", [ser EXCEPT !.nodes_names[i].g = NG]) : i \in DOMAIN ser.nodes_names}
  \cup {P("node-name-node-out-of-range", [ser EXCEPT !.nodes_names[i].n = NN(ser.nodes_names[i].g + 1)]) : i \in DOMAIN ser.nodes_names}
  \cup {P("node-name-extra-entry-out-of-range", [ser EXCEPT !.nodes_names = Append(@, [g |-> 0, n |-> 1000, nm |-> NameSeq[1]])])}
  \cup {P("node-name-duplicate-name", [ser EXCEPT !.nodes_names[i].nm = ser.nodes_names[1].nm, !.nodes_names[i].g = ser.nodes_names[1].g])
          : i \in DOMAIN ser.nodes_names \ {1}}
  \cup {P("node-name-duplicate-id", [ser EXCEPT !.nodes_names[i].g = ser.nodes_names[1].g, !.nodes_names[i].n = ser.nodes_names[1].n])
          : i \in DOMAIN ser.nodes_names \ {1}}
  \* annotation tables
  \cup {P("graph-annotation-id-out-of-range", [ser EXCEPT !.graphs_annotations[i].g = NG]) : i \in DOMAIN ser.graphs_annotations}
  \cup {P("graph-annotation-extra-entry-out-of-range", [ser EXCEPT !.graphs_annotations = Append(@, [g |-> NG, an |-> <<"OneBitState">>])])}
  \cup {P("node-annotation-graph-out-of-range", [ser EXCEPT !.nodes_annotations[i].g = NG]) : i \in DOMAIN ser.nodes_annotations}
  \cup {P("node-annotation-node-out-of-range", [ser EXCEPT !.nodes_annotations[i].n = NN(ser.nodes_annotations[i].g + 1)])
          : i \in DOMAIN ser.nodes_annotations}
  \cup {P("node-annotation-extra-entry-graph-out-of-range", [ser EXCEPT !.nodes_annotations = Append(@, [g |-> NG, n |-> 0, an |-> <<"Private">>])])}
  \cup (IF NG > 0
        THEN {P("node-annotation-extra-entry-node-out-of-range",
                [ser EXCEPT !.nodes_annotations = Append(@, [g |-> 0, n |-> NN(1), an |-> <<"Private">>])])}
        ELSE {})

\* THEOREM 2: a corrupted serial form is rejected or recovers to a well-formed context
CorruptionSafe(m) == LET q == Recover(m.env, m.ser) IN q.res = "err" \/ (q.res = "ok" /\ WFWorld(q.st))
CorruptionsSafeCtx(P) == \A m \in Corruptions(SerOf(P)) : CorruptionSafe(m)
=============================================================================
