\* three-party runs of the real evaluator on compiled graphs, final condition of C02 at full width
CONSTANTS
  RingBits = 128
SPECIFICATION RSpec
INVARIANT AllJudged
CHECK_DEADLOCK FALSE
