\* C15: validation of the outputs of real PRF / PermutationFromPRF evaluations against one function table
CONSTANT HistLen = 4
CONSTANT GenLevel = 1
SPECIFICATION TraceSpec
INVARIANT TraceOK
CHECK_DEADLOCK FALSE
