----------------------------- MODULE Relational -----------------------------
(***************************************************************************)
(* Relational operations of CipherCore (properties C18, C19).              *)
(*                                                                         *)
(*  - permutations: application along the first dimension, inversion       *)
(*  - stable sort of a table (named tuple of columns) by a bit-string key  *)
(*    (Graph::sort, graphs.rs) or by an integer key (SortByIntegerKey)     *)
(*  - the four joins of Graph::join / Graph::join_with_column_masks,       *)
(*    written from their doc comments (graphs.rs) and the result type of   *)
(*    join_inference (type_inference.rs)                                   *)
(*                                                                         *)
(* A column is a record [st, n, rs, z, masked, mask, rows]: scalar type,   *)
(* number of rows, row shape, the zero element in the encoding of this     *)
(* column (0 or "0"), whether the column is a (mask, data) pair, the mask  *)
(* bits per row, and the rows (each row = flat sequence of elements).      *)
(* A table is [names |-> sequence of column names, cols |-> name -> col].  *)
(* The null-marker column is called "null"; its rows are <<0>> or <<1>>.   *)
(***************************************************************************)
EXTENDS BitOps

-----------------------------------------------------------------------------
(* Permutations: sequences of 0-based indices *)

IsPerm(p) == {p[i] : i \in 1..Len(p)} = 0..(Len(p) - 1)
ApplyPerm(a, p) == [i \in 1..Len(p) |-> a[p[i] + 1]]                    \* row i of the result is row p[i] of a
InvPerm(p) == [i \in 1..Len(p) |-> (CHOOSE j \in 1..Len(p) : p[j] = i - 1) - 1]
PermSeqs(n) == {p \in [1..n -> 0..(n-1)] : IsPerm(p)}

-----------------------------------------------------------------------------
(* Orders on keys *)

\* bit-string keys: element 1 of the row is the most significant (lexicographic order of the rows)
LexLess(s, t) == \E i \in 1..Len(s) : s[i] < t[i] /\ \A j \in 1..(i-1) : s[j] = t[j]
\* integer keys, given as two's-complement / unsigned bit strings LSB first: numeric order (BitOps)
IntLess(sg, s, t) == LtB(sg, s, t)

-----------------------------------------------------------------------------
(* Stable sort as a relation.  Less(_,_) is a strict weak order on keys.   *)

IsSortingPerm(keys, Less(_, _), p) ==
    /\ IsPerm(p)
    /\ \A i, j \in 1..Len(keys) : i < j =>
          /\ ~Less(keys[p[j] + 1], keys[p[i] + 1])                                     \* non-decreasing
          /\ (~Less(keys[p[i] + 1], keys[p[j] + 1])) => p[i] < p[j]                    \* equal keys keep input order
\* out is a stable sort of in (both: column name -> sequence of rows) by the keys
IsStableSort(in, out, keys, Less(_, _)) ==
    \E p \in PermSeqs(Len(keys)) :
        /\ IsSortingPerm(keys, Less, p)
        /\ \A c \in DOMAIN in : out[c] = ApplyPerm(in[c], p)
\* the same relation, computed: row i moves to position Rank[i]
Rank(keys, Less(_, _)) ==
    [i \in 1..Len(keys) |->
        1 + Cardinality({j \in 1..Len(keys) : Less(keys[j], keys[i]) \/ (~Less(keys[i], keys[j]) /\ j < i)})]
SortedByRank(in, out, keys, Less(_, _)) ==
    LET rk == Rank(keys, Less) IN
    \A c \in DOMAIN in : /\ Len(out[c]) = Len(keys)
                         /\ \A i \in 1..Len(keys) : out[c][rk[i]] = in[c][i]

-----------------------------------------------------------------------------
(* Joins *)

NRows(t) == t.cols["null"].n
Live(t, i) == t.cols["null"].rows[i][1] = 1
InSeq(e, sq) == \E k \in 1..Len(sq) : sq[k] = e
PosIn(e, sq) == CHOOSE k \in 1..Len(sq) : sq[k] = e

\* a row has a row key iff it is live and (masked variant) every key entry has mask 1
HasKey(t, i, hs, masked) == Live(t, i) /\ (masked => \A k \in 1..Len(hs) : t.cols[hs[k]].mask[i] = 1)
KeyOf(t, i, hs) == [k \in 1..Len(hs) |-> t.cols[hs[k]].rows[i]]
\* rows of u having the same row key as row i of t
Matches(t, i, hs, u, hu, masked) ==
    IF HasKey(t, i, hs, masked)
    THEN {j \in 1..NRows(u) : HasKey(u, j, hu, masked) /\ KeyOf(u, j, hu) = KeyOf(t, i, hs)}
    ELSE {}

RowSize(col) == ProdSeq(col.rs)
ZeroEntry(col) == [m |-> 0, d |-> [k \in 1..RowSize(col) |-> col.z]]
\* entry of column h in row i of t; "no content" (mask 0) is retrieved as zeros
Entry(t, h, i, masked) ==
    IF masked /\ h # "null" /\ t.cols[h].mask[i] = 0 THEN ZeroEntry(t.cols[h])
    ELSE [m |-> 1, d |-> t.cols[h].rows[i]]

\* result columns (join_inference): the columns of the first table in order, then the columns of the second
\* that are neither key columns nor present in the first
ResNames(a, b, h1s) ==
    a.names \o SelectSeq(b.names, LAMBDA nm : ~InSeq(nm, a.names) /\ ~InSeq(nm, h1s))
ResRows(jt, a, b) == IF jt \in {"Inner", "Left"} THEN NRows(a) ELSE NRows(a) + NRows(b)
SrcCol(a, b, c) == IF InSeq(c, a.names) THEN a.cols[c] ELSE b.cols[c]

ZeroOf(a, b, c) == IF c = "null" THEN [m |-> 1, d |-> << 0 >>] ELSE ZeroEntry(SrcCol(a, b, c))

\* the entry of column c in row r of the join of type jt
JoinEntry(jt, a, b, h0s, h1s, masked, r, c) ==
    LET inA == InSeq(c, a.names) IN
    IF r <= NRows(a)
    THEN \* rows derived from the first table
         LET mt == Matches(a, r, h0s, b, h1s, masked)
             j == CHOOSE jj \in mt : TRUE
         IN CASE jt = "Inner" ->
                   IF mt = {} THEN ZeroOf(a, b, c)
                   ELSE IF inA THEN Entry(a, c, r, masked) ELSE Entry(b, c, j, masked)
              [] jt = "Left" ->
                   IF ~Live(a, r) THEN ZeroOf(a, b, c)
                   ELSE IF inA THEN Entry(a, c, r, masked)
                   ELSE IF mt = {} THEN ZeroOf(a, b, c) ELSE Entry(b, c, j, masked)
              [] jt \in {"Union", "Full"} ->       \* rows of the first table that are not in the inner join
                   IF ~Live(a, r) \/ mt # {} THEN ZeroOf(a, b, c)
                   ELSE IF inA THEN Entry(a, c, r, masked) ELSE ZeroOf(a, b, c)
    ELSE \* rows of the second table (Union, Full)
         LET j == r - NRows(a)
             mt == Matches(b, j, h1s, a, h0s, masked)
             i == CHOOSE ii \in mt : TRUE
         IN IF ~Live(b, j) THEN ZeroOf(a, b, c)
            ELSE IF c = "null" THEN [m |-> 1, d |-> << 1 >>]
            ELSE IF InSeq(c, h0s) THEN Entry(b, h1s[PosIn(c, h0s)], j, masked)     \* key columns keep the first table's name
            ELSE IF ~inA THEN Entry(b, c, j, masked)
            ELSE IF jt = "Full" /\ mt # {} THEN Entry(a, c, i, masked)              \* merged with the matching row
            ELSE ZeroOf(a, b, c)

\* res (a table as returned by the code) is the join of type jt: the documented columns, in the documented
\* order, with the documented content.  Content is judged column by column BY NAME, so that a wrong column order
\* and a wrong entry are two separate findings.
SeqSet(sq) == {sq[k] : k \in 1..Len(sq)}
SameColumns(a, b, h1s, res) ==
    Len(res.names) = Len(ResNames(a, b, h1s)) /\ SeqSet(res.names) = SeqSet(ResNames(a, b, h1s))
ColumnOK(jt, a, b, h0s, h1s, masked, res, c, n) ==
    LET col == res.cols[c]  src == SrcCol(a, b, c) IN
    /\ col.st = src.st /\ col.rs = src.rs /\ col.masked = src.masked /\ col.n = n
    /\ Len(col.rows) = n
    /\ \A r \in 1..n : LET e == JoinEntry(jt, a, b, h0s, h1s, masked, r, c) IN
           /\ col.rows[r] = e.d
           /\ col.masked = 1 => col.mask[r] = e.m
JoinContentOK(jt, a, b, h0s, h1s, masked, res) ==
    /\ SameColumns(a, b, h1s, res)
    /\ \A k \in 1..Len(res.names) : ColumnOK(jt, a, b, h0s, h1s, masked, res, res.names[k], ResRows(jt, a, b))
ColumnOrderOK(a, b, h1s, res) == res.names = ResNames(a, b, h1s)
IsJoin(jt, a, b, h0s, h1s, masked, res) ==
    JoinContentOK(jt, a, b, h0s, h1s, masked, res) /\ ColumnOrderOK(a, b, h1s, res)
\* first disagreement, for reports: wrong set of columns; else first wrong (column, row); else wrong column order
JoinDiff(jt, a, b, h0s, h1s, masked, res) ==
    IF ~SameColumns(a, b, h1s, res) THEN << "names", 0 >>
    ELSE LET n == ResRows(jt, a, b)
             bad == {kr \in (1..Len(res.names)) \X (1..n) :
                        LET c == res.names[kr[1]]  col == res.cols[c] IN
                        IF Len(col.rows) # n THEN TRUE
                        ELSE LET e == JoinEntry(jt, a, b, h0s, h1s, masked, kr[2], c) IN
                             col.rows[kr[2]] # e.d \/ (col.masked = 1 /\ col.mask[kr[2]] # e.m)}
         IN IF bad # {} THEN LET kq == CHOOSE kk \in bad : TRUE IN << res.names[kq[1]], kq[2] >>
            ELSE IF ~JoinContentOK(jt, a, b, h0s, h1s, masked, res) THEN << "type", 0 >>
            ELSE << "column-order", 0 >>
=============================================================================
