------------------------------- MODULE ProgGen -------------------------------
(***************************************************************************)
(* The graph-building API restricted to one graph, driven by the typing    *)
(* relation of the specification (CCTyping!OpType): TLC enumerates EVERY    *)
(* program of at most MaxNodes nodes over the operation alphabet below that *)
(* the specification accepts, and prints each finished program as one JSON  *)
(* line in the program format the conformance harness builds with the real *)
(* add_node.  This is the specification -> implementation direction:        *)
(*                                                                          *)
(*   - every printed program must be accepted by the real type inference,   *)
(*     node by node with the same inferred types (checked by ProgTypes on   *)
(*     the exported graph);                                                 *)
(*   - the programs then go through the real compiler / optimiser and are   *)
(*     judged by ABY3Run (C01, C02) and OptContract (C04, C06).             *)
(*                                                                          *)
(* A state is a partial program: inputs first, then operation nodes; every  *)
(* AddOp step is enabled only if OpType gives a type.  `tys` is the typing  *)
(* context.  Finish marks the last node as output.                          *)
(***************************************************************************)
EXTENDS CCTyping, Json

CONSTANTS MaxNodes,    \* bound on the number of nodes
          MaxInputs,   \* bound on the number of Input nodes
          MaxDead,     \* bound on the number of operation nodes nobody uses (besides the output)
          InTypes,     \* types of inputs and of Zeros/Ones nodes
          BinOps,      \* two-argument operations without parameters
          UnOps        \* one-argument operation records (op and parameters, no deps)

VARIABLES nodes, tys, done
gvars == <<nodes, tys, done>>

NInputs == Cardinality({i \in 1..Len(nodes) : nodes[i].op = "Input"})
Used(i) == \E j \in 1..Len(nodes) : \E d \in 1..Len(nodes[j].deps) : nodes[j].deps[d] = i
Dead == {i \in 1..Len(nodes) : nodes[i].op # "Input" /\ ~Used(i)}

GInit == nodes = <<>> /\ tys = <<>> /\ done = FALSE

Push(rec, t) == nodes' = Append(nodes, rec) /\ tys' = Append(tys, t) /\ UNCHANGED done

AddInput == /\ ~done /\ Len(nodes) < MaxNodes /\ NInputs < MaxInputs
            /\ \A i \in 1..Len(nodes) : nodes[i].op = "Input"
            /\ \E t \in InTypes : Push([op |-> "Input", t |-> t, deps |-> <<>>], t)

AddConst == /\ ~done /\ Len(nodes) < MaxNodes /\ NInputs >= 1
            /\ \E t \in InTypes, o \in {"Ones", "Zeros"} :
                 /\ \A i \in 1..Len(nodes) : ~(nodes[i].op = o /\ nodes[i].t = t)
                 /\ Push([op |-> o, t |-> t, deps |-> <<>>], t)

AddBin == /\ ~done /\ Len(nodes) < MaxNodes /\ NInputs >= 1
          /\ \E o \in BinOps, a, b \in 1..Len(nodes) :
               LET rec == [op |-> o, deps |-> <<a, b>>]
                   t == OpType(rec, <<tys[a], tys[b]>>) IN
               ~IsErr(t) /\ Push(rec, t)

AddUn == /\ ~done /\ Len(nodes) < MaxNodes /\ NInputs >= 1
         /\ \E u \in UnOps, a \in 1..Len(nodes) :
              LET rec == u @@ [deps |-> <<a>>]
                  t == OpType(rec, <<tys[a]>>) IN
              ~IsErr(t) /\ Push(rec, t)

\* after a step at most MaxDead + 1 operation nodes are unused (the newest one may become the output)
Tidy == Cardinality(Dead) <= MaxDead + 1

Finish == /\ ~done /\ Len(nodes) >= 1 /\ nodes[Len(nodes)].op # "Input"
          /\ Cardinality(Dead \ {Len(nodes)}) <= MaxDead
          /\ done' = TRUE /\ UNCHANGED <<nodes, tys>>

GNext == AddInput \/ AddConst \/ AddBin \/ AddUn \/ Finish
GSpec == GInit /\ [][GNext]_gvars

\* one line per finished program (the check collects the lines)
Emit == done => PrintT(<<"PROG", ToJson([graphs |-> <<[nodes |-> nodes, out |-> Len(nodes)]>>, main |-> 1,
                                         tys |-> tys])>>)

\* the typing context always matches the typing relation (sanity of the generator itself)
CtxTyped == \A i \in 1..Len(nodes) :
              tys[i] = OpType(nodes[i], [d \in 1..Len(nodes[i].deps) |-> tys[nodes[i].deps[d]]])
=============================================================================
