--------------------------- MODULE PrefixSumsRule ---------------------------
(***************************************************************************)
(* The state-free part of PrefixSums: the selection rule of                *)
(* inline_common.rs::pick_prefix_sum_algorithm and the number of combine   *)
(* calls of each algorithm in closed form.  PrefixSums.tla checks the      *)
(* closed forms against the step-by-step transcription of the algorithms;  *)
(* InlinerTrace.tla (C07) compares them with the graphs produced by the    *)
(* real inliner.                                                           *)
(***************************************************************************)
EXTENDS Integers, Sequences

PsMax2(a, b) == IF a > b THEN a ELSE b

\* (len as f64).sqrt() as usize  -- exact for these sizes
ISqrt(n) == CHOOSE k \in 0..n : k * k <= n /\ (k + 1) * (k + 1) > n
BlockSize(n) == PsMax2(1, ISqrt(n))

\* ------------------------------------------------------------ selection rule
\* inline_common.rs:26-43 (level: "Default" | "Extreme"; inputsLen = length of the Iterate input vector)
Pick(level, inputsLen) ==
  IF level = "Extreme" THEN "ascent"
  ELSE IF inputsLen < 16 THEN "sqrt" ELSE "segtree"

\* ------------------------------------------------------------ closed forms for the number of combines
RECURSIVE CountAscentFrom(_, _)
CountAscentFrom(n, d) == IF d >= n THEN 0 ELSE (n - d) + CountAscentFrom(n, 2 * d)
CeilDiv(a, b) == (a + b - 1) \div b
RECURSIVE CountSegDown(_)
\* top-down phase: in a layer of L items every even j >= 2 costs one combine; layers L, ceil(L/2), ..
CountSegDown(L) == IF L <= 1 THEN 0 ELSE ((L - 1) \div 2) + CountSegDown(CeilDiv(L, 2))
Count(a, n) ==
  CASE a = "lds" -> IF n = 0 THEN 0 ELSE n - 1
    [] a = "ascent" -> IF n = 0 THEN 0 ELSE CountAscentFrom(n, 1)
    [] a = "sqrt" -> IF n = 0 THEN 0
                     ELSE LET b == BlockSize(n) IN (n - CeilDiv(n, b)) + (n - b)
    [] a = "segtree" -> IF n = 0 THEN 0 ELSE (n - 1) + CountSegDown(n)

=============================================================================
