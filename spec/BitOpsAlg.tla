----------------------------- MODULE BitOpsAlg -----------------------------
(* Design-level check for C16/C17: the algorithms of the code (BitOps part 3), the integer          *)
(* definitions (part 1) and the bit-string definitions used for wide operands (part 2) agree on     *)
(* EVERY operand pair of every width 1..MaxW.  One state per (width, first operand); the invariant   *)
(* quantifies over the second operand.  The phase variable only moves the work out of Init so that  *)
(* TLC's workers share it.                                                                          *)
EXTENDS BitOps, IOUtils, Json

MaxW == IF "MAXW" \in DOMAIN IOEnv THEN atoi(IOEnv.MAXW) ELSE 6
MaxWDiv == IF "MAXWDIV" \in DOMAIN IOEnv THEN atoi(IOEnv.MAXWDIV) ELSE 4
MaxWUniq == IF "MAXWUNIQ" \in DOMAIN IOEnv THEN atoi(IOEnv.MAXWUNIQ) ELSE 3

VARIABLES cw, ca, ph
vars == << cw, ca, ph >>

Init == /\ cw \in 1..MaxW
        /\ ca \in 0..(P2(cw) - 1)
        /\ ph = 0
Next == ph = 0 /\ ph' = 1 /\ UNCHANGED << cw, ca >>
Spec == Init /\ [][Next]_vars

CmpOps == {"eq", "ne", "lt", "le", "gt", "ge"}
Sgs(w) == IF w >= 2 THEN {0, 1} ELSE {0}

ReadOK(w, a) == LET A == Bits(a, w) IN U(A) = a /\ S(A) = SInt(a, w)

CmpOK(w, a) ==
    LET A == Bits(a, w) IN
    \A b \in 0..(P2(w) - 1) : LET BB == Bits(b, w) IN
      \A sg \in Sgs(w) : LET st == CmpState(sg, A, BB) IN
        /\ \A op \in CmpOps : /\ CmpRes(op, st) = CmpDef(op, sg, w, a, b)
                              /\ CmpB(op, sg, A, BB) = CmpDef(op, sg, w, a, b)
        \* Min = Mux(GreaterThan(a,b), b, a), Max = Mux(GreaterThan(a,b), a, b)   (min_max.rs)
        /\ [i \in 1..w |-> MuxAlgBit(CmpRes("gt", st), BB[i], A[i])] = Bits(MinDef(sg, w, a, b), w)
        /\ [i \in 1..w |-> MuxAlgBit(CmpRes("gt", st), A[i], BB[i])] = Bits(MaxDef(sg, w, a, b), w)
        /\ MinB(sg, A, BB) = Bits(MinDef(sg, w, a, b), w)
        /\ MaxB(sg, A, BB) = Bits(MaxDef(sg, w, a, b), w)
        \* the documented one-liner really is the comparison of the encoded integers
        /\ CmpDef("lt", sg, w, a, b) = B01((IF sg = 1 THEN S(A) ELSE U(A)) < (IF sg = 1 THEN S(BB) ELSE U(BB)))

AddOK(w, a) ==
    LET A == Bits(a, w) IN
    \A b \in 0..(P2(w) - 1) : LET BB == Bits(b, w)  d == AddDef(w, a, b) IN
        /\ AddB(A, BB) = << Bits(d[1], w), d[2] >>
        /\ w <= MaxWDiv => U(MulB(A, BB)) = (a * b) % P2(w)
        /\ IsPow2(w) => /\ AddAlg(A, BB, TRUE) = << Bits(d[1], w), d[2] >>
                        /\ AddAlg(A, BB, FALSE)[1] = Bits(d[1], w)

MuxOK == \A s \in {0,1}, p \in {0,1}, q \in {0,1} : MuxAlgBit(s, p, q) = MuxDef(s, p, q)

ClipOK(w, a) ==
    LET A == Bits(a, w) IN
    \A k \in 0..(w - 2) : /\ ClipAlg(k, A) = Bits(ClipDef(w, k, a), w)
                          /\ ClipB(k, A) = Bits(ClipDef(w, k, a), w)

DivOK(w, a) ==
    LET A == Bits(a, w) IN
    \A d \in 1..(P2(w) - 1) : LET DD == Bits(d, w) IN
      \A sg \in Sgs(w) : LET df == DivDef(sg, w, a, d) IN
        /\ IsPow2(w) /\ w >= 2 => DivAlg(sg, w, a, d) = df
        /\ w <= MaxWDiv => DivOKB(sg, A, DD, Bits(df[1], w), Bits(df[2], w))
        \* the defining identity has no other solution (so it can judge wide cases)
        /\ w <= MaxWUniq => \A q \in 0..(P2(w) - 1), r \in 0..(P2(w) - 1) :
                               DivOKB(sg, A, DD, Bits(q, w), Bits(r, w)) => << q, r >> = df
        \* quotient * divisor + remainder = dividend, remainder has the divisor's sign
        /\ LET av == Val(sg, a, w)  dv == Val(sg, d, w)  qv == Val(sg, df[1], w)  rv == Val(sg, df[2], w) IN
             /\ (qv * dv + rv - av) % P2(w) = 0
             /\ (sg = 1 /\ av = 0 - P2(w-1) /\ dv = -1) \/ qv * dv + rv = av
             /\ IF dv > 0 THEN 0 <= rv /\ rv < dv ELSE dv < rv /\ rv <= 0

\* operands of different widths (the documentation gives the quotient the dividend's length and the remainder the
\* divisor's): does the restoring division still compute the floored quotient and remainder?
MixedSg == IF "SG" \in DOMAIN IOEnv THEN atoi(IOEnv.SG) ELSE 1
DivMixedOK(w, a) ==
    \A wb \in {2, 4, 8} : (IsPow2(w) /\ w >= 2 /\ wb # w) =>
        \A d \in 1..(P2(wb) - 1) : \A sg \in {MixedSg} :
            IF DivAlg2(sg, w, wb, a, d) = DivDef2(sg, w, wb, a, d) THEN TRUE
            ELSE PrintT(<< "DIVMIXED", ToJson([sg |-> sg, w |-> w, wb |-> wb, a |-> a, d |-> d,
                            alg |-> DivAlg2(sg, w, wb, a, d), def |-> DivDef2(sg, w, wb, a, d)]) >>) /\ FALSE
DivMixedInv == ph = 1 => DivMixedOK(cw, ca)

CmpInv == ph = 1 => ReadOK(cw, ca) /\ CmpOK(cw, ca)
ArithInv == ph = 1 => ReadOK(cw, ca) /\ AddOK(cw, ca) /\ MuxOK /\ ClipOK(cw, ca) /\ DivOK(cw, ca)
=============================================================================
