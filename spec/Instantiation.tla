---------------------------- MODULE Instantiation ----------------------------
(***************************************************************************)
(* run_instantiation_pass (custom_ops.rs:543-793) as a state machine.      *)
(*                                                                         *)
(* An instantiation = (operation value, argument types).  The pass         *)
(*   Discover  collects the instantiations needed by the Custom nodes of   *)
(*             the context and, recursively, by the graphs they            *)
(*             instantiate to; a cache keyed by the instantiation stops    *)
(*             the recursion (get_instantiations_graph_node);              *)
(*   Glue      copies the graph of an instantiation into the result once   *)
(*             everything it needs is glued (topological order), and       *)
(*   SetName   names it  "__" name(op) "::<" types ">"  - graph names must *)
(*             be unique in a context (graphs.rs:4170-4193), so a second   *)
(*             instantiation with the same name makes the pass FAIL;       *)
(*   Final     glues the original context, every Custom node becoming a    *)
(*             Call of the cached graph.                                   *)
(*                                                                         *)
(* Operation equality, the name function and the dependency relation are   *)
(* DATA read from the code (module InstantiationIO): nothing about any     *)
(* particular operation is written here.                                   *)
(*                                                                         *)
(* Checked over the dump (static part):                                    *)
(*   EqIsEquivalence, EqIffSerde  `==` on operations is an equivalence and *)
(*                 agrees with the serialised form (two operations the     *)
(*                 cache conflates are the same operation);                *)
(*   NamesInjective  two different instantiations never get the same name  *)
(*                 (op1 # op2 => Name(op1, t) # Name(op2, t));             *)
(* and on the pass model, for every pair (and triple within one argument   *)
(* type) of root instantiations as seeds:                                  *)
(*   the pass terminates; when it succeeds every needed instantiation is   *)
(*   glued exactly once, after its dependencies, and cache keys, glued     *)
(*   graphs and names are in bijection; it fails exactly when two needed   *)
(*   instantiations share a name (reported, and replayed on the code).     *)
(***************************************************************************)
EXTENDS Integers, Sequences, FiniteSets, TLC, InstantiationIO

CONSTANTS SeedSize,     \* seed sets of up to this many root instantiations (0: static checks only)
          AnyOrderUpTo  \* closures up to this size are explored in every order

NOps == Len(C08Ops)
NI == Len(C08Insts)
Valid == {q \in 1..NI : C08Insts[q].ok}
Roots == {q \in Valid : C08Insts[q].root}
OpEq(a, b) == C08Ops[a].eq[b]
Deps(q) == {C08Insts[q].deps[j] : j \in 1..Len(C08Insts[q].deps)}
NameOf(q) == C08Insts[q].name
\* the cache key of the code: Instantiation {op, arguments_types} with derived Eq/Hash
SameKey(a, b) == OpEq(C08Insts[a].op, C08Insts[b].op) /\ C08Insts[a].tkey = C08Insts[b].tkey

\* ------------------------------------------------------------------ static checks over the dump
EqIsEquivalence ==
  /\ \A a \in 1..NOps : OpEq(a, a)
  /\ \A a, b \in 1..NOps : OpEq(a, b) = OpEq(b, a)
  /\ \A a, b, c \in 1..NOps : (OpEq(a, b) /\ OpEq(b, c)) => OpEq(a, c)
EqIffSerde == \A a, b \in 1..NOps : OpEq(a, b) <=> (C08Ops[a].serde = C08Ops[b].serde)
\* distinct table entries are distinct keys (the harness builds the table with the code's `==`)
KeysDistinct == \A a, b \in 1..NI : (a # b) => ~SameKey(a, b)
\* the printed form of argument types is injective on the dump
TypesPrintInjective == \A a, b \in 1..NI : (C08Insts[a].tkey # C08Insts[b].tkey) => (C08Insts[a].tdisp # C08Insts[b].tdisp)
Clashes == {<<a, b>> \in Valid \X Valid : a < b /\ NameOf(a) = NameOf(b)}
ReportClashes ==
  \A cl \in Clashes :
    PrintT(<<"CLASH", ToJson([a |-> cl[1], b |-> cl[2], name |-> NameOf(cl[1]),
                              opa |-> C08Insts[cl[1]].op, opb |-> C08Insts[cl[2]].op])>>)
NamesInjective == Clashes = {}
\* every dependency is itself in the table and instantiates
DepsClosed == \A q \in Valid : Deps(q) \subseteq Valid

\* ------------------------------------------------------------------ the pass
VARIABLES seeds,     \* instantiations of the Custom nodes of the context
          known,     \* instantiation_to_node: discovered instantiations
          todo,      \* discovered, their own graph not yet scanned (the recursion of process_instantiation)
          glued,     \* glued_instantiations_cache (set of keys)
          names,     \* graph names present in the result context
          phase,     \* "discover" | "glue" | "ok" | "err"
          clos       \* ghost: everything the seeds need (closure under Deps), fixed by Init
pvars == <<seeds, known, todo, glued, names, phase, clos>>

\* state-level wrappers (TLC reports constant-level invariants differently)
StaticOK == /\ phase = "discover" => (EqIsEquivalence /\ EqIffSerde /\ KeysDistinct /\ TypesPrintInjective /\ DepsClosed)
NamesInjectiveInv == phase = "discover" => (ReportClashes /\ NamesInjective)

GluedSet == glued

TKeys == {C08Insts[q].tkey : q \in Roots}
Group(t) == {q \in Roots : C08Insts[q].tkey = t}
\* triples (and below) of root instantiations with the same argument types - where names can collide
SameTypeTriples == UNION {{{a, b, c} : a, b, c \in Group(t)} : t \in TKeys}
Pairs == {{a, b} : a, b \in Roots}                       \* singletons and pairs
SeedSets == IF SeedSize = 0 THEN {{}}                      \* static checks only
            ELSE Pairs \cup (IF SeedSize >= 3 THEN SameTypeTriples ELSE {})

RECURSIVE ClosureOf(_)
ClosureOf(s) == LET nx == s \cup UNION {Deps(q) : q \in s} IN IF nx = s THEN s ELSE ClosureOf(nx)

PInit ==
  /\ seeds \in SeedSets
  /\ known = {} /\ todo = {} /\ glued = {} /\ names = {}
  /\ phase = "discover"
  /\ clos = ClosureOf(seeds)

\* Small cases are explored in EVERY order of discovery and gluing (the properties must not depend on the
\* order in which the code happens to walk graphs and on the topological order petgraph returns); seed sets
\* with a large closure follow one fixed order (smallest index first) to keep the model finite in practice.
AnyOrder == Cardinality(clos) <= AnyOrderUpTo
MinOf(S) == CHOOSE q \in S : \A r \in S : q <= r
Pick(q, S) == q \in S /\ (AnyOrder \/ q = MinOf(S))
ToDiscover == {q \in Valid \ known : q \in seeds \/ \E p \in known : q \in Deps(p)}
ToScan == {q \in todo : Deps(q) \subseteq known}
ToGlue == {q \in known \ glued : Deps(q) \subseteq glued}

\* a Custom node of the context (or of the graph of a discovered instantiation) asks for instantiation q
Discover(q) ==
  /\ phase = "discover"
  /\ Pick(q, ToDiscover)
  /\ known' = known \cup {q}
  /\ todo' = todo \cup {q}
  /\ UNCHANGED <<seeds, glued, names, phase, clos>>
Scanned(q) ==
  /\ phase = "discover" /\ Pick(q, ToScan)
  /\ todo' = todo \ {q}
  /\ UNCHANGED <<seeds, known, glued, names, phase, clos>>
DiscoveryDone ==
  /\ phase = "discover" /\ todo = {} /\ seeds \subseteq known
  /\ \A p \in known : Deps(p) \subseteq known
  /\ phase' = "glue"
  /\ UNCHANGED <<seeds, known, todo, glued, names, clos>>
\* Glue + SetName of one instantiation, any topological order
Glue(q) ==
  /\ phase = "glue"
  /\ Pick(q, ToGlue)
  /\ IF NameOf(q) \in names
     THEN phase' = "err" /\ UNCHANGED <<glued, names>>           \* "Graph names must be unique"
     ELSE glued' = glued \cup {q} /\ names' = names \cup {NameOf(q)} /\ UNCHANGED phase
  /\ UNCHANGED <<seeds, known, todo, clos>>
\* the original context is glued: every Custom node is replaced by Call(cache[instantiation])
Final ==
  /\ phase = "glue" /\ GluedSet = known
  /\ phase' = "ok"
  /\ UNCHANGED <<seeds, known, todo, glued, names, clos>>

Done == phase \in {"ok", "err"} /\ UNCHANGED pvars     \* terminal states stutter: any other stuck state is a deadlock
PNext == (\E q \in ToDiscover : Discover(q)) \/ (\E q \in ToScan : Scanned(q)) \/ (\E q \in ToGlue : Glue(q))
         \/ DiscoveryDone \/ Final \/ Done
\* every step but Done strictly grows known / glued or advances the phase, so the state graph is acyclic:
\* absence of deadlock (checked) is termination of the pass
PSpec == PInit /\ [][PNext]_pvars

NameClashIn(s) == \E a, b \in s : a # b /\ NameOf(a) = NameOf(b)

\* the pass ends, and (totality) it ends well unless two needed instantiations share a name
FailsOnlyOnClash == (phase = "err") => NameClashIn(clos)
ClashAlwaysFails == (phase = "ok") => ~NameClashIn(clos)
\* every Custom node can be replaced by a Call: its instantiation is in the cache
AllReplaced == (phase = "ok") => (seeds \subseteq GluedSet /\ GluedSet = clos)
\* topological order: what a graph calls was glued before it
DepsFirst == \A q \in glued : Deps(q) \subseteq glued
\* cache keys <-> glued graphs <-> names
Bijection ==
  /\ \A a, b \in glued : (a # b) => NameOf(a) # NameOf(b)
  /\ names = {NameOf(q) : q \in glued}
  /\ Cardinality(names) = Cardinality(glued)
\* seed sets on which the real pass must fail (printed once per seed set; replayed on the code by the check)
ReportErr ==
  (phase = "err") => PrintT(<<"PASSERR", ToJson([seeds |-> seeds])>>)
=============================================================================
