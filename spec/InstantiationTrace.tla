------------------------- MODULE InstantiationTrace -------------------------
(***************************************************************************)
(* C08: judgement of what the REAL run_instantiation_pass did on generated *)
(* contexts (records of `inline c08-run`), against the pass model of       *)
(* Instantiation.tla instantiated with the data dumped from the code.      *)
(*                                                                         *)
(* For a context whose Custom nodes ask for the instantiations `roots`:    *)
(*   the model needs exactly ClosureOf(roots), fails iff two of them share *)
(*   a name, and otherwise produces one graph per needed instantiation,    *)
(*   named NameOf.  Judged per record:                                     *)
(*   T1 totality        pass Ok  <=>  no name clash among the needed       *)
(*                      instantiations; a clash with a failing pass is the *)
(*                      defect "two parameterisations collide"             *)
(*   T2 replacement     no Custom node is left; the result has exactly one *)
(*                      named graph per needed instantiation, names as in  *)
(*                      the model (cache <-> graphs <-> names bijection)   *)
(*   T3 meaning         evaluating the instantiated context = evaluating   *)
(*                      the original context node by node with every       *)
(*                      Custom node computed by its operation instantiated *)
(*                      alone (the library's definition of the operation)  *)
(***************************************************************************)
EXTENDS Instantiation

VARIABLE runIx

NRuns == Len(C08Runs)
RootsOf(r) == {r.roots[j] : j \in 1..Len(r.roots)}

TFail(r, cls, info) == PrintT(<<"FAIL", ToJson([id |-> r.id, class |-> cls, info |-> info])>>) /\ FALSE

JudgeRun(r) ==
  LET need == ClosureOf(RootsOf(r))
      clash == NameClashIn(need)
      wantNames == {NameOf(q) : q \in need}
      gotNames == {r.names[j] : j \in 1..Len(r.names)}
  IN
  /\ r.built \/ TFail(r, "harness-could-not-build-context", r.err)
  /\ r.built =>
     /\ (clash /\ ~r.pass_ok) => TFail(r, "name-collision", r.err)                       \* T1: the defect
     /\ (clash /\ r.pass_ok) => TFail(r, "model-predicts-collision-but-pass-ok", "")
     /\ (~clash /\ ~r.pass_ok) => TFail(r, "pass-failed", r.err)                          \* T1: totality
     /\ r.pass_ok =>
        /\ r.custom_after = 0 \/ TFail(r, "custom-node-left", r.custom_after)             \* T2
        /\ (gotNames = wantNames /\ Len(r.names) = Cardinality(need)
            \* (an instantiation may bring unnamed auxiliary graphs, e.g. Iterate bodies, hence >=)
            /\ r.graphs_after >= r.graphs_before + Cardinality(need))
           \/ TFail(r, "graphs-or-names-differ-from-model", <<r.graphs_before, r.graphs_after, Cardinality(need)>>)
        /\ \A j \in 1..Len(r.inputs) :                                                     \* T3
             \* an evaluation error (e.g. the overflow Assert of FixedMultiply in debug mode) must be common to both
             /\ (r.ref_ok[j] = r.inst_ok[j]) \/ TFail(r, "evaluation-error-on-one-side-only", <<r.ref_res[j], r.inst_res[j]>>)
             /\ (r.ref_ok[j] /\ r.inst_ok[j]) =>
                  (r.inst_res[j] = r.ref_res[j] \/ TFail(r, "value-mismatch", r.inputs[j]))

TJudge == JudgeRun(C08Runs[runIx])
TInit == runIx \in 1..NRuns
         /\ seeds = {} /\ known = {} /\ todo = {} /\ glued = {} /\ names = {} /\ phase = "ok" /\ clos = {}
TNext == FALSE /\ UNCHANGED <<runIx, pvars>>
TSpec == TInit /\ [][TNext]_<<runIx, pvars>>
=============================================================================
