CONSTANTS
  Features = {"core", "names", "annot", "rollback", "foreign"}
  Tier = "quick"
INIT Init
NEXT Next
VIEW View
INVARIANTS WellFormed Inferred PrintPath
PROPERTIES ErrNoEffect Frozen
CHECK_DEADLOCK FALSE
