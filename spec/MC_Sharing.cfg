\* C14: exhaustive small models (quick)
CONSTANT Thorough = FALSE
SPECIFICATION ShSpec
INVARIANT Reconstructs
INVARIANT AnyTwoReconstruct
INVARIANT SinglePartyUniform
CHECK_DEADLOCK FALSE
