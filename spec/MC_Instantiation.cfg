\* Instantiation: the pass model on every pair and same-type triple of root instantiations of the dump
CONSTANTS
  SeedSize = 3
  AnyOrderUpTo = 6
SPECIFICATION PSpec
INVARIANT FailsOnlyOnClash
INVARIANT ClashAlwaysFails
INVARIANT AllReplaced
INVARIANT DepsFirst
INVARIANT Bijection
INVARIANT ReportErr
CHECK_DEADLOCK TRUE
