\* Optimiser contract (C06 + C04) on cases recorded from the real optimize_context
CONSTANTS
  RingBits = 8
  NSamples = 6
SPECIFICATION OSpec
INVARIANT InvAccepted
INVARIANT InvFresh
INVARIANT InvInterface
INVARIANT InvSends
INVARIANT InvTypes
INVARIANT InvReload
INVARIANT InvMeaning
INVARIANT InvStages
CHECK_DEADLOCK FALSE
