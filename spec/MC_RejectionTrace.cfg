\* C15: validation of bounded draws / permutations / replay recorded from the real generators
CONSTANT ByteModuli = {}
SPECIFICATION TraceSpec
INVARIANT TraceOK
CHECK_DEADLOCK FALSE
