SPECIFICATION Spec
CONSTANTS
  RingBits = 15
  STs = {"b","u8","i8","u64","i128"}
  K = 4000
  KeepErr = TRUE
  Rank4 = FALSE
INVARIANT Sound
CHECK_DEADLOCK FALSE
