\* C08: judgement of the records of `instsem run` (IOEnv.C08_SEM) against the definitions of InstSem.tla
SPECIFICATION SSpec
INVARIANT SJudged
CHECK_DEADLOCK FALSE
