------------------------------- MODULE ABY3Run -------------------------------
(***************************************************************************)
(* Three-party execution of a compiled (ABY3) CipherCore graph.            *)
(*                                                                         *)
(* The repository contains the compiler but no runtime.  This module       *)
(* DEFINES the runtime the compiler's output is written for (DESIGN.md     *)
(* section 4):                                                             *)
(*   - three parties, each with its own store, evaluate every node of the  *)
(*     compiled graph in node order, strictly locally;                     *)
(*   - an Input owned by party o holds the real value at o and arbitrary   *)
(*     junk elsewhere; a public input is real everywhere; an already       *)
(*     shared input (3-tuple) has real components p, p+1 and junk in p+2   *)
(*     at party p;                                                         *)
(*   - Random: every party draws its own value (an opaque token);          *)
(*   - PRF: the oracle entry <<key token held by the party, iv, type>>,    *)
(*     sampled lazily -- the PRF idealised as a random function;           *)
(*   - after the node is evaluated, every annotation Send(s, r) on it      *)
(*     copies s's value to r, in order.  Nothing else crosses parties.     *)
(*                                                                         *)
(* Mode "single" runs the same graph on ONE store (what every test of the  *)
(* repository does); mode "three" is the real protocol.                    *)
(*                                                                         *)
(* Programs are data: Progs is a sequence of records                       *)
(*   [id, src, mpc, owners, outs]  exported from the real compiler:        *)
(*   src = the plaintext graph as handed to the MPC compiler's front end,  *)
(*   mpc = the final compiled graph, owners[k] \in {"0","1","2","pub","sh"}*)
(*   for the k-th input, outs = sequence of output parties (<<>> = output  *)
(*   stays secret-shared).                                                 *)
(***************************************************************************)
EXTENDS CCEval, ProgsIO   \* ProgsIO defines Progs, the sequence of program records

CONSTANTS Mode,       \* "single" | "three"
          Sample,     \* FALSE: every choice is explored; TRUE: every choice is one random draw
          Runs,       \* number of independent runs per program (1 unless Sample)
          ExhaustInputs, \* TRUE: plaintext inputs are always enumerated, even when Sample draws everything else
          ViewRoots   \* TRUE: every message is demanded (its receiver's view contains it) -- used by the
                      \* privacy property; FALSE: only what the outputs depend on is demanded

VARIABLES run,        \* run number (distinguishes the sampled runs of one program; constant in a behaviour)
          g,          \* index of the program being executed
          x,          \* plaintext inputs chosen so far, one per Input node already evaluated
          pc,         \* next node of the compiled graph
          store,      \* store[n][p]: value of node n at party p ("na" if p never needs it)
          orc         \* the lazily sampled PRF oracle: entry -> value

vars == <<run, g, x, pc, store, orc>>

Parties == IF Mode = "single" THEN {0} ELSE {0, 1, 2}
NP == Len(Progs)
M(i) == Progs[i].mpc
S(i) == Progs[i].src

OwnerParty(o) == CASE o = "0" -> 0 [] o = "1" -> 1 [] o = "2" -> 2

\* who[p] = the party whose locally computed value of node n party p holds after the sends
RECURSIVE ApplySends(_, _, _)
ApplySends(sends, k, who) ==
  IF k > Len(sends) THEN who
  ELSE ApplySends(sends, k + 1, [who EXCEPT ![sends[k][2]] = who[sends[k][1]]])
Who(G, n) == IF Mode = "single" THEN [p \in Parties |-> p]
             ELSE ApplySends(G[n].sends, 1, [p \in Parties |-> p])

\* The output condition reads: for a revealed output, node Out at every output party; for a
\* secret-shared output built by CreateTuple(d0,d1,d2), share nodes d_p and d_{p+1} at party p.
SharedOutDeps(G) ==
  LET o == OutNode(G) IN
  IF G[o].op = "CreateTuple" /\ Len(G[o].deps) = 3 THEN G[o].deps ELSE <<>>

OutNeeds(i) ==
  LET G == M(i)  o == OutNode(G)  outs == Progs[i].outs IN
  IF Mode = "single" THEN {<<0, o>>}
  ELSE IF Len(outs) > 0 THEN {<<outs[k], o>> : k \in 1..Len(outs)}
  ELSE IF SharedOutDeps(G) # <<>>
       THEN UNION {{<<p, SharedOutDeps(G)[p + 1]>>, <<p, SharedOutDeps(G)[((p + 1) % 3) + 1]>>} : p \in Parties}
       ELSE {<<p, o>> : p \in Parties}

\* Demand: which post-send values (party, node) are needed for the outputs -- backward closure over
\* dependencies, following each value to the party that computed it locally.
RECURSIVE NeedFrom(_, _, _)
NeedFrom(G, n, need) ==
  IF n = 0 THEN need
  ELSE LET here == {p \in Parties : <<p, n>> \in need}
           locals == {Who(G, n)[p] : p \in here}
           deps == {G[n].deps[k] : k \in 1..Len(G[n].deps)}
       IN NeedFrom(G, n - 1, need \cup {<<q, d>> : q \in locals, d \in deps})

(* Tables derived from the programs.  Every TLC worker computes them once, the first time it    *)
(* takes a step (TablesReady is the first conjunct of Step and MacroStep), and keeps them in    *)
(* its TLC register 1; TLCEval (= identity) forces TLC to evaluate the function constructors    *)
(* there and then.  Semantically  NeedT = NeedTDef(0)  etc.                                     *)
(* (They are deliberately NOT computed in an ASSUME: with several workers TLC 1.8 evaluates     *)
(* TLCEval inside ASSUMEs concurrently for all workers and intermittently fails on big data.)   *)
\* every message that is sent is part of its receiver's view, whether or not it is used afterwards
SendNeeds(i) == LET G == M(i) IN
  UNION {{<<G[n].sends[k][2], n>> : k \in 1..Len(G[n].sends)} : n \in 1..Len(G)}
Roots(i) == IF ViewRoots /\ Mode = "three" THEN OutNeeds(i) \cup SendNeeds(i) ELSE OutNeeds(i)

NeedTDef(u) == TLCEval([i \in 1..NP |-> NeedFrom(M(i), Len(M(i)), Roots(i))])
\* which parties have to evaluate node n locally
LocTDef(need) == TLCEval([i \in 1..NP |-> TLCEval([n \in 1..Len(M(i)) |->
              {Who(M(i), n)[p] : p \in {pp \in Parties : <<pp, n>> \in need[i]}}])])
PlanTDef(u) == TLCEval([i \in 1..NP |-> Plans(M(i))])
SrcPlanTDef(u) == TLCEval([i \in 1..NP |-> Plans(S(i))])

ASSUME RegisterInitialised == TLCSet(1, [ready |-> FALSE])

\* (IF, not a disjunction: in an action TLC explores every disjunct)
TablesReady ==
  IF TLCGet(1).ready THEN TRUE
  ELSE LET need == NeedTDef(0)
       IN TLCSet(1, [ready |-> TRUE, need |-> need, loc |-> LocTDef(need), plan |-> PlanTDef(0), splan |-> SrcPlanTDef(0)])

NeedT == TLCGet(1).need
LocT == TLCGet(1).loc
PlanT == TLCGet(1).plan
SrcPlanT == TLCGet(1).splan

LocalNeeded(i, q, n) == q \in LocT[i][n]

\* position of input node n among the inputs of the compiled graph (= among the source inputs)
InputIndex(G, n) == CHOOSE k \in 1..Len(InputNodes(G)) : InputNodes(G)[k] = n

SrcInputTypes(i) == [k \in 1..Len(InputNodes(S(i))) |-> S(i)[InputNodes(S(i))[k]].ty]

Expected(i, xs) == EvalPlain(S(i), SrcPlanT[i], xs)

---------------------------------------------------------------------------
Pick(SS) == IF Sample THEN {RandomElement(SS)} ELSE SS
PickIn(SS) == IF Sample /\ ~ExhaustInputs THEN {RandomElement(SS)} ELSE SS

Init ==
  /\ run \in 1..Runs
  /\ g \in 1..NP
  /\ x = <<>>
  /\ pc = 1
  /\ store = <<>>
  /\ orc = <<>>

\* additive sharing in the ring of type t, component-wise on the leaves
RECURSIVE SubV(_, _, _)
SubV(a, b, t) ==
  IF t.k \in {"s", "a"} THEN [i \in 1..Len(a) |-> SubM(a[i], b[i], Modulus(t.st))]
  ELSE LET cs == Components(t) IN [i \in 1..Len(cs) |-> SubV(a[i], b[i], cs[i])]
RECURSIVE AddV(_, _, _)
AddV(a, b, t) ==
  IF t.k \in {"s", "a"} THEN [i \in 1..Len(a) |-> AddM(a[i], b[i], Modulus(t.st))]
  ELSE LET cs == Components(t) IN [i \in 1..Len(cs) |-> AddV(a[i], b[i], cs[i])]

\* Input node n of the compiled graph: the set of possible <<plaintext value, [party -> value]>>
InputChoices(i, n) ==
  LET G == M(i)
      k == InputIndex(G, n)
      o == Progs[i].owners[k]
      t == G[n].ty
      pt == SrcInputTypes(i)[k]
      needers == {q \in Parties : LocalNeeded(i, q, n)}
  IN IF o = "pub" THEN {<<v, [p \in Parties |-> IF p \in needers THEN v ELSE "na"]>> : v \in PickIn(AllValues(pt))}
     ELSE IF o = "sh"
     THEN \* t is a 3-tuple of the plaintext type; shares s0, s1, s2 = v - s0 - s1;
          \* party p holds real components p and p+1 and junk in component p+2
          IF Mode = "single"
          THEN {<<v, [p \in Parties |-> <<s0, s1, SubV(SubV(v, s0, pt), s1, pt)>>]>> :
                   v \in PickIn(AllValues(pt)), s0 \in Pick(AllValues(pt)), s1 \in Pick(AllValues(pt))}
          ELSE {<<v, [p \in Parties |->
                   IF p \notin needers THEN "na"
                   ELSE LET sh == <<s0, s1, SubV(SubV(v, s0, pt), s1, pt)>>
                        IN [c \in 1..3 |-> IF c - 1 = (p + 2) % 3 THEN junk[p] ELSE sh[c]]]>> :
                   v \in PickIn(AllValues(pt)), s0 \in Pick(AllValues(pt)), s1 \in Pick(AllValues(pt)),
                   junk \in Pick([needers -> AllValues(pt)])}
     ELSE LET ow == OwnerParty(o)
              junkers == IF Mode = "single" THEN {} ELSE needers \ {ow}
          IN {<<v, [p \in Parties |-> IF p \notin needers THEN "na"
                                      ELSE IF Mode = "single" \/ p = ow THEN v ELSE junk[p]]>> :
                v \in PickIn(AllValues(pt)), junk \in Pick([junkers -> AllValues(t)])}

Deliver(G, n, loc) == LET who == Who(G, n)  l == TLCEval(loc) IN TLCEval([p \in Parties |-> l[who[p]]])

(* Evaluation of one node: the set of possible <<store', orc', x'>> after node n.              *)
(* Nondeterminism: the junk a non-owner holds for an input it needs, the free shares of an     *)
(* already shared input, and the value of every oracle entry read for the first time.          *)
PRFEvals(n) == {q \in Parties : LocalNeeded(g, q, n)}
PRFEntry(n, st, q) == Entry(M(g)[n], st[M(g)[n].deps[1]][q])
PRFNew(n, st, o) == {PRFEntry(n, st, q) : q \in PRFEvals(n)} \ DOMAIN o

Succ(n, st, o) ==
  LET G == M(g)  r == G[n] IN
  CASE IsInput(r) -> {<<Append(st, Deliver(G, n, a[2])), o, Append(x, a[1])>> : a \in InputChoices(g, n)}
    [] IsRandom(r) ->
         {<<Append(st, Deliver(G, n, [q \in Parties |->
                IF LocalNeeded(g, q, n) THEN [rnd |-> n, by |-> q] ELSE "na"])), o, x>>}
    [] IsPRF(r) ->
         {LET o2 == f @@ o
          IN <<Append(st, Deliver(G, n, [q \in Parties |->
                   IF q \in PRFEvals(n) THEN o2[PRFEntry(n, st, q)] ELSE "na"])), o2, x>> :
            f \in Pick([PRFNew(n, st, o) -> PRFDomain(r)])}
    [] OTHER ->
         {<<Append(st, Deliver(G, n, [q \in Parties |->
                IF LocalNeeded(g, q, n)
                THEN Exec(PlanT[g][n], [k \in 1..Len(r.deps) |-> st[r.deps[k]][q]], r.ty)
                ELSE "na"])), o, x>>}

\* One node per step: the reference granularity of the runtime.
Step ==
  /\ TablesReady
  /\ pc <= Len(M(g))
  /\ \E r \in Succ(pc, store, orc) : store' = r[1] /\ orc' = r[2] /\ x' = r[3]
  /\ pc' = pc + 1
  /\ UNCHANGED <<g, run>>

Done == pc > Len(M(g)) /\ UNCHANGED vars

Next == Step \/ Done

Spec == Init /\ [][Next]_vars

(* The same behaviours with the deterministic stretches between two choices collapsed into one  *)
(* step (Step composed with itself while exactly one successor exists).  TLC explores this one: *)
(* it visits the same final states with ~N/2 times fewer intermediate states.                   *)
HasChoice(n, st, o) ==
  LET r == M(g)[n] IN
  \/ IsInput(r)
  \/ IsPRF(r) /\ PRFNew(n, st, o) # {}

RECURSIVE RunDet(_, _, _)
RunDet(n, st, o) ==
  IF n > Len(M(g)) \/ HasChoice(n, st, o) THEN <<n, st>>
  ELSE RunDet(n + 1, (CHOOSE r \in Succ(n, st, o) : TRUE)[1], o)

MacroStep ==
  /\ TablesReady
  /\ pc <= Len(M(g))
  /\ \E r \in Succ(pc, store, orc) :
        LET d == RunDet(pc + 1, r[1], r[2])
        IN pc' = d[1] /\ store' = d[2] /\ orc' = r[2] /\ x' = r[3]
  /\ UNCHANGED <<g, run>>

MacroSpec == Init /\ [][MacroStep]_vars     \* (no stuttering step at the end: a finished run is a terminal state)

-----
(* Properties *)

Finished == pc > Len(M(g))

\* the plaintext value type of the result
ResultType == S(g)[OutNode(S(g))].ty

\* C01: on one store the compiled graph computes the source function (for every tape)
C01Single ==
  (Mode = "single" /\ Finished) =>
     LET G == M(g)  o == OutNode(G)  v == store[o][0]  e == Expected(g, x)
     IN IF Len(Progs[g].outs) > 0 THEN v = e
        ELSE AddV(AddV(v[1], v[2], ResultType), v[3], ResultType) = e

\* C02: every output party ends with the correct result; a secret-shared output is consistent
\* between neighbours and reconstructs.
C02Three ==
  (Mode = "three" /\ Finished) =>
     LET G == M(g)  o == OutNode(G)  e == Expected(g, x)  outs == Progs[g].outs
     IN IF Len(outs) > 0 THEN \A k \in 1..Len(outs) : store[o][outs[k]] = e
        ELSE LET d == SharedOutDeps(G)
                 \* share c as held by party p (p holds shares p and p+1)
                 sh(p, c) == IF d # <<>> THEN store[d[c + 1]][p] ELSE store[o][p][c + 1]
             IN /\ \A p \in Parties : sh(p, (p + 1) % 3) = sh((p + 1) % 3, (p + 1) % 3)
                /\ AddV(AddV(sh(0, 0), sh(1, 1), ResultType), sh(2, 2), ResultType) = e

---------------------------------------------------------------------------
(* C05: secure truncation.  The source program ends in Truncate(scale) of one value.                 *)
(* Division by 2^k (TruncateMPC2K): for inputs in the documented range the result is the floor       *)
(* quotient or that quotient plus one.  General divisor (TruncateMPC, signed types): the result is   *)
(* within one unit of the quotient of a + k*modulus for k in {-1,0,1}; k # 0 is the documented       *)
(* wrap-around of the additive shares (mpc_truncate.rs, error type 2).                               *)
IsPow2(n) == \E k \in 0..30 : n = Pow2(k)
SignedOf(v, m, sg) == IF sg /\ v >= m \div 2 THEN v - m ELSE v
FloorDiv(a, d) == IF a >= 0 THEN a \div d ELSE 0 - ((0 - a + d - 1) \div d)
TruncDiv(a, d) == IF a >= 0 THEN a \div d ELSE 0 - ((0 - a) \div d)
Abs(a) == IF a >= 0 THEN a ELSE 0 - a
\* representative of (a - b) modulo m that is closest to zero
PosMod(a, m) == ((a % m) + m) % m
CenteredDiff(a, b, m) == LET df == PosMod(a - b, m) IN IF df >= m \div 2 THEN df - m ELSE df

TruncOutcomeOK(a, o, scale, m, sg) ==
  \* a: signed reading of the plaintext value; o: residue produced by the protocol
  IF IsPow2(scale)
  THEN LET inrange == IF sg THEN a >= 0 - m \div 4 /\ a < m \div 4 ELSE a >= 0 /\ a < m \div 2
       IN inrange => CenteredDiff(o, FloorDiv(a, scale), m) \in {0, 1}
  ELSE \E k \in {-1, 0, 1} : Abs(CenteredDiff(o, TruncDiv(a + k * m, scale), m)) <= 1

C05Trunc ==
  (Mode = "three" /\ Finished) =>
    LET G == M(g)  src == S(g)  so == OutNode(src)
        scale == src[so].scale
        st == src[so].ty.st
        m == Modulus(st)  sg == IsSigned(st)
        pre == EvalFrom(src, SrcPlanT[g], 1, <<>>, x)[src[so].deps[1]]
        outs == Progs[g].outs
        d == SharedOutDeps(G)
        shv(p, c) == IF d # <<>> THEN store[d[c + 1]][p] ELSE store[OutNode(G)][p][c + 1]
        revealed(p) == IF Len(outs) > 0 THEN store[OutNode(G)][p]
                       ELSE AddV(AddV(shv(0, 0), shv(1, 1), ResultType), shv(2, 2), ResultType)
        who == IF Len(outs) > 0 THEN {outs[k] : k \in 1..Len(outs)} ELSE {0}
    IN \A p \in who : \A e \in 1..Len(pre) :
         TruncOutcomeOK(SignedOf(pre[e], m, sg), revealed(p)[e], scale, m, sg)
\* The same for a source program whose output is a tuple of Truncate nodes (several truncations, of different kinds, in
\* one graph: the compiler decides per graph which truncation keys to distribute), revealed outputs only.
C05Tuple ==
  (Mode = "three" /\ Finished) =>
    LET G == M(g)  src == S(g)  so == OutNode(src)
        comps == src[so].deps
        vals == EvalFrom(src, SrcPlanT[g], 1, <<>>, x)
        outs == Progs[g].outs
    IN \A k \in 1..Len(outs) : \A c \in 1..Len(comps) :
         LET tn == src[comps[c]]
             m == Modulus(tn.ty.st)  sg == IsSigned(tn.ty.st)
             pre == vals[tn.deps[1]]
             got == store[OutNode(G)][outs[k]][c]
         IN \A e \in 1..Len(pre) : TruncOutcomeOK(SignedOf(pre[e], m, sg), got[e], tn.scale, m, sg)

\* C02 / C01 for programs that end in Truncate (whose result is not a function of the inputs): the outcome condition of
\* C05 for every output party, and in addition what C02Three demands of any result: output parties agree, the copies
\* of a share held by its two holders agree.
C02Trunc ==
  (Mode = "three" /\ Finished) =>
    LET G == M(g)  outs == Progs[g].outs
        d == SharedOutDeps(G)
        sh(p, c) == IF d # <<>> THEN store[d[c + 1]][p] ELSE store[OutNode(G)][p][c + 1]
    IN /\ C05Trunc
       /\ IF Len(outs) > 0 THEN \A k \in 1..Len(outs) : store[OutNode(G)][outs[k]] = store[OutNode(G)][outs[1]]
          ELSE \A p \in Parties : sh(p, (p + 1) % 3) = sh((p + 1) % 3, (p + 1) % 3)

C01Trunc ==
  (Mode = "single" /\ Finished) =>
    LET G == M(g)  src == S(g)  so == OutNode(src)
        scale == src[so].scale
        st == src[so].ty.st
        m == Modulus(st)  sg == IsSigned(st)
        pre == EvalFrom(src, SrcPlanT[g], 1, <<>>, x)[src[so].deps[1]]
        v == store[OutNode(G)][0]
        val == IF Len(Progs[g].outs) > 0 THEN v ELSE AddV(AddV(v[1], v[2], ResultType), v[3], ResultType)
    IN \A e \in 1..Len(pre) : TruncOutcomeOK(SignedOf(pre[e], m, sg), val[e], scale, m, sg)
=============================================================================
