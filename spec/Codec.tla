------------------------------- MODULE Codec -------------------------------
(***************************************************************************)
(* C13: how CipherCore values encode integers (bytes.rs:176-402,            *)
(* data_values.rs from_scalar / from_flattened_array / to_* / check_type).  *)
(*                                                                         *)
(* Encode(st, n)  = the low ceil(w/8) bytes of the two's complement of n,   *)
(*                  little-endian; bits are packed LSB-first eight per byte *)
(*                  with zero padding.                                      *)
(* ValOf(st, bs)  = the integer a byte chunk denotes in type st (signed     *)
(*                  types: two's complement of the type's width).           *)
(* Reader(st, bs, K, sg) = what to_uK / to_iK return: the denoted integer   *)
(*                  cast (Rust `as`) to K bits.                             *)
(* Accepts(lay, t) = the layout rule of Value::check_type.                  *)
(* Integers are sign+magnitude records over base-256 limbs (module BigMod). *)
(* Types use the JSON records of harness/src/export.rs.                     *)
(* JToks(t) / JNums(t, v) = the human-readable (JSON) form of a typed value *)
(*                  as a token sequence: structure, and the numbers in it.  *)
(***************************************************************************)
EXTENDS BigMod, TLC, Json, IOUtils

CSTs == <<"b", "u8", "i8", "u16", "i16", "u32", "i32", "u64", "i64", "u128", "i128">>
CBits(st) == CASE st = "b" -> 1
               [] st \in {"u8", "i8"} -> 8
               [] st \in {"u16", "i16"} -> 16
               [] st \in {"u32", "i32"} -> 32
               [] st \in {"u64", "i64"} -> 64
               [] st \in {"u128", "i128"} -> 128
CSigned(st) == st \in {"i8", "i16", "i32", "i64", "i128"}
CBytes(st) == NLimbs(CBits(st))

ZL == 17   \* limbs of a magnitude: enough for 2^128

(***************************************************************************)
(* Types and layouts                                                       *)
(***************************************************************************)
RECURSIVE CProd(_)
CProd(sq) == IF sq = <<>> THEN 1 ELSE Head(sq) * CProd(Tail(sq))
CNumEl(ty) == IF ty.k = "s" THEN 1 ELSE CProd(ty.sh)
CComps(ty) == IF ty.k = "v" THEN [ii \in 1..ty.n |-> ty.of] ELSE ty.el

RECURSIVE CSizeBits(_)
RECURSIVE CSumBits(_, _)
CSumBits(tys, ii) == IF ii > Len(tys) THEN 0 ELSE CSizeBits(tys[ii]) + CSumBits(tys, ii + 1)
CSizeBits(ty) == IF ty.k \in {"s", "a"} THEN CNumEl(ty) * CBits(ty.st)
                 ELSE IF ty.k = "v" THEN ty.n * CSizeBits(ty.of)
                 ELSE CSumBits(ty.el, 1)

\* A layout is [b |-> number of bytes] or [v |-> sequence of layouts].
RECURSIVE Accepts(_, _)
Accepts(lay, ty) ==
  IF ty.k \in {"s", "a"}
  THEN "b" \in DOMAIN lay /\ lay.b = (CSizeBits(ty) + 7) \div 8
  ELSE /\ "v" \in DOMAIN lay
       /\ LET cs == CComps(ty) IN
          /\ Len(lay.v) = Len(cs)
          /\ \A ii \in 1..Len(cs) : Accepts(lay.v[ii], cs[ii])

(***************************************************************************)
(* Encoding                                                                *)
(***************************************************************************)
\* bits can only be made from 0 and 1 (vec_to_bytes: "Input is not a bit")
EncDefined(st, zz) == st # "b" \/ (~zz.neg /\ zz.mag[1] <= 1 /\ \A ii \in 2..Len(zz.mag) : zz.mag[ii] = 0)

PackBits(bs) == [jj \in 1..((Len(bs) + 7) \div 8) |->
                   LET bitAt(ii) == IF 8 * (jj - 1) + ii + 1 <= Len(bs) THEN bs[8 * (jj - 1) + ii + 1] * BmPow2(ii) ELSE 0
                   IN bitAt(0) + bitAt(1) + bitAt(2) + bitAt(3) + bitAt(4) + bitAt(5) + bitAt(6) + bitAt(7)]

EncScalar(st, zz) == IF st = "b" THEN <<zz.mag[1] % 2>> ELSE ZTwos(zz, CBytes(st))

RECURSIVE EncConcat(_, _, _)
EncConcat(st, zs, ii) == IF ii > Len(zs) THEN <<>> ELSE ZTwos(zs[ii], CBytes(st)) \o EncConcat(st, zs, ii + 1)
EncArray(st, zs) == IF st = "b" THEN PackBits([ii \in 1..Len(zs) |-> zs[ii].mag[1] % 2])
                    ELSE EncConcat(st, zs, 1)

(***************************************************************************)
(* Decoding                                                                *)
(***************************************************************************)
\* element number ee (1-based) of a byte string holding elements of type st
Chunk(st, bs, ee) == IF st = "b" THEN <<LBit(bs, ee - 1)>>
                     ELSE [ii \in 1..CBytes(st) |-> bs[(ee - 1) * CBytes(st) + ii]]
\* the integer denoted by one element
ValOf(st, ch) == IF CSigned(st) THEN ZSigned(ch) ELSE ZUnsigned(ch)
\* to_u{kb} (sg = FALSE) / to_i{kb} (sg = TRUE): the denoted integer cast to kb bits
Reader(st, ch, kb, sg) == LET tw == ZTwos(ValOf(st, ch), kb \div 8) IN
                          ZNorm(IF sg THEN ZSigned(tw) ELSE ZUnsigned(tw), ZL)
RdBits == <<8, 8, 16, 16, 32, 32, 64, 64, 128, 128>>
RdSigned == <<FALSE, TRUE, FALSE, TRUE, FALSE, TRUE, FALSE, TRUE, FALSE, TRUE>>

(***************************************************************************)
(* Faithfulness: reading an encoded integer returns it modulo 2^w, and      *)
(* exactly when it lies in the range of the type.                           *)
(***************************************************************************)
P2(kk) == [ii \in 1..ZL |-> IF ii = (kk \div 8) + 1 THEN BmPow2(kk % 8) ELSE 0]
InRange(st, zz) == LET ww == CBits(st)
                       mg == LPad(zz.mag, ZL) IN
  IF st = "b" THEN ~zz.neg /\ LLeq(mg, LOne(ZL))
  ELSE IF CSigned(st) THEN (IF zz.neg THEN LLeq(mg, P2(ww - 1)) ELSE LLess(mg, P2(ww - 1)))
  ELSE ~zz.neg /\ LLess(mg, P2(ww))
\* zz1 = zz2 modulo 2^(8*nb)
Congruent(zz1, zz2, nb) == ZTwos(zz1, nb) = ZTwos(zz2, nb)

Faithful(st, zz) ==
  EncDefined(st, zz) =>
    LET bs == EncScalar(st, zz)
        vv == ValOf(st, Chunk(st, bs, 1))
    IN /\ Len(bs) = CBytes(st)
       /\ InRange(st, vv)
       /\ IF st = "b" THEN ZNorm(vv, ZL) = ZNorm(zz, ZL) ELSE Congruent(vv, zz, CBytes(st))
       /\ InRange(st, zz) => ZNorm(vv, ZL) = ZNorm(zz, ZL)

(***************************************************************************)
(* The human-readable form (typed_value_serialization.rs).  A typed value   *)
(* is written as a JSON object                                              *)
(*   scalar       {"kind":"scalar","type":<st>,"value":<number>}            *)
(*   array        {"kind":"array","type":<st>,"value":<nested lists>}       *)
(*                 -- row-major: a list of shape[0] items, each the nested  *)
(*                 lists of shape[1..]; the innermost lists hold numbers    *)
(*   tuple/vector {"kind":"tuple"|"vector","value":[<typed value>, ...]}    *)
(*   named tuple  {"kind":"named tuple","value":[{"name":..,"value":<typed  *)
(*                 value>}, ...]}                                           *)
(* where a number is the integer the element denotes (signed types: the     *)
(* two's complement reading, so negative numbers carry a minus sign).       *)
(* TLC does not parse text: the harness tokenizes the text with a generic   *)
(* JSON reader (object keys in alphabetical order) and the specification    *)
(* states the token sequence: "{" "}" "[" "]", "k:<key>", "s:<string>" and  *)
(* "#" for a number; the numbers themselves are listed in order of          *)
(* appearance as sign+magnitude integers.                                   *)
(***************************************************************************)
JStName(st) == IF st = "b" THEN "bit" ELSE st
RECURSIVE JRepeat(_, _)
JRepeat(sq, nn) == IF nn = 0 THEN <<>> ELSE sq \o JRepeat(sq, nn - 1)
RECURSIVE JNest(_)
JNest(sh) == <<"[">> \o (IF Len(sh) = 1 THEN [ii \in 1..sh[1] |-> "#"] ELSE JRepeat(JNest(Tail(sh)), sh[1])) \o <<"]">>
RECURSIVE JToks(_)
RECURSIVE JToksSeq(_, _)
RECURSIVE JToksNamed(_, _)
JToksSeq(cs, ii) == IF ii > Len(cs) THEN <<>> ELSE JToks(cs[ii]) \o JToksSeq(cs, ii + 1)
JToksNamed(ty, ii) == IF ii > Len(ty.el) THEN <<>>
                      ELSE <<"{", "k:name", "s:" \o ty.nm[ii], "k:value">> \o JToks(ty.el[ii]) \o <<"}">> \o JToksNamed(ty, ii + 1)
JToks(ty) ==
  CASE ty.k = "s" -> <<"{", "k:kind", "s:scalar", "k:type", "s:" \o JStName(ty.st), "k:value", "#", "}">>
    [] ty.k = "a" -> <<"{", "k:kind", "s:array", "k:type", "s:" \o JStName(ty.st), "k:value">> \o JNest(ty.sh) \o <<"}">>
    [] ty.k = "t" -> <<"{", "k:kind", "s:tuple", "k:value", "[">> \o JToksSeq(ty.el, 1) \o <<"]", "}">>
    [] ty.k = "v" -> <<"{", "k:kind", "s:vector", "k:value", "[">> \o JToksSeq(CComps(ty), 1) \o <<"]", "}">>
    [] ty.k = "n" -> <<"{", "k:kind", "s:named tuple", "k:value", "[">> \o JToksNamed(ty, 1) \o <<"]", "}">>
\* the numbers of the form in order of appearance; vl = the value as a tree whose leaves are flat row-major
\* sequences of byte chunks (CBytes(st) limbs per element, one limb 0/1 per bit)
RECURSIVE JNums(_, _)
RECURSIVE JNumsSeq(_, _, _)
JNumsSeq(cs, vs, ii) == IF ii > Len(cs) THEN <<>> ELSE JNums(cs[ii], vs[ii]) \o JNumsSeq(cs, vs, ii + 1)
JNums(ty, vl) == IF ty.k \in {"s", "a"} THEN [ee \in 1..Len(vl) |-> ZNorm(ValOf(ty.st, vl[ee]), ZL)]
                 ELSE JNumsSeq(CComps(ty), vl, 1)

(***************************************************************************)
(* Generated values (C15): unused bits of the last byte of every leaf are 0 *)
(***************************************************************************)
RECURSIVE LeafTypes(_)
RECURSIVE LeafTypesSeq(_, _)
LeafTypesSeq(cs, ii) == IF ii > Len(cs) THEN <<>> ELSE LeafTypes(cs[ii]) \o LeafTypesSeq(cs, ii + 1)
LeafTypes(ty) == IF ty.k \in {"s", "a"} THEN <<ty>> ELSE LeafTypesSeq(CComps(ty), 1)
\* lastb = last byte of every byte leaf in depth-first order
FlushOK(ty, lastb) == LET ls == LeafTypes(ty) IN
  /\ Len(lastb) = Len(ls)
  /\ \A ii \in 1..Len(ls) : LET bits == CSizeBits(ls[ii])
                                used == bits - 8 * ((bits - 1) \div 8) IN   \* bits used in the last byte: 1..8
                            lastb[ii] < BmPow2(used)

(***************************************************************************)
(* Enumeration model (B1): one state per case.  TLC checks the codec laws   *)
(* on every case and prints it with the predicted layout; the harness       *)
(* executes the printed cases against the real Value API.                   *)
(***************************************************************************)
VARIABLE cur

ZP(mm) == [neg |-> FALSE, mag |-> mm]
ZM(mm) == [neg |-> TRUE, mag |-> mm]
ZLOne == LOne(ZL)
Boundary(st) == LET ww == CBits(st) IN
  { ZP(LZero(ZL)), ZP(ZLOne), ZM(ZLOne), ZP(LAdd(ZLOne, ZLOne)), ZM(LAdd(ZLOne, ZLOne)),
    ZP(P2(ww - 1)), ZM(P2(ww - 1)), ZP(LSub(P2(ww - 1), ZLOne)), ZM(LAdd(P2(ww - 1), ZLOne)),
    ZP(LSub(P2(ww), ZLOne)), ZP(P2(ww)), ZP(LAdd(P2(ww), ZLOne)),
    ZP(LAdd(P2(64), ZLOne)), ZP(LSub(P2(64), ZLOne)), ZP(P2(64)), ZM(P2(64)), ZP(P2(63)), ZM(P2(63)),
    ZP(P2(127)), ZM(P2(127)), ZP(LSub(P2(127), ZLOne)), ZP(LSub(P2(128), ZLOne)),
    ZP(P2(31)), ZM(P2(31)), ZP(P2(15)), ZM(P2(15)), ZP(P2(7)), ZM(P2(7)), ZP(P2(8)), ZP(P2(16)), ZP(P2(32)) }
\* what the harness can pass to the API: -2^127 .. 2^128-1
Passable(zz) == IF zz.neg THEN LLeq(zz.mag, P2(127)) ELSE zz.mag[ZL] = 0

ScCases == UNION { { [kind |-> "sc", st |-> CSTs[si], z |-> ZNorm(zz, ZL)] : zz \in { bz \in Boundary(CSTs[si]) : Passable(bz) } } : si \in 1..Len(CSTs) } \cup
           { [kind |-> "sc", st |-> st, z |-> ZOfInt(nn, ZL)] : st \in {"b", "u8", "i8"}, nn \in -256..511 }

BitPattern(len, pat) == [ii \in 1..len |-> CASE pat = "ones" -> 1
                                             [] pat = "last" -> IF ii = len THEN 1 ELSE 0
                                             [] pat = "alt" -> ii % 2
                                             [] pat = "alt2" -> (ii + 1) % 2]
BaCases == { [kind |-> "ba", bits |-> BitPattern(len, pat)] : len \in 1..17, pat \in {"ones", "last", "alt", "alt2"} }

ST(st) == [k |-> "s", st |-> st]
AT(sh, st) == [k |-> "a", st |-> st, sh |-> sh]
TT(el) == [k |-> "t", el |-> el]
VT(nn, of) == [k |-> "v", n |-> nn, of |-> of]
NT(nm, el) == [k |-> "n", nm |-> nm, el |-> el]
CtTypes == { ST(CSTs[si]) : si \in 1..Len(CSTs) } \cup
           { AT(<<nn>>, "b") : nn \in {1, 7, 8, 9, 15, 16, 17, 24, 25} } \cup
           { AT(<<3>>, "u8"), AT(<<2, 2>>, "i16"), AT(<<2>>, "u64"), AT(<<1>>, "u128"), AT(<<3, 3>>, "b"), AT(<<2, 1, 2>>, "i32"),
             TT(<<>>), TT(<<ST("u8"), ST("b")>>), TT(<<ST("u8")>>), VT(2, ST("u16")), VT(0, ST("u16")), VT(0, TT(<<>>)),
             NT(<<"x", "y">>, <<ST("i8"), AT(<<9>>, "b")>>),
             TT(<<VT(2, AT(<<9>>, "b")), ST("i32")>>), VT(2, TT(<<ST("u16"), ST("u16")>>)) }
BL(nn) == [b |-> nn]
VL(ls) == [v |-> ls]
Layouts == { BL(nn) : nn \in {0, 1, 2, 3, 4, 5, 8, 9, 16, 17, 32} } \cup
           { VL(<<>>), VL(<<BL(1)>>), VL(<<BL(1), BL(1)>>), VL(<<BL(2), BL(2)>>), VL(<<BL(1), BL(2)>>),
             VL(<<VL(<<BL(2), BL(2)>>), BL(4)>>), VL(<<VL(<<BL(2), BL(2)>>), VL(<<BL(2), BL(2)>>)>>),
             VL(<<VL(<<>>), VL(<<>>)>>), VL(<<BL(2), BL(2), BL(2)>>), VL(<<VL(<<BL(2)>>), BL(4)>>) }
CtCases == { [kind |-> "ct", lay |-> ly, t |-> ty] : ly \in Layouts, ty \in CtTypes }

\* JSON form cases (B1): the types whose values the harness writes as text.  Arrays of every scalar type over all
\* shapes of rank <= 3 (rank 4 sampled) with independent dimensions -- square and non-square -- and containers
\* of depth <= 3 over non-square arrays.  IOEnv.C13_TIER = "thorough" widens the dimensions.
JtThorough == "C13_TIER" \in DOMAIN IOEnv /\ IOEnv.C13_TIER = "thorough"
JtD1 == IF JtThorough THEN 1..33 ELSE 1..9
JtD2 == IF JtThorough THEN 1..8 ELSE 1..5
JtD3 == IF JtThorough THEN 1..5 ELSE 1..3
JtRank4 == IF JtThorough THEN { <<aa, bb, cc, dd>> : aa \in 1..2, bb \in 1..3, cc \in 1..2, dd \in 1..3 }
           ELSE { <<2, 1, 3, 2>>, <<1, 2, 2, 3>>, <<3, 2, 1, 2>>, <<2, 2, 2, 2>> }
JtShapes == { <<aa>> : aa \in JtD1 } \cup { <<aa, bb>> : aa \in JtD2, bb \in JtD2 } \cup
            { <<aa, bb, cc>> : aa \in JtD3, bb \in JtD3, cc \in JtD3 } \cup JtRank4
JtCSh == { <<2, 3>>, <<3, 2>>, <<1, 3>>, <<3, 2, 2>>, <<2, 1, 3>>, <<5>> }
JtCSt == IF JtThorough THEN { CSTs[si] : si \in 1..Len(CSTs) } ELSE { "b", "i8", "u16", "i64", "u128", "i128" }
JtContainers(sh, st) ==
  { TT(<<AT(sh, st), ST(st)>>),
    VT(3, AT(sh, st)),
    NT(<<"a", "b b">>, <<ST("b"), AT(sh, st)>>),
    TT(<<VT(2, TT(<<AT(sh, st), ST("i16")>>)), AT(sh, "b")>>),
    NT(<<"x", "y">>, <<VT(2, AT(sh, st)), TT(<<>>)>>) }
JtTypes == { ST(CSTs[si]) : si \in 1..Len(CSTs) } \cup
           { AT(sh, CSTs[si]) : sh \in JtShapes, si \in 1..Len(CSTs) } \cup
           UNION { JtContainers(sh, st) : sh \in JtCSh, st \in JtCSt }
JtCases == { [kind |-> "jt", t |-> ty] : ty \in JtTypes }

Cases == ScCases \cup BaCases \cup CtCases \cup JtCases

CodecInit == cur \in Cases
CodecNext == UNCHANGED cur
CodecSpec == CodecInit /\ [][CodecNext]_cur

Unpack(bs, len) == [ii \in 1..len |-> LBit(bs, ii - 1)]
\* laws of the JSON form: as many numbers as the type has elements, brackets and braces balance and never go negative
RECURSIVE JBrackets(_)
JBrackets(sh) == IF Len(sh) = 1 THEN 1 ELSE 1 + sh[1] * JBrackets(Tail(sh))
RECURSIVE JCount(_, _, _)
JCount(tk, what, ii) == IF ii > Len(tk) THEN 0 ELSE (IF tk[ii] = what THEN 1 ELSE 0) + JCount(tk, what, ii + 1)
RECURSIVE JDepthOK(_, _, _)
JDepthOK(tk, ii, dp) == IF ii > Len(tk) THEN dp = 0
                        ELSE LET nd == dp + (IF tk[ii] \in {"[", "{"} THEN 1 ELSE IF tk[ii] \in {"]", "}"} THEN -1 ELSE 0)
                             IN nd >= 0 /\ JDepthOK(tk, ii + 1, nd)
RECURSIVE JLeafEls(_, _)
JLeafEls(ls, ii) == IF ii > Len(ls) THEN 0 ELSE CNumEl(ls[ii]) + JLeafEls(ls, ii + 1)
JFormLaw(ty) == LET tk == JToks(ty) IN
  /\ JCount(tk, "#", 1) = JLeafEls(LeafTypes(ty), 1)
  /\ JCount(tk, "[", 1) = JCount(tk, "]", 1)
  /\ JDepthOK(tk, 1, 0)
  /\ ty.k = "a" => Len(tk) = 7 + CNumEl(ty) + 2 * JBrackets(ty.sh)

BitArrayLaw(bits) == LET bs == PackBits(bits) IN
  /\ Len(bs) = (Len(bits) + 7) \div 8
  /\ Unpack(bs, Len(bits)) = bits
  /\ \A bi \in Len(bits)..(8 * Len(bs) - 1) : LBit(bs, bi) = 0      \* no stray bits

Expected(cs) ==
  CASE cs.kind = "sc" -> [kind |-> "sc", st |-> cs.st, neg |-> cs.z.neg, mag |-> cs.z.mag,
                          def |-> EncDefined(cs.st, cs.z),
                          bytes |-> IF EncDefined(cs.st, cs.z) THEN EncScalar(cs.st, cs.z) ELSE <<>>]
    [] cs.kind = "ba" -> [kind |-> "ba", bits |-> cs.bits, bytes |-> PackBits(cs.bits)]
    [] cs.kind = "ct" -> [kind |-> "ct", lay |-> cs.lay, t |-> cs.t, acc |-> Accepts(cs.lay, cs.t)]
    [] cs.kind = "jt" -> [kind |-> "jt", t |-> cs.t, ntok |-> Len(JToks(cs.t)), nnum |-> JCount(JToks(cs.t), "#", 1)]

CodecLaws ==
  /\ cur.kind = "sc" => Faithful(cur.st, cur.z)
  /\ cur.kind = "ba" => BitArrayLaw(cur.bits)
  /\ cur.kind = "jt" => JFormLaw(cur.t)
Emit == PrintT(<<"CASE", ToJson(Expected(cur))>>)
=============================================================================
