------------------------------ MODULE RelTrace ------------------------------
(***************************************************************************)
(* Trace validation for C18 / C19 (binding B2).  Every record is one case  *)
(* executed by the REAL library (Sort, SortByIntegerKey, ApplyPermutation, *)
(* InversePermutation, Join, JoinWithColumnMasks; SimpleEvaluator) with    *)
(* its inputs and everything it returned.  TLC judges each record against *)
(* Relational.tla.  "claims" records state which groups of cases are       *)
(* exhaustive; TLC counts the distinct inputs of the group.                *)
(* One state per record (phase 0 -> 1 spreads the work over the workers).  *)
(* Failing records are printed as <<"BAD", json>>.                         *)
(***************************************************************************)
EXTENDS Relational, BitRelIO

VARIABLES lno, ph
vars == << lno, ph >>
Init == lno \in 1..Len(Recs) /\ ph = 0
Next == ph = 0 /\ ph' = 1 /\ UNCHANGED lno
Spec == Init /\ [][Next]_vars

Report(rec, why, at) == PrintT(<< "BAD", ToJson([id |-> rec.id, why |-> why, at |-> at]) >>)

ColRows(t) == [c \in DOMAIN t.cols |-> t.cols[c].rows]
SameTypes(t, u) == /\ t.names = u.names
                   /\ \A c \in DOMAIN t.cols : /\ t.cols[c].st = u.cols[c].st /\ t.cols[c].rs = u.cols[c].rs
                                               /\ t.cols[c].n = u.cols[c].n

\* ---- sort by bit-string key / by integer key
BitLess(s, t) == LexLess(s, t)
JudgeSort(rec) ==
    IF rec.res.out # "ok" THEN Report(rec, "value expected, got " \o rec.res.out, 0)
    ELSE IF ~SameTypes(rec.in, rec.res) THEN Report(rec, "type", 0)
    ELSE IF rec.kind = "sort"
         THEN (IF SortedByRank(ColRows(rec.in), ColRows(rec.res), rec.in.cols["key"].rows, BitLess)
               THEN TRUE ELSE Report(rec, "not the stable sort", 0))
    ELSE LET ILess(s, t) == IntLess(rec.sg, s, t) IN
         IF SortedByRank(ColRows(rec.in), ColRows(rec.res), rec.keybits, ILess)
         THEN TRUE ELSE Report(rec, "not the stable sort", 0)

\* ---- permutations
RowsOf(o) == o.rows
JudgePerm(rec) ==
    LET outs == << rec.ap.out, rec.inv.out, rec.back.out, rec.back2.out, rec.iap.out >> IN
    IF IsPerm(rec.p)
    THEN IF \E k \in 1..5 : outs[k] # "ok" THEN Report(rec, "value expected", outs)
         ELSE IF rec.ap.rows # ApplyPerm(rec.a, rec.p) THEN Report(rec, "apply", 0)
         ELSE IF rec.inv.rows # [i \in 1..rec.n |-> << InvPerm(rec.p)[i] >>] THEN Report(rec, "inverse", 0)
         ELSE IF rec.iap.rows # ApplyPerm(rec.a, InvPerm(rec.p)) THEN Report(rec, "apply inverse", 0)
         ELSE IF rec.back.rows # rec.a THEN Report(rec, "apply then apply the inverse permutation", 0)
         ELSE IF rec.back2.rows # rec.a THEN Report(rec, "apply then apply-inverse", 0)
         ELSE TRUE
    ELSE \* not a permutation: an error, never a value or a panic
         IF \A k \in 1..5 : outs[k] = "err" THEN TRUE ELSE Report(rec, "error expected for an invalid permutation", outs)

\* ---- joins
JoinTypes == << "Inner", "Left", "Union", "Full" >>
JudgeJoin(rec) ==
    LET h0s == [k \in 1..Len(rec.headers) |-> rec.headers[k][1]]
        h1s == [k \in 1..Len(rec.headers) |-> rec.headers[k][2]]
        msk == rec.masked = 1
        \* the compiled (secure) join may abort with an error (hash failure, negligible probability) but never
        \* returns a wrong table; the plaintext join must return the table
        mayAbort == rec.compiled = 1
        \* join types whose outcome or content is wrong; join types whose only fault is the column order
        badc == {k \in 1..4 : LET res == rec.res[JoinTypes[k]] IN
                    IF res.out = "ok" THEN ~JoinContentOK(JoinTypes[k], rec.A, rec.B, h0s, h1s, msk, res)
                    ELSE ~(mayAbort /\ res.out = "err")}
        bado == {k \in 1..4 : LET res == rec.res[JoinTypes[k]] IN
                    res.out = "ok" /\ k \notin badc /\ ~ColumnOrderOK(rec.A, rec.B, h1s, res)}
        badt == IF badc # {} THEN badc ELSE bado
    IN IF badt = {} THEN TRUE
       ELSE LET k == CHOOSE kk \in badt : \A k2 \in badt : kk <= k2
                res == rec.res[JoinTypes[k]]
            IN IF res.out # "ok" THEN Report(rec, "value expected, got " \o res.out, JoinTypes[k])
               ELSE Report(rec, JoinTypes[k], JoinDiff(JoinTypes[k], rec.A, rec.B, h0s, h1s, msk, res))

\* ---- exhaustiveness claims: [grp, kind, n, b, count]
RECURSIVE Fact(_)
Fact(n) == IF n <= 1 THEN 1 ELSE n * Fact(n - 1)
InputOf(rec) == CASE rec.kind = "sort" -> rec.in.cols["key"].rows
                  [] rec.kind = "isort" -> rec.keybits
                  [] rec.kind = "perm" -> rec.p
                  [] rec.kind = "join" -> << rec.A, rec.B >>
ClaimOK(cl) ==
    LET ins == {InputOf(Recs[i]) : i \in {i \in 1..Len(Recs) : Recs[i].kind # "claims" /\ Recs[i].grp = cl.grp}}
        want == CASE cl.what = "sort" -> P2(cl.n * cl.b)
                  [] cl.what = "perm" -> Fact(cl.n)
                  [] OTHER -> cl.count
    IN Cardinality(ins) = want
JudgeClaims(rec) ==
    LET badc == {k \in 1..Len(rec.claims) : ~ClaimOK(rec.claims[k])} IN
    IF badc = {} THEN TRUE ELSE Report(rec, "claimed exhaustive group is incomplete", {rec.claims[k].grp : k \in badc})

Judge(rec) == CASE rec.kind \in {"sort", "isort"} -> JudgeSort(rec)
                [] rec.kind = "perm" -> JudgePerm(rec)
                [] rec.kind = "join" -> JudgeJoin(rec)
                [] rec.kind = "claims" -> JudgeClaims(rec)
Judged == ph = 1 => Judge(Recs[lno])
=============================================================================
