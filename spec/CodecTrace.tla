----------------------------- MODULE CodecTrace -----------------------------
(***************************************************************************)
(* C13, trace validation (B1 replay results and B2 records).                *)
(* IOEnv.TRACE names an ndjson file written by `values c13-bytes` /         *)
(* `values c13-json`: what the real Value / TypedValue API did.  One state  *)
(* per record; TLC recomputes every expectation from the inputs of the      *)
(* record with the operators of module Codec and compares.                  *)
(*   sc  Value::from_scalar on integer z for type st: bytes, readers        *)
(*   ba  bit arrays of every length: packing, no stray bits, readers        *)
(*   ar  arrays: integers -> bytes (hasns) and bytes -> integers            *)
(*   ct  check_type on a layout x type matrix                               *)
(*   js  TypedValue -> serde_json text -> TypedValue: abstract value before *)
(*       and after (TLC compares the trees of decimal strings; it does not  *)
(*       parse the JSON text itself); toks/nums = the text as tokenized by  *)
(*       a generic JSON reader, compared with Codec!JToks / JNums           *)
(***************************************************************************)
EXTENDS Codec, IOUtils

Rec == ndJsonDeserialize(IOEnv.TRACE)

ReadersOf(st, bs, ee) == [jj \in 1..10 |-> Reader(st, Chunk(st, bs, ee), RdBits[jj], RdSigned[jj])]

\* A facet is <<name, holds>>; a record is accepted when all its facets hold.
ScFacets(rr) ==
  IF EncDefined(rr.st, rr.z)
  THEN IF rr.res # "ok" THEN << <<"result", FALSE>> >>
       ELSE << <<"bytes", rr.bytes = EncScalar(rr.st, rr.z)>>,
               \* same integer passed as a narrower Rust integer type
               <<"narrow_rust_type", rr.resmin = "ok" /\ rr.bmin = EncScalar(rr.st, rr.z)>>,
               \* the 64-bit constructor from_flattened_array_u64
               <<"ctor_u64", rr.has64 => (rr.res64 = "ok" /\ rr.b64 = EncScalar(rr.st, rr.z))>>,
               <<"check_type", rr.ct = TRUE>>,
               <<"scalar_readers", rr.rd = ReadersOf(rr.st, rr.bytes, 1)>>,
               <<"array_readers", \A jj \in 1..10 : rr.rda[jj] = <<ReadersOf(rr.st, rr.bytes, 1)[jj]>> >> >>
  ELSE \* not a bit: an error, or the bit n mod 2 -- never a panic
       << <<"result", rr.res \in {"ok", "err"}>>,
          <<"bytes", rr.res = "ok" => rr.bytes = <<rr.z.mag[1] % 2>> >> >>

BaFacets(rr) == LET nn == Len(rr.bits) IN
  IF rr.res # "ok" THEN << <<"result", FALSE>> >>
  ELSE << <<"bytes", rr.bytes = PackBits(rr.bits)>>,
          <<"ctor_u64", rr.b64 = PackBits(rr.bits)>>,
          <<"check_type", rr.ct = TRUE>>,
          <<"array_readers", \A jj \in 1..10 : rr.rda[jj] = [ee \in 1..nn |-> ZNorm(ZNat(<<rr.bits[ee]>>), ZL)]>> >>

ArFacets(rr) ==
  IF rr.res # "ok" \/ Len(rr.bytes) # (rr.n * CBits(rr.st) + 7) \div 8 THEN << <<"result", FALSE>> >>
  ELSE << <<"bytes", rr.hasns => rr.bytes = EncArray(rr.st, rr.ns)>>,
          <<"check_type", rr.ct = TRUE>>,
          <<"array_readers", \A jj \in 1..10 : rr.rda[jj] =
               [ee \in 1..rr.n |-> Reader(rr.st, Chunk(rr.st, rr.bytes, ee), RdBits[jj], RdSigned[jj])]>>,
          <<"modulo", rr.hasns => \A ee \in 1..rr.n :
               LET vv == ValOf(rr.st, Chunk(rr.st, rr.bytes, ee)) IN
               InRange(rr.st, vv) /\ Congruent(vv, rr.ns[ee], CBytes(rr.st))>> >>

CtFacets(rr) == << <<"check_type", rr.acc = Accepts(rr.lay, rr.t)>>,
                   <<"typed_value_new", rr.tvnew = Accepts(rr.lay, rr.t)>> >>

RECURSIVE Conforms(_, _)
Conforms(ty, vv) ==
  IF ty.k \in {"s", "a"} THEN Len(vv) = CNumEl(ty)
  ELSE LET cs == CComps(ty) IN Len(vv) = Len(cs) /\ \A ii \in 1..Len(cs) : Conforms(cs[ii], vv[ii])

JsFacets(rr) ==
  IF rr.res # "ok" THEN << <<"result", FALSE>> >>
  ELSE << <<"built", Conforms(rr.t, rr.v) /\ rr.v = rr.intended>>,
          <<"type", rr.t2 = rr.t>>,
          <<"value", rr.v2 = rr.v>>,
          <<"eq", rr.eq = TRUE>>,
          \* the text itself, read by a generic JSON reader: structure (kinds, type names, names of named tuples,
          \* row-major nesting of the array shape) and every number (signed types: with their sign)
          <<"text_structure", rr.hasform /\ rr.toks = JToks(rr.t)>>,
          <<"text_numbers", rr.hasform /\ [ii \in 1..Len(rr.nums) |-> ZNorm(rr.nums[ii], ZL)] = JNums(rr.t, rr.vl)>> >>

RecFacets(rr) == CASE rr.kind = "sc" -> ScFacets(rr)
                   [] rr.kind = "ba" -> BaFacets(rr)
                   [] rr.kind = "ar" -> ArFacets(rr)
                   [] rr.kind = "ct" -> CtFacets(rr)
                   [] rr.kind = "js" -> JsFacets(rr)
Failing(fs) == { fs[ii][1] : ii \in { jj \in 1..Len(fs) : ~fs[jj][2] } }

\* Stride chains so that several TLC workers share the records.
Stride == 4
TraceInit == cur \in 1..Stride /\ cur <= Len(Rec)
TraceNext == cur + Stride <= Len(Rec) /\ cur' = cur + Stride
TraceSpec == TraceInit /\ [][TraceNext]_cur
\* Every record is judged; a rejected record is printed (the check turns each into a violation).
TraceOK == LET bad == Failing(RecFacets(Rec[cur])) IN bad = {} \/ PrintT(<<"BAD", cur, bad>>)
=============================================================================
