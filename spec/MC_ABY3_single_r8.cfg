\* ABY3Run, mode "single", integer types interpreted modulo 2^min(width,8)
CONSTANTS
  RingBits = 8
  Mode = "single"
  Sample = FALSE
  Runs = 1
  ExhaustInputs = FALSE
  ViewRoots = FALSE
SPECIFICATION MacroSpec
INVARIANT C01Single
CHECK_DEADLOCK FALSE
