--------------------------- MODULE RejectionTrace ---------------------------
(***************************************************************************)
(* C15, trace validation of bounded draws, permutations and replay (B2).    *)
(* IOEnv.TRACE: ndjson written by `values c15-rej` -- no hooks in the code: *)
(* two generators with the same seed, one yields the raw byte stream, the   *)
(* other runs the operation under test; TLC recomputes from the raw stream  *)
(* which draws are rejected and what the results must be.                   *)
(*   range      PRNG::get_random_in_range(Some(m)): 8 bytes per draw, read  *)
(*              little-endian, rejected when above RangeBound(2^64-1, m),   *)
(*              result draw mod m; afterwards the stream continues exactly  *)
(*              behind the last consumed draw ("tail")                      *)
(*   rangenone  modulus None: the raw draw                                  *)
(*   permprf    PermutationFromPRF(key, iv, n) vs PRF(key, iv, u8[N]):      *)
(*              Fisher-Yates, i = 1..n-1, j = generate_u32_in_range(i+1)    *)
(*              (need_bytes per draw), swap(i, j)                           *)
(*   permext    PermutationFromPRF(key, iv, n) continues                    *)
(*              PermutationFromPRF(key, iv, n0), n0 < n: long sessions      *)
(*              with draws of 3 and 4 bytes crossing the batch boundaries   *)
(*   permrng    RandomPermutation(n) of a seeded evaluator: i = n-1..1,     *)
(*              j = get_random_in_range(i+1), swap(j, i)                    *)
(*   replay     the same seed twice gives identical sequences; generated    *)
(*              values are valid encodings with zero unused bits            *)
(* Numbers above 2^31 are base-256 limb sequences (BigMod).  For moduli     *)
(* below 2^22 TLC computes 2^64 mod m and draw mod m itself (Horner); for   *)
(* larger moduli the harness supplies quotients as hints and TLC verifies   *)
(* q * m + r = draw, r < m (the quotient and remainder are unique).         *)
(***************************************************************************)
EXTENDS Rejection, BigMod, Sequences, Json, IOUtils

Cd == INSTANCE Codec WITH cur <- 0
Rec == ndJsonDeserialize(IOEnv.TRACE)
VARIABLE cur

P64 == [ii \in 1..17 |-> IF ii = 9 THEN 1 ELSE 0]      \* 2^64
\* number (limbs) modulo a modulus below 2^22
RECURSIVE HornerFrom(_, _, _, _)
HornerFrom(aa, ii, acc, mm) == IF ii = 0 THEN acc ELSE HornerFrom(aa, ii - 1, (acc * 256 + aa[ii]) % mm, mm)
LModNat(aa, mm) == HornerFrom(aa, Len(aa), 0, mm)
SubSeqF(sq, from, len) == [ii \in 1..len |-> sq[from + ii]]

\* B = rejection bound + 1 = the largest multiple of m not above 2^64 (17 limbs); the code computes it as
\* u64::MAX - ((u64::MAX % m + 1) % m) + 1, which is RangeBound(2^64 - 1, m) + 1
BoundPlus1(rr) == IF rr.small THEN LSub(P64, LFromNat(LModNat(P64, rr.mnat), 17))
                  ELSE LMul(rr.qb, rr.m, 17)
BoundOK(rr) == LET bb == BoundPlus1(rr)
                   m17 == LPad(rr.m, 17) IN
  /\ LLeq(bb, P64) /\ ~LIsZero(bb)
  /\ LLess(LSub(P64, bb), m17)                         \* 2^64 - B < m
  /\ rr.small => LModNat(bb, rr.mnat) = 0                \* B is a multiple of m
\* draw (8 limbs) accepted and reduced to res (8 limbs), qq = hint for the quotient
ReduceOK(rr, dr, res, qq) ==
  IF rr.small THEN LToNat(LPad(res, 3)) = LModNat(dr, rr.mnat) /\ LIsZero(SubSeqF(res, 3, 5))
  ELSE /\ LLess(res, rr.m)
       /\ LAdd(LMul(qq, rr.m, 17), LPad(res, 17)) = LPad(dr, 17)

RECURSIVE RangeWalk(_, _, _, _)
RangeWalk(rr, bb, pos, kk) ==
  IF kk > Len(rr.res)
  THEN Len(rr.raw) = pos + 16 /\ SubSeqF(rr.raw, pos, 16) = rr.tail
  ELSE IF pos + 8 > Len(rr.raw) THEN FALSE
  ELSE LET dr == SubSeqF(rr.raw, pos, 8) IN
       IF LLess(LPad(dr, 17), bb)
       THEN ReduceOK(rr, dr, rr.res[kk], rr.qs[kk]) /\ RangeWalk(rr, bb, pos + 8, kk + 1)
       ELSE RangeWalk(rr, bb, pos + 8, kk)

Swap(fn, ia, ib) == [fn EXCEPT ![ia] = fn[ib], ![ib] = fn[ia]]
LeNat(sq, from, len) == LToNat(SubSeqF(sq, from, len))

\* One draw of generate_u32_in_range(mm) read at offset pos of the stream: need_bytes bytes, little-endian.  Draws of
\* up to 3 bytes are TLC integers; longer ones (moduli above 2^16) are limb sequences: bound + 1 = 2^(8 nb) - (2^(8 nb)
\* mod m) (U32Bound + 1 of module Rejection), accepted when below it, result draw mod m (Horner).
NeedBytes(mm) == IF mm <= 1 THEN 1 ELSE IF mm <= 256 THEN 2 ELSE IF mm <= 65536 THEN 3 ELSE IF mm <= 16777216 THEN 4 ELSE 5
ASSUME \A mm \in {1, 2, 3, 200, 255, 256, 257, 300, 65535, 65536, 65537, 70000, 16777215, 16777216, 16777217} :
          NeedBytes(mm) = NeedUnits(mm, 8)
P2L(nb) == [ii \in 1..(nb + 1) |-> IF ii = nb + 1 THEN 1 ELSE 0]       \* 2^(8 nb)
Pow256 == <<256, 65536, 16777216>>
ASSUME \A nb \in 1..3 : Pow256[nb] = RjPow2(8 * nb)
\* little-endian number of nb <= 3 bytes at offset pos (= LeNat(raw, pos, nb), without the recursion)
Le3(raw, pos, nb) == raw[pos + 1] + (IF nb >= 2 THEN 256 * raw[pos + 2] ELSE 0) + (IF nb >= 3 THEN 65536 * raw[pos + 3] ELSE 0)
DrawOk(raw, pos, mm) == LET nb == NeedBytes(mm) IN
  IF nb <= 3 THEN Accepted(Le3(raw, pos, nb), U32Bound(Pow256[nb] - 1, mm))
  ELSE LET pp == P2L(nb) IN LLess(LPad(SubSeqF(raw, pos, nb), nb + 1), LSub(pp, LFromNat(LModNat(pp, mm), nb + 1)))
DrawRes(raw, pos, mm) == LET nb == NeedBytes(mm) IN
  IF nb <= 3 THEN Reduce(Le3(raw, pos, nb), mm) ELSE LModNat(SubSeqF(raw, pos, nb), mm)
ASSUME \A mm \in {2, 3, 255, 256, 257, 300, 65535, 65536} :     \* the two forms agree (here on the bytes 250, 255, 255)
          LET raw == <<250, 255, 255, 0, 0>>  nb == NeedBytes(mm)  pp == P2L(nb) IN
          /\ DrawOk(raw, 0, mm) = LLess(LPad(SubSeqF(raw, 0, nb), nb + 1), LSub(pp, LFromNat(LModNat(pp, mm), nb + 1)))
          /\ DrawRes(raw, 0, mm) = LModNat(SubSeqF(raw, 0, nb), mm)
          /\ Le3(raw, 0, nb) = LeNat(raw, 0, nb)

\* PermutationFromPRF: positions 0..n-1 are indices 1..n of the function.  Steps ii..(upto-1) of the shuffle
\* (i = 1..n-1, j = generate_u32_in_range(i+1), swap(i, j)) starting at offset pos of the stream with array arr.
\* The recursion is cut into chunks of FyChunk steps (bounded depth for long sessions).
FyChunk == 400
RECURSIVE FyTo(_, _, _, _, _)
FyTo(raw, pos, ii, upto, arr) ==
  IF ii >= upto THEN [pos |-> pos, arr |-> arr]
  ELSE IF DrawOk(raw, pos, ii + 1)
       THEN FyTo(raw, pos + NeedBytes(ii + 1), ii + 1, upto, Swap(arr, ii + 1, DrawRes(raw, pos, ii + 1) + 1))
       ELSE FyTo(raw, pos + NeedBytes(ii + 1), ii, upto, arr)
RECURSIVE FyFrom(_, _, _, _, _)
FyFrom(raw, pos, ii, nn, arr) ==
  IF ii >= nn THEN arr
  ELSE LET nx == IF ii + FyChunk < nn THEN ii + FyChunk ELSE nn
           st == TLCEval(FyTo(raw, pos, ii, nx, arr)) IN
       FyFrom(raw, st.pos, nx, nn, st.arr)
FyPrf(raw, pos, ii, nn, arr) == FyFrom(raw, pos, ii, nn, arr)
\* the offset in the stream behind the draws of steps ii..(upto-1) (the array is not needed for it)
RECURSIVE WalkTo(_, _, _, _)
WalkTo(raw, pos, ii, upto) ==
  IF ii >= upto THEN pos
  ELSE WalkTo(raw, pos + NeedBytes(ii + 1), IF DrawOk(raw, pos, ii + 1) THEN ii + 1 ELSE ii, upto)
RECURSIVE WalkFrom(_, _, _, _)
WalkFrom(raw, pos, ii, upto) ==
  IF ii >= upto THEN pos
  ELSE LET nx == IF ii + FyChunk < upto THEN ii + FyChunk ELSE upto
           px == TLCEval(WalkTo(raw, pos, ii, nx)) IN
       WalkFrom(raw, px, nx, upto)
\* permext: the shuffle of n1 elements continues the shuffle of n0 < n1 elements (same key and counter, hence the same
\* stream): steps n0..n1-1 applied to perm0, extended by the identity, at the offset behind the draws of steps 1..n0-1
ExtendId(pm, n0, n1) == [ii \in 1..n1 |-> IF ii <= n0 THEN pm[ii] ELSE ii - 1]
FyExt(rr) == FyFrom(rr.raw, WalkFrom(rr.raw, 0, 1, rr.n0), rr.n0, rr.n, TLCEval(ExtendId(rr.perm0, rr.n0, rr.n)))
\* RandomPermutation: i from n-1 down to 1, 8 bytes per draw
RECURSIVE FyRng(_, _, _, _)
FyRng(raw, pos, ii, arr) ==
  IF ii < 1 THEN arr
  ELSE LET dr == SubSeqF(raw, pos, 8)
           bb == LSub(P64, LFromNat(LModNat(P64, ii + 1), 17)) IN
       IF LLess(LPad(dr, 17), bb)
       THEN FyRng(raw, pos + 8, ii - 1, Swap(arr, ii + 1, LModNat(dr, ii + 1) + 1))
       ELSE FyRng(raw, pos + 8, ii, arr)
Identity(nn) == [ii \in 1..nn |-> ii - 1]
IsPermutation(pm, nn) == Len(pm) = nn /\ { pm[ii] : ii \in 1..nn } = 0..(nn - 1)

RjFacets(rr) ==
  CASE rr.kind = "range" ->
         << <<"bound", BoundOK(rr)>>,
            <<"draws", BoundOK(rr) => RangeWalk(rr, BoundPlus1(rr), 0, 1)>>,
            <<"in_range", \A kk \in 1..Len(rr.res) : LLess(rr.res[kk], rr.m)>> >>
    [] rr.kind = "rangenone" ->
         << <<"draws", \A kk \in 1..Len(rr.res) : rr.res[kk] = SubSeqF(rr.raw, 8 * (kk - 1), 8)>> >>
    [] rr.kind = "permprf" ->
         << <<"permutation", IsPermutation(rr.perm, rr.n)>>,
            <<"fisher_yates", rr.perm = FyPrf(rr.raw, 0, 1, rr.n, Identity(rr.n))>> >>
    [] rr.kind = "permext" ->
         << <<"permutation", IsPermutation(rr.perm, rr.n) /\ IsPermutation(rr.perm0, rr.n0)>>,
            <<"fisher_yates", rr.perm = FyExt(rr)>> >>
    [] rr.kind = "permrng" ->
         << <<"permutation", IsPermutation(rr.perm, rr.n)>>,
            <<"fisher_yates", rr.perm = FyRng(rr.raw, 0, rr.n - 1, Identity(rr.n))>> >>
    [] rr.kind = "replay" ->
         << <<"replays", rr.a = rr.b /\ rr.eva = rr.evb>>,
            <<"seed_matters", rr.a # rr.other>>,
            <<"in_domain", \A ii \in 1..Len(rr.outs) :
                 Cd!Accepts(rr.outs[ii].lay, rr.outs[ii].t) /\ Cd!FlushOK(rr.outs[ii].t, rr.outs[ii].lastb)>> >>
Failing(fs) == { fs[ii][1] : ii \in { jj \in 1..Len(fs) : ~fs[jj][2] } }

Stride == 4
\* state 0 is an empty start state: initial states are evaluated by TLC's main thread, whose stack is too
\* small for the deep recursions of the permutation replays; records are judged in successor states
TraceInit == /\ cur = 0
             /\ form = "trace" /\ unit = 0 /\ md = 0 /\ draw = 0 /\ hg = <<>> /\ rej = 0
TraceNext == /\ IF cur = 0 THEN cur' \in 1..Stride /\ cur' <= Len(Rec)
                ELSE cur + Stride <= Len(Rec) /\ cur' = cur + Stride
             /\ UNCHANGED rvars
TraceSpec == TraceInit /\ [][TraceNext]_<<cur, form, unit, md, draw, hg, rej>>
TraceOK == cur >= 1 => LET bad == Failing(RjFacets(Rec[cur])) IN bad = {} \/ PrintT(<<"BAD", cur, bad>>)
=============================================================================
