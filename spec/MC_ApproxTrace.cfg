SPECIFICATION Spec
INVARIANT Judged
CHECK_DEADLOCK FALSE
