------------------------------- MODULE CCTypes -------------------------------
(***************************************************************************)
(* CipherCore types (ciphercore-base/src/data_types.rs).                   *)
(*                                                                         *)
(* A type is a record with a kind field k:                                 *)
(*   [k |-> "s", st]              scalar of scalar type st                 *)
(*   [k |-> "a", st, sh]          array, sh = sequence of dimensions       *)
(*   [k |-> "t", el]              tuple, el = sequence of types            *)
(*   [k |-> "v", n, of]           vector of n elements of type `of`        *)
(*   [k |-> "n", nm, el]          named tuple, names nm, types el          *)
(* This is exactly the JSON the conformance harness exports for a real     *)
(* `Type`, so imported graphs can be interpreted without translation.      *)
(*                                                                         *)
(* TLC integers are 32 bit.  RingBits bounds the ring in which integer     *)
(* types are interpreted: a scalar type of w bits is computed modulo        *)
(* 2^min(w, RingBits).  For w <= RingBits this is the exact semantics; for *)
(* wider types it is the homomorphic image Z_{2^w} -> Z_{2^RingBits}, which *)
(* commutes with every ring operation (DESIGN.md section 4).                *)
(***************************************************************************)
EXTENDS Integers, Sequences, FiniteSets, TLC

CONSTANT RingBits

ScalarTypes == {"b", "u8", "i8", "u16", "i16", "u32", "i32", "u64", "i64", "u128", "i128"}

BitsOf(st) == CASE st = "b" -> 1
                [] st \in {"u8", "i8"} -> 8
                [] st \in {"u16", "i16"} -> 16
                [] st \in {"u32", "i32"} -> 32
                [] st \in {"u64", "i64"} -> 64
                [] st \in {"u128", "i128"} -> 128

IsSigned(st) == st \in {"i8", "i16", "i32", "i64", "i128"}

RECURSIVE Pow2(_)
Pow2(n) == IF n = 0 THEN 1 ELSE 2 * Pow2(n - 1)

Min2(a, b) == IF a < b THEN a ELSE b
Max2(a, b) == IF a > b THEN a ELSE b

EffBits(st) == Min2(BitsOf(st), RingBits)
Modulus(st) == Pow2(EffBits(st))
IsExact(st) == BitsOf(st) <= RingBits

ScalarT(st) == [k |-> "s", st |-> st]
ArrayT(sh, st) == [k |-> "a", st |-> st, sh |-> sh]
TupleT(el) == [k |-> "t", el |-> el]
VectorT(n, of) == [k |-> "v", n |-> n, of |-> of]
NamedT(nm, el) == [k |-> "n", nm |-> nm, el |-> el]

IsScalarT(t) == t.k = "s"
IsArrayT(t) == t.k = "a"
IsNumT(t) == t.k \in {"s", "a"}
IsTupleT(t) == t.k = "t"
IsVectorT(t) == t.k = "v"
IsNamedT(t) == t.k = "n"

ShapeOf(t) == IF t.k = "s" THEN <<>> ELSE t.sh

RECURSIVE Prod(_)
Prod(s) == IF s = <<>> THEN 1 ELSE Head(s) * Prod(Tail(s))

NumEl(t) == Prod(ShapeOf(t))

\* scalar for the empty shape, array otherwise
MkNum(sh, st) == IF sh = <<>> THEN ScalarT(st) ELSE ArrayT(sh, st)

\* Component types of a container, as a sequence
RECURSIVE RepeatSeq(_, _)
RepeatSeq(e, n) == IF n = 0 THEN <<>> ELSE <<e>> \o RepeatSeq(e, n - 1)

Components(t) == CASE t.k = "t" -> t.el
                   [] t.k = "n" -> t.el
                   [] t.k = "v" -> RepeatSeq(t.of, t.n)

\* data_types.rs Type::is_valid: arrays have a non-empty shape of positive dimensions,
\* containers are valid iff their components are; named tuples need pairwise distinct names.
ValidShape(sh) == Len(sh) > 0 /\ \A i \in 1..Len(sh) : sh[i] > 0

RECURSIVE ValidType(_)
ValidType(t) ==
  CASE t.k = "s" -> t.st \in ScalarTypes
    [] t.k = "a" -> t.st \in ScalarTypes /\ ValidShape(t.sh)
    [] t.k = "t" -> \A i \in 1..Len(t.el) : ValidType(t.el[i])
    [] t.k = "v" -> ValidType(t.of)
    [] t.k = "n" -> /\ \A i \in 1..Len(t.el) : ValidType(t.el[i])
                    /\ \A i, j \in 1..Len(t.nm) : i # j => t.nm[i] # t.nm[j]

\* number of bits of a value of the type (data_types.rs get_size_in_bits)
RECURSIVE SizeInBits(_)
RECURSIVE SumSizes(_)
SumSizes(ts) == IF ts = <<>> THEN 0 ELSE SizeInBits(Head(ts)) + SumSizes(Tail(ts))
SizeInBits(t) ==
  CASE t.k \in {"s", "a"} -> NumEl(t) * BitsOf(t.st)
    [] t.k = "v" -> t.n * SizeInBits(t.of)
    [] OTHER -> SumSizes(t.el)
=============================================================================
