\* Instantiation: the pass model on every pair of root instantiations of the dump
CONSTANTS
  SeedSize = 2
  AnyOrderUpTo = 6
SPECIFICATION PSpec
INVARIANT FailsOnlyOnClash
INVARIANT ClashAlwaysFails
INVARIANT AllReplaced
INVARIANT DepsFirst
INVARIANT Bijection
INVARIANT ReportErr
CHECK_DEADLOCK TRUE
