------------------------------- MODULE Approx -------------------------------
(***************************************************************************)
(* C20: fixed-point approximations stay close to the real function.        *)
(*                                                                         *)
(* A value v on the grid of precision p represents v / 2^p.  Everything is *)
(* stated in exact integer arithmetic:                                     *)
(*   part 1  closeness relations and the tolerance of every operation /    *)
(*           configuration (where each number comes from is said next to   *)
(*           it: documentation, the authors' tests, or a derivation);      *)
(*   part 2  the algorithms of the code transcribed over the integers      *)
(*           (Newton reciprocal and inverse square root with the           *)
(*           bit-derived initial guess, Goldschmidt division, the          *)
(*           piecewise-linear bucket selection and evaluation);            *)
(*   part 3  the same relations on 128-bit two's complement limb           *)
(*           sequences (module BigMod) for values beyond TLC's integers.   *)
(* ApproxAlg.tla checks part 2 against part 1 for EVERY input of scaled-   *)
(* down domains; ApproxTrace.tla judges executions of the real code.       *)
(* Parameter names are deliberately unusual (docs/CONVENTIONS.md).         *)
(***************************************************************************)
EXTENDS Integers, Sequences, FiniteSets, TLC, BigMod

AbsV(aa) == IF aa < 0 THEN 0 - aa ELSE aa
MaxV(aa, bb) == IF aa >= bb THEN aa ELSE bb
MinV(aa, bb) == IF aa <= bb THEN aa ELSE bb
\* division rounding toward zero: the plaintext Truncate of a signed type (simple_evaluator.rs)
TDiv(aa, bb) == IF aa >= 0 THEN aa \div bb ELSE 0 - ((0 - aa) \div bb)

RECURSIVE ISqrtSearch(_, _, _)
ISqrtSearch(nn, lo, hi) ==            \* largest r in lo..hi with r*r <= nn   (hi < 46341)
  IF lo >= hi THEN lo
  ELSE LET mid == (lo + hi + 1) \div 2 IN
       IF mid * mid <= nn THEN ISqrtSearch(nn, mid, hi) ELSE ISqrtSearch(nn, lo, mid - 1)
ISqrt(nn) == ISqrtSearch(nn, 0, 46340)

(***************************************************************************)
(* PART 1a  reference values and closeness relations                       *)
(***************************************************************************)
\* NewtonInversion(cap): 2^cap / d;  InverseSqrt(cap): 2^cap / sqrt(d);  GoldschmidtDivision(cap): 2^cap * n / d
RecipExp(cap, dd) == (2 ^ cap) \div dd
\* floor(2^cap / sqrt(d)) = floor(sqrt(4^cap / d)) = isqrt(floor(4^cap / d))
ISqrtExp(cap, dd) == ISqrt((4 ^ cap) \div dd)
DivExp(cap, nn, dd) == (nn * (2 ^ cap)) \div dd

\* the same statements without division or square root:  |y - floor(exact)| <= tt
RecipWithin(cap, dd, yy, tt) == (yy - tt) * dd <= 2 ^ cap /\ 2 ^ cap < (yy + tt + 1) * dd
ISqrtWithin(cap, dd, yy, tt) ==
    /\ yy - tt <= 0 \/ (yy - tt) * (yy - tt) * dd <= 4 ^ cap
    /\ yy + tt + 1 > 0 /\ 4 ^ cap < (yy + tt + 1) * (yy + tt + 1) * dd
DivWithin(cap, nn, dd, yy, tt) == (yy - tt) * dd <= nn * (2 ^ cap) /\ nn * (2 ^ cap) < (yy + tt + 1) * dd

\* transcendental functions: the table gives lo with  lo <= f(x) * 2^p <= lo + 1  (generated with interval
\* arithmetic outside TLC).  Distance of yy to that bracket: the true error lies in [BrDev, BrDev + 1].
BrDev(yy, lo) == IF yy < lo THEN lo - yy ELSE IF yy > lo + 1 THEN yy - (lo + 1) ELSE 0

\* an upper bound of ee * rr / dd that cannot overflow TLC's integers
RelPart(ee, rr, dd) ==
    IF rr = 0 THEN 0
    ELSE IF ee < 1048576 /\ rr <= 1024 THEN (ee * rr) \div dd
    ELSE ((ee \div dd) + 1) * rr

(***************************************************************************)
(* PART 1b  documented domains                                             *)
(***************************************************************************)
\* newton_inversion.rs / goldschmidt_division.rs: "(0, 2^(cap-1))", inverse_sqrt.rs: "(0, 2^(2 cap - 1))" and < 2^21
NewtonDom(cap, dd) == 1 <= dd /\ dd < 2 ^ (cap - 1)
ISqrtDom(cap, dd) == 1 <= dd /\ dd < 2 ^ (2 * cap - 1) /\ dd < 2097152
GoldDom(cap, nn, dd) == NewtonDom(cap, dd) /\ 1 <= nn /\ nn < 2 ^ (cap - 1)
\* a caller-supplied initial approximation ww.  Documented: 2^(cap-1) <= d*w < 2^(cap+1) (Newton, Goldschmidt),
\* 2^(2cap-2) <= d*w*w <= 2^(2cap) (inverse square root).  The convergence bound below needs |1 - d*w/2^cap| <= 1/2,
\* which is the documented range of the inverse square root but only the part d*w <= 3*2^(cap-1) of the other one;
\* above it nothing is judged (observation "slow_init").
NewtonInitJudged(cap, dd, ww) == 2 ^ (cap - 1) <= dd * ww /\ dd * ww <= 3 * (2 ^ (cap - 1))
NewtonInitDocumented(cap, dd, ww) == 2 ^ (cap - 1) <= dd * ww /\ dd * ww < 2 ^ (cap + 1)
ISqrtInitJudged(cap, dd, ww) == 4 ^ (cap - 1) <= dd * ww * ww /\ dd * ww * ww <= 4 ^ cap
\* piecewise-linear operations: the segment [left, right] (approx_*.rs), and the sides on which the approximation is
\* documented to be the constant the function converges to
PwlLeft(op) == CASE op = "exp" -> -16 [] op = "sigmoid" -> -8 [] op = "gelu" -> -4
PwlRight(op) == 0 - PwlLeft(op)
PwlFlatRight(op) == op = "sigmoid"
\* flattened sides are judged up to the same distance again (the function is flat there)
PwlDom(op, pp, xv) ==
    /\ xv >= 2 * PwlLeft(op) * (2 ^ pp)
    /\ xv <= (IF PwlFlatRight(op) THEN 2 ELSE 1) * PwlRight(op) * (2 ^ pp)
\* taylor_exponent.rs: results live in "31-bit fixed-point arithmetic" (the table row is absent beyond);
\* below -10 the result is documented to be 0 (the exact value is below 2^p * exp(-10)); judged down to -20
TaylorDom(pp, xv, lo) == xv >= (0 - 20) * (2 ^ pp) /\ lo < 536870912

(***************************************************************************)
(* PART 1c  tolerances (in units of the grid)                              *)
(***************************************************************************)
\* Newton reciprocal: the relative error squares in every iteration, starting from <= 1/2 (initial guess
\* 2^(cap-1) <= d*w0 <= 2^cap): 2^-(2^k).  One unit for the final truncation: the authors' tests require <= 1
\* for (cap 10, 5 iterations).
NewtonRel(kk) == CASE kk = 0 -> << 1, 2 >> [] kk = 1 -> << 1, 4 >> [] kk = 2 -> << 1, 16 >>
                   [] kk = 3 -> << 1, 256 >> [] kk = 4 -> << 1, 65536 >> [] OTHER -> << 0, 1 >>
\* Before convergence the truncation of the previous step is still visible: 2 units.
NewtonAbs == 1
NewtonTol(cap, kk, ee) == (IF NewtonRel(kk)[1] = 0 THEN NewtonAbs ELSE NewtonAbs + 1) + RelPart(ee, NewtonRel(kk)[1], NewtonRel(kk)[2])
\* inverse square root: e' = (3 e^2 - e^3) / 2 from e = 1/2:  .3125, .1312, .0247, .00091, 1.3e-6.
\* "A few units": 3 (the authors' tests see <= 1 on their points; the dense sweep measures 2 at d = 4^(cap-2), where the
\* truncation makes 2 a fixed point of the iteration although the exact value is 4).
ISqrtRel(kk) == CASE kk = 0 -> << 1, 2 >> [] kk = 1 -> << 5, 16 >> [] kk = 2 -> << 135, 1024 >>
                  [] kk = 3 -> << 26, 1024 >> [] kk = 4 -> << 1, 1024 >> [] kk = 5 -> << 1, 524288 >> [] OTHER -> << 0, 1 >>
ISqrtAbs == 3
ISqrtTol(cap, kk, ee) == ISqrtAbs + RelPart(ee, ISqrtRel(kk)[1], ISqrtRel(kk)[2])
\* Goldschmidt with kk "iterations" = initial product + (kk-1) steps: convergence 2^-(2^(kk-1)); every step
\* truncates the denominator (one unit of 2^-cap), which moves the numerator by ee / 2^cap: kk * ee / 2^cap.
GoldAbs == 2
GoldTol(cap, kk, ee) == GoldAbs + RelPart(ee, NewtonRel(kk - 1)[1], NewtonRel(kk - 1)[2]) + (ee \div (2 ^ cap) + 1) * kk
\* the authors' tests (cap 10/20/30, 5 iterations, large quotients): (|y - e| * 100) / e <= 1 in integer arithmetic;
\* applied where one unit is below that resolution (e >= 256)
GoldAuthors(ee, yy) == (AbsV(yy - ee) * 100) \div ee <= 1

\* piecewise-linear sigmoid / GeLU: documented maximal absolute error of the interpolation in 1e-4 (doc comments
\* in approx_sigmoid.rs / approx_gelu.rs; log_buckets 4, 5, 6), the tanh form of GeLU the code tabulates differs
\* from GeLU by less than 5e-4; PwlRound units for the rounding of table and result to the grid (measured <= 2).
PwlDoc(op, lb) == CASE op = "sigmoid" /\ lb = 4 -> 163 [] op = "sigmoid" /\ lb = 5 -> 45 [] op = "sigmoid" /\ lb >= 6 -> 12
                    [] op = "gelu" /\ lb = 4 -> 232 + 5 [] op = "gelu" /\ lb = 5 -> 59 + 5 [] op = "gelu" /\ lb >= 6 -> 15 + 5
PwlRound == 4
PwlTol(op, pp, lb) == (PwlDoc(op, lb) * (2 ^ pp) + 9999) \div 10000 + PwlRound
\* piecewise-linear exponent: the authors' tests allow 5% (relative, with 1 added to the value); the grid adds
\* ExpRound units near the left end where the value is a few units (measured <= 2)
ExpRound == 4
ExpTol(lo) == ExpRound + (lo + 1) \div 20
\* Taylor exponent: remainder of the series of exp(y), 0 <= y < ln 2, after kk terms; the constants 1/ln 2 and
\* ln 2 are rounded to the grid: the exponent is off by (|x| + 2) units of 2^-p;  TaylorRound units of rounding.
TaylorRem(kk) == CASE kk <= 1 -> << 1, 1 >> [] kk = 2 -> << 1, 4 >> [] kk = 3 -> << 1, 16 >> [] kk = 4 -> << 1, 64 >>
                   [] OTHER -> << 1, 512 >>
TaylorRound == 2
TaylorTol(pp, kk, xv, lo) ==
    TaylorRound + ((lo + 1) \div TaylorRem(kk)[2] + 1) * TaylorRem(kk)[1]
                + ((lo + 1) \div (2 ^ pp) + 1) * (AbsV(xv) \div (2 ^ pp) + 3)
\* the authors' tests (precision 10, 5 terms, |x| <= 10): |e - y| / (1 + max(e, y)) <= 0.01 with e = floor;
\* applied where one unit is below that resolution (e >= 256)
TaylorAuthors(lo, yy) == 100 * AbsV(lo - yy) <= 1 + MaxV(lo, yy)

\* compiled (secure) evaluation against plaintext evaluation: every MPC truncation returns floor + {0, 1}
\* (mpc_truncate.rs) where the plaintext rounds toward zero: one unit each.
\* Newton / inverse square root correct themselves (the derivative of the iteration vanishes at the fixed point):
\* the last two truncations count.  Measured 2; allowance 4.
NewtonCAllow == 4
\* Goldschmidt does not correct the numerator: kk truncations of the numerator, and each of the kk truncations of the
\* denominator moves it by ee / 2^cap
GoldCAllow(cap, kk, ee) == kk + (ee \div (2 ^ cap) + 1) * kk
\* Taylor: kk + 2 truncations before the product with 2^(integer part), each one unit of 2^-p relative; 2 units after
TaylorCAllow(pp, kk, lo) == 2 + ((lo + 1) \div (2 ^ pp) + 1) * (kk + 2)
\* FixedMultiply: one truncation
FixMulCAllow == 1
\* piecewise-linear: one truncation of the result; the truncation that computes the bucket number is not a small
\* perturbation of the result (the next bucket may be chosen): see PwlSqCompiledOK for the exact statement.
PwlCAllow == 2

(***************************************************************************)
(* PART 2  the algorithms of the code over the integers                    *)
(***************************************************************************)
BitOf(vv, jj) == (vv \div (2 ^ jj)) % 2
RECURSIVE NextPow2From(_, _)
NextPow2From(nn, pw) == IF pw >= nn THEN pw ELSE NextPow2From(nn, 2 * pw)
NextPow2(nn) == NextPow2From(nn, 1)
\* ops/utils.rs cumulative_or(bits, n): element jj = OR of the bits jj .. jj + nextpow2(n) - 1 (of a 64-bit number)
CumOr(vv, nn, jj) == \E ii \in jj..(jj + NextPow2(nn) - 1) : ii < 31 /\ BitOf(vv, ii) = 1
\* highest_one_bit_binary[jj] = cum_or[jj] XOR cum_or[jj + 1]
Hob(vv, nn, jj) == CumOr(vv, nn, jj) # CumOr(vv, nn, jj + 1)
RECURSIVE SumBits(_, _, _)
SumBits(ff, ii, nn) == IF ii >= nn THEN 0 ELSE (IF ff[ii] THEN 2 ^ ii ELSE 0) + SumBits(ff, ii + 1, nn)
\* inverse_initial_approximation: bit ii of the guess = highest_one_bit[cap - ii - 1]
InitRecip(cap, dd) == SumBits([ii \in 0..(cap - 1) |-> Hob(dd, cap, cap - ii - 1)], 0, cap)
\* inverse_sqrt_initial_approximation: bit ii = hob[2cap - 2ii - 1] XOR hob[2cap - 2ii - 2]
InitISqrt(cap, dd) ==
    SumBits([ii \in 0..(cap - 1) |-> Hob(dd, 2 * cap, 2 * cap - 2 * ii - 1) # Hob(dd, 2 * cap, 2 * cap - 2 * ii - 2)], 0, cap)

\* newton_inversion.rs:  x <- ((2^(cap+1) - x*d) * x) truncated by 2^cap
RECURSIVE NewtonIter(_, _, _, _)
NewtonIter(cap, kk, dd, ww) ==
    IF kk = 0 THEN ww ELSE NewtonIter(cap, kk - 1, dd, TDiv((2 ^ (cap + 1) - ww * dd) * ww, 2 ^ cap))
NewtonAlg(cap, kk, dd) == NewtonIter(cap, kk, dd, InitRecip(cap, dd))
\* inverse_sqrt.rs:  x <- ((3 * 2^(cap-1) - trunc(d*x*x, 2^(cap+1))) * x) truncated by 2^cap
RECURSIVE ISqrtIter(_, _, _, _)
ISqrtIter(cap, kk, dd, ww) ==
    IF kk = 0 THEN ww
    ELSE ISqrtIter(cap, kk - 1, dd, TDiv((3 * (2 ^ (cap - 1)) - TDiv(dd * ww * ww, 2 ^ (cap + 1))) * ww, 2 ^ cap))
ISqrtAlg(cap, kk, dd) == ISqrtIter(cap, kk, dd, InitISqrt(cap, dd))
\* goldschmidt_division.rs:  a = n*w, b = d*w;  (kk-1) times: w = 2^(cap+1) - b, a = trunc(a*w), b = trunc(b*w)
RECURSIVE GoldIter(_, _, _, _)
GoldIter(cap, kk, aa, bb) ==
    IF kk <= 1 THEN aa
    ELSE LET wn == 2 ^ (cap + 1) - bb IN GoldIter(cap, kk - 1, TDiv(aa * wn, 2 ^ cap), TDiv(bb * wn, 2 ^ cap))
GoldAlgW(cap, kk, nn, dd, ww) == GoldIter(cap, kk, nn * ww, dd * ww)
GoldAlg(cap, kk, nn, dd) == GoldAlgW(cap, kk, nn, dd, InitRecip(cap, dd))

(*-------------------------------------------------------------------------*)
(* pwl/approx_pointwise.rs                                                 *)
(* A configuration: precision pp, log_buckets lb, the segment [lft, rgt]   *)
(* in real units (integers), flatten flags, word width wd of the signed    *)
(* scalar type (two's complement), and the function table.                 *)
(*-------------------------------------------------------------------------*)
Wrap(vv, wd) == ((vv + 2 ^ (wd - 1)) % (2 ^ wd)) - 2 ^ (wd - 1)
\* control points i = -1 .. 2^lb + 1 are kept at index i + 2
PwlNPts(lb) == 2 ^ lb + 3
\* x_i * 2^p for x_i = lft + (rgt - lft) * i / 2^lb  (exact when lb <= pp + log2(rgt - lft))
PwlXs(pp, lb, lft, rgt) == [ii \in 1..PwlNPts(lb) |-> ((lft * (2 ^ lb) + (rgt - lft) * (ii - 2)) * (2 ^ pp)) \div (2 ^ lb)]
\* f(x) = x * x:  y_i * 2^p = (lft * 2^lb + (rgt - lft) * i)^2 * 2^p / 4^lb  rounded toward zero
PwlSqYs(pp, lb, lft, rgt) ==
    [ii \in 1..PwlNPts(lb) |-> LET uu == lft * (2 ^ lb) + (rgt - lft) * (ii - 2) IN (uu * uu * (2 ^ pp)) \div (4 ^ lb)]
\* segment ss = 1 .. 2^lb + 2 joins the points ss and ss + 1:  alpha = ((y1 - y0) << p) / (x1 - x0),  beta = (y0 << p) - alpha * x0
PwlAlpha(xs, ys, pp, lb, fl, fr) ==
    [ss \in 1..(2 ^ lb + 2) |->
        IF (ss = 1 /\ fl) \/ (ss = 2 ^ lb + 2 /\ fr) THEN 0
        ELSE TDiv((ys[ss + 1] - ys[ss]) * (2 ^ pp), xs[ss + 1] - xs[ss])]
PwlBeta(xs, ys, al, pp, lb, fl, fr) ==
    [ss \in 1..(2 ^ lb + 2) |->
        IF ss = 1 /\ fl THEN ys[1] * (2 ^ pp)
        ELSE IF ss = 2 ^ lb + 2 /\ fr THEN ys[2 ^ lb + 2] * (2 ^ pp)
        ELSE ys[ss] * (2 ^ pp) - al[ss] * xs[ss]]
\* divisor of the bucket number: (rgt - lft) * 2^(pp - lb)
PwlDivisor(pp, lb, lft, rgt) == IF lb <= pp THEN (rgt - lft) * (2 ^ (pp - lb)) ELSE (rgt - lft) \div (2 ^ (lb - pp))
\* bucket number as the code computes it: scaled = trunc(x - left_fp, divisor) in the ring, its two's complement bits
PwlScaled(xv, pp, lb, lft, rgt, wd, bump) == Wrap(TDiv(Wrap(xv - lft * (2 ^ pp), wd), PwlDivisor(pp, lb, lft, rgt)) + bump, wd)
\* selected segment: msb set -> left (1); some bit lb .. wd-2 set and msb clear -> right (2^lb + 2); else 2 + low bits
PwlSegOf(sc, lb, wd) ==
    LET uu == sc % (2 ^ wd)
        msb == BitOf(uu, wd - 1) = 1
        high == \E jj \in lb..(wd - 2) : BitOf(uu, jj) = 1
    IN IF msb THEN 1 ELSE IF high THEN 2 ^ lb + 2 ELSE 2 + (uu % (2 ^ lb))
\* the same on integers that are far from the ends of the word (what the trace judge uses for 64-bit words)
PwlSegOfInt(sc, lb) == IF sc < 0 THEN 1 ELSE IF sc >= 2 ^ lb THEN 2 ^ lb + 2 ELSE 2 + sc
\* plaintext: the bucket number is rounded toward zero;  compiled: the MPC truncation returns floor + bump, bump in {0, 1}
PwlSegPlain(xv, pp, lb, lft, rgt) == PwlSegOfInt(TDiv(xv - lft * (2 ^ pp), PwlDivisor(pp, lb, lft, rgt)), lb)
PwlSegComp(xv, pp, lb, lft, rgt, bump) == PwlSegOfInt(((xv - lft * (2 ^ pp)) \div PwlDivisor(pp, lb, lft, rgt)) + bump, lb)
PwlLine(xv, ss, al, be) == al[ss] * xv + be[ss]
\* compiled result yc is explained by segment ss: the final MPC truncation gives floor(line / 2^p) + {0, 1}
PwlExplained(yc, xv, ss, al, be, pp) == LET fv == PwlLine(xv, ss, al, be) \div (2 ^ pp) IN yc = fv \/ yc = fv + 1
\* tree_retrieve(bits, vals): bottom-up multiplexer tree; bit 0 chooses inside pairs first
RECURSIVE TreeRetrieve(_, _, _)
TreeRetrieve(bits, vals, bi) ==
    IF Len(vals) = 1 THEN vals[1]
    ELSE TreeRetrieve(bits, [jj \in 1..(Len(vals) \div 2) |->
                                LET ev == vals[2 * jj - 1]  od == vals[2 * jj] IN (od - ev) * bits[bi] + ev], bi + 1)
\* the value: (alpha[s] * x + beta[s]) truncated by 2^p, all in the ring
PwlEvalSeg(xv, ss, al, be, pp, wd) == Wrap(TDiv(Wrap(al[ss] * xv + be[ss], wd), 2 ^ pp), wd)

(***************************************************************************)
(* PART 3  128-bit two's complement limb sequences (values beyond 2^31)    *)
(***************************************************************************)
WL == 16
WNat(nn) == LFromNat(nn, WL)
WNeg(aa) == aa[WL] >= 128
WLeq(aa, bb) == ~WNeg(LSub(bb, aa))          \* signed comparison; magnitudes stay far below 2^126
WLess(aa, bb) == WNeg(LSub(aa, bb))
WMul(aa, bb) == LMul(aa, bb, WL)
WAdd(aa, bb) == LAdd(aa, bb)
WSub(aa, bb) == LSub(aa, bb)
WPow2(nn) == [ii \in 1..WL |-> IF ii = (nn \div 8) + 1 THEN Pow2Tab[(nn % 8) + 1] ELSE 0]
\* non-negative aa divided by 2^nn
WShr(aa, nn) ==
    LET qq == nn \div 8  rr == nn % 8 IN
    [ii \in 1..WL |->
        LET l0 == IF ii + qq <= WL THEN aa[ii + qq] ELSE 0
            l1 == IF ii + qq + 1 <= WL THEN aa[ii + qq + 1] ELSE 0
        IN (l0 \div Pow2Tab[rr + 1]) + (l1 % Pow2Tab[rr + 1]) * (256 \div Pow2Tab[rr + 1]) ]
\* product with a natural number below 2^22 (one pass with carry), below 2^31 (two halves), with an integer
RECURSIVE WMulSmallFrom(_, _, _, _)
WMulSmallFrom(aa, nn, ii, cy) ==
    IF ii > WL THEN << >>
    ELSE LET ss == aa[ii] * nn + cy IN << ss % 256 >> \o WMulSmallFrom(aa, nn, ii + 1, ss \div 256)
WMulSmall(aa, nn) == WMulSmallFrom(aa, nn, 1, 0)
\* aa * 2^nn  (mod 2^128)
WShl(aa, nn) ==
    LET qq == nn \div 8  rr == nn % 8 IN
    [ii \in 1..WL |->
        LET l0 == IF ii - qq >= 1 THEN aa[ii - qq] ELSE 0
            l1 == IF ii - qq - 1 >= 1 THEN aa[ii - qq - 1] ELSE 0
        IN ((l0 * Pow2Tab[rr + 1]) % 256) + (l1 \div (256 \div Pow2Tab[rr + 1])) ]
WMulNat(aa, nn) == IF nn < 65536 THEN WMulSmall(aa, nn)
                   ELSE WAdd(WMulSmall(aa, nn % 65536), WShl(WMulSmall(aa, nn \div 65536), 16))
WMulInt(aa, vv) == IF vv < 0 THEN LNeg(WMulNat(aa, 0 - vv)) ELSE WMulNat(aa, vv)
\* |yy - floor(2^cap / dd)| <= tt  etc.: yy (and nn's product) limb sequences, dd / nn integers below 2^31, tt small
RecipWithinW(cap, dd, yy, tt) ==
    /\ WLeq(WMulNat(WSub(yy, WNat(tt)), dd), WPow2(cap))
    /\ WLess(WPow2(cap), WMulNat(WAdd(yy, WNat(tt + 1)), dd))
\* inverse square root: (y -+ t)^2 * d  (one general product per bound)
ISqrtWithinW(cap, dd, yy, tt) ==
    LET lw == WSub(yy, WNat(tt))  up == WAdd(yy, WNat(tt + 1)) IN
    /\ WLeq(lw, WNat(0)) \/ WLeq(WMulNat(WMul(lw, lw), dd), WPow2(2 * cap))
    /\ WLess(WNat(0), up) /\ WLess(WPow2(2 * cap), WMulNat(WMul(up, up), dd))
\* Goldschmidt: tolerance tw (limbs)
DivWithinW(cap, nn, dd, yy, tw) ==
    /\ WLeq(WMulNat(WSub(yy, tw), dd), WShl(WNat(nn), cap))
    /\ WLess(WShl(WNat(nn), cap), WMulNat(WAdd(WAdd(yy, tw), WNat(1)), dd))
\* converged Goldschmidt (2^(kk-1) > 2 cap): GoldAbs + (yy / 2^cap + 2) * kk  (yy stands for the quotient)
GoldTolW(cap, kk, yy) == WAdd(WNat(GoldAbs), WMulNat(WAdd(WShr(yy, cap), WNat(2)), kk))
\* exponent bracket [lo, lo + 1], tolerance ExpRound + (lo + 1) / 20:
\*   yy >= lo - T  and  yy <= lo + 1 + T   with  a <= floor(E / 20)  <=>  20 a <= E
ExpCloseW(yy, lo) ==
    LET ee == WAdd(lo, WNat(1))
        below == WSub(WSub(lo, yy), WNat(ExpRound))
        above == WSub(WSub(yy, ee), WNat(ExpRound))
    IN /\ WNeg(below) \/ WLeq(WMulSmall(below, 20), ee)
       /\ WNeg(above) \/ WLeq(WMulSmall(above, 20), ee)
\* a (small) signed integer as limbs, and back (saturating at 2^24 for the statistics)
WInt(vv) == IF vv < 0 THEN LNeg(WNat(0 - vv)) ELSE WNat(vv)
WSmallAbs(aa) == LET mm == IF WNeg(aa) THEN LNeg(aa) ELSE aa IN
                 IF \A ii \in 4..WL : mm[ii] = 0 THEN mm[1] + 256 * mm[2] + 65536 * mm[3] ELSE 16777216
\* bracket [lo, lo + 1] with an absolute tolerance tt
BrCloseW(yy, lo, tt) == WLeq(WSub(lo, WNat(tt)), yy) /\ WLeq(yy, WAdd(lo, WNat(tt + 1)))
BrDevW(yy, lo) == IF WLess(yy, lo) THEN WSmallAbs(WSub(lo, yy))
                  ELSE IF WLess(WAdd(lo, WNat(1)), yy) THEN WSmallAbs(WSub(yy, WAdd(lo, WNat(1)))) ELSE 0
\* compiled piecewise-linear result explained by segment ss (tables al, be as limbs, xv an integer)
PwlExplainedW(yc, xv, ss, al, be, pp) ==
    LET lv == WAdd(WMulInt(al[ss], xv), be[ss]) IN
    /\ WLeq(WShl(WSub(yc, WNat(1)), pp), lv)
    /\ WLess(lv, WShl(WAdd(yc, WNat(1)), pp))
\* plaintext result: the line value rounded toward zero
PwlPlainW(yy, xv, ss, al, be, pp) ==
    LET lv == WAdd(WMulInt(al[ss], xv), be[ss])
        lo == WShl(yy, pp) IN
    IF WNeg(lv) THEN WLeq(lv, lo) /\ WLess(WSub(lo, WPow2(pp)), lv)
    ELSE WLeq(lo, lv) /\ WLess(lv, WAdd(lo, WPow2(pp)))
\* |aa - bb| <= tw
WithinW(aa, bb, tw) == WLeq(WSub(aa, bb), tw) /\ WLeq(WSub(bb, aa), tw)
=============================================================================
