\* C14: exhaustive small models (thorough)
CONSTANT Thorough = TRUE
SPECIFICATION ShSpec
INVARIANT Reconstructs
INVARIANT AnyTwoReconstruct
INVARIANT SinglePartyUniform
CHECK_DEADLOCK FALSE
