\* ABY3Run, mode "three", integer types interpreted modulo 2^min(width,1)
CONSTANTS
  RingBits = 1
  Mode = "three"
  Sample = TRUE
  Runs = 40
  ExhaustInputs = FALSE
  ViewRoots = FALSE
SPECIFICATION MacroSpec
INVARIANT C02Three
CHECK_DEADLOCK FALSE
