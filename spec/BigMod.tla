------------------------------- MODULE BigMod -------------------------------
(***************************************************************************)
(* Multi-limb arithmetic for TLC (whose integers are 32 bit).              *)
(*                                                                         *)
(* A natural number is a little-endian sequence of base-256 limbs.  All    *)
(* operators that combine two numbers expect equal lengths; arithmetic is  *)
(* modulo 256^Len.  A ring element of width ww bits (Z_{2^ww}) is a        *)
(* sequence of NLimbs(ww) limbs whose top limb is reduced to the bits that *)
(* belong to the width (ww = 1, 2, 3 are used by the small models, 8..128  *)
(* by the real scalar types).                                              *)
(* An integer (of either sign) is a record [neg |-> BOOLEAN, mag |-> limbs]*)
(* with mag # 0 when neg.                                                  *)
(* Parameter names are deliberately unusual: they must never coincide with *)
(* a VARIABLE of a module that extends this one (docs/CONVENTIONS.md).     *)
(***************************************************************************)
EXTENDS Integers, Sequences, TLC

RECURSIVE BmPow2(_)
BmPow2(nn) == IF nn = 0 THEN 1 ELSE 2 * BmPow2(nn - 1)

NLimbs(ww) == (ww + 7) \div 8
TopMask(ww) == <<255, 1, 3, 7, 15, 31, 63, 127>>[(ww % 8) + 1]

LZero(ll) == [ii \in 1..ll |-> 0]
LOne(ll) == [ii \in 1..ll |-> IF ii = 1 THEN 1 ELSE 0]
LMax(ll) == [ii \in 1..ll |-> 255]
\* zero-extension or truncation to ll limbs
LPad(aa, ll) == [ii \in 1..ll |-> IF ii <= Len(aa) THEN aa[ii] ELSE 0]
LIsZero(aa) == \A ii \in 1..Len(aa) : aa[ii] = 0
IsLimbs(aa, ll) == Len(aa) = ll /\ \A ii \in 1..ll : aa[ii] \in 0..255

RECURSIVE LAddFrom(_, _, _, _)
LAddFrom(aa, bb, ii, cy) ==
  IF ii > Len(aa) THEN <<>>
  ELSE LET ss == aa[ii] + bb[ii] + cy IN <<ss % 256>> \o LAddFrom(aa, bb, ii + 1, ss \div 256)

\* (aa + bb) mod 256^Len(aa)
LAdd(aa, bb) == LAddFrom(aa, bb, 1, 0)
LNot(aa) == TLCEval([ii \in 1..Len(aa) |-> 255 - aa[ii]])
LNeg(aa) == LAdd(LNot(aa), LOne(Len(aa)))
LSub(aa, bb) == LAdd(aa, LNeg(bb))

\* unsigned comparison of equal-length numbers: -1, 0, 1
RECURSIVE LCmpFrom(_, _, _)
LCmpFrom(aa, bb, ii) ==
  IF ii = 0 THEN 0
  ELSE IF aa[ii] < bb[ii] THEN -1
  ELSE IF aa[ii] > bb[ii] THEN 1
  ELSE LCmpFrom(aa, bb, ii - 1)
LCmp(aa, bb) == LCmpFrom(aa, bb, Len(aa))
LLess(aa, bb) == LCmp(aa, bb) = -1
LLeq(aa, bb) == LCmp(aa, bb) <= 0

\* schoolbook product truncated to ll limbs (column sums stay below 2^31 for up to 32 limbs)
RECURSIVE LColSum(_, _, _, _)
LColSum(aa, bb, kk, ii) ==
  IF ii > kk THEN 0
  ELSE (IF ii <= Len(aa) /\ kk + 1 - ii <= Len(bb) THEN aa[ii] * bb[kk + 1 - ii] ELSE 0)
       + LColSum(aa, bb, kk, ii + 1)
RECURSIVE LMulFrom(_, _, _, _, _)
LMulFrom(aa, bb, kk, cy, ll) ==
  IF kk > ll THEN <<>>
  ELSE LET ss == cy + LColSum(aa, bb, kk, 1) IN <<ss % 256>> \o LMulFrom(aa, bb, kk + 1, ss \div 256, ll)
LMul(aa, bb, ll) == LMulFrom(aa, bb, 1, 0, ll)

\* natural number below 2^31 -> ll limbs; limbs -> natural number (only when it fits)
RECURSIVE LFromNat(_, _)
LFromNat(nn, ll) == IF ll = 0 THEN <<>> ELSE <<nn % 256>> \o LFromNat(nn \div 256, ll - 1)
RECURSIVE LToNatFrom(_, _)
LToNatFrom(aa, ii) == IF ii > Len(aa) THEN 0 ELSE aa[ii] + 256 * LToNatFrom(aa, ii + 1)
LToNat(aa) == LToNatFrom(aa, 1)

\* bit number bi (0-based) of a number
Pow2Tab == <<1, 2, 4, 8, 16, 32, 64, 128>>
LBit(aa, bi) == (aa[(bi \div 8) + 1] \div Pow2Tab[(bi % 8) + 1]) % 2

(***************************************************************************)
(* Ring elements of width ww                                               *)
(***************************************************************************)
RMask(aa, ww) == LET ll == NLimbs(ww) IN
  TLCEval([ii \in 1..ll |-> IF ii = ll THEN aa[ii] % (TopMask(ww) + 1) ELSE aa[ii]])
IsRing(aa, ww) == IsLimbs(aa, NLimbs(ww)) /\ aa[NLimbs(ww)] <= TopMask(ww)
RAdd(aa, bb, ww) == RMask(LAdd(aa, bb), ww)
RSub(aa, bb, ww) == RMask(LSub(aa, bb), ww)
RNeg(aa, ww) == RMask(LNeg(aa), ww)

(***************************************************************************)
(* Integers as sign and magnitude                                          *)
(***************************************************************************)
ZNat(mm) == [neg |-> FALSE, mag |-> mm]
ZOfInt(nn, ll) == IF nn < 0 THEN [neg |-> TRUE, mag |-> LFromNat(0 - nn, ll)]
                  ELSE [neg |-> FALSE, mag |-> LFromNat(nn, ll)]
\* the low ll limbs of the two's complement representation
ZTwos(zz, ll) == IF zz.neg THEN LNeg(LPad(zz.mag, ll)) ELSE LPad(zz.mag, ll)
\* canonical form: magnitude padded to ll limbs, zero is not negative
ZNorm(zz, ll) == [neg |-> zz.neg /\ ~LIsZero(zz.mag), mag |-> LPad(zz.mag, ll)]
\* reading of ll limbs as an unsigned / signed (two's complement) integer
ZUnsigned(aa) == [neg |-> FALSE, mag |-> aa]
ZSigned(aa) == IF aa[Len(aa)] >= 128 THEN [neg |-> TRUE, mag |-> LNeg(aa)] ELSE [neg |-> FALSE, mag |-> aa]
=============================================================================
