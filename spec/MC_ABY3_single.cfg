CONSTANTS
  RingBits = 1
  Mode = "single"
SPECIFICATION Spec
INVARIANT C01Single
CHECK_DEADLOCK FALSE
