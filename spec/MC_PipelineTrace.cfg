\* stage events recorded inside the real compile_context must be a behaviour of Pipeline
SPECIFICATION TSpec
POSTCONDITION Accepted
CHECK_DEADLOCK FALSE
