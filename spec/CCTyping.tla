------------------------------ MODULE CCTyping ------------------------------
(***************************************************************************)
(* The typing relation of the primitive operations:                        *)
(*     OpType(rec, ats)  \in  Type \cup {Err}                              *)
(* rec = operation record (JSON form of export.rs), ats = sequence of the  *)
(* argument types.  Transcribed rule by rule from                          *)
(* type_inference.rs::process_node (the acceptance rule of add_node);      *)
(* where the Graph method documentation (graphs.rs) is silent about what   *)
(* is accepted, this acceptance rule IS the definition (DESIGN.md C09/C10).*)
(*                                                                         *)
(* TLC cannot compare a record with a string, so the error result is the   *)
(* record Err = [k |-> "err"] (test with IsErr), not the string "err".     *)
(***************************************************************************)
EXTENDS CCOps

Err == [k |-> "err"]
IsErr(t) == t.k = "err"

\* TypeInferenceWorker::register_result: a result type that is not valid is an error
Reg(t) == IF ValidType(t) THEN t ELSE Err

Is128(st) == st \in {"u128", "i128"}
\* "UINT*" index types: unsigned, not a bit; 128-bit indices are rejected separately
IsIndexST(st) == st \in {"u8", "u16", "u32", "u64"}

AllDistinct(s) == \A i, j \in 1..Len(s) : i # j => s[i] # s[j]

---------------------------------------------------------------------------
\* broadcast.rs: broadcast_pair / broadcast_arrays (arguments are node types, hence valid)
BroadcastPair(t1, t2) ==
  IF IsErr(t1) THEN Err
  ELSE IF t1.st # t2.st THEN Err
  ELSE IF IsScalarT(t1) THEN t2
  ELSE IF IsScalarT(t2) THEN t1
  ELSE IF BroadcastOK(t1.sh, t2.sh) THEN ArrayT(BroadcastShape(t1.sh, t2.sh), t1.st)
  ELSE Err

RECURSIVE BroadcastFold(_, _, _)
BroadcastFold(ts, i, acc) ==
  IF i > Len(ts) THEN acc ELSE BroadcastFold(ts, i + 1, BroadcastPair(acc, ts[i]))

BroadcastTypes(ts) ==
  IF ts = <<>> \/ \E i \in 1..Len(ts) : ~IsNumT(ts[i]) THEN Err
  ELSE BroadcastFold(ts, 2, ts[1])

\* mixed_multiply_inference: integer (non-bit) times bit, result has the integer scalar type
MixedMultiplyType(t0, t1) ==
  IF ~IsNumT(t0) \/ ~IsNumT(t1) THEN Err
  ELSE IF t0.st = "b" \/ t1.st # "b" THEN Err
  ELSE IF IsScalarT(t1) THEN t0
  ELSE IF IsScalarT(t0) THEN ArrayT(t1.sh, t0.st)
  ELSE IF BroadcastOK(t0.sh, t1.sh) THEN ArrayT(BroadcastShape(t0.sh, t1.sh), t0.st)
  ELSE Err

\* dot_type_inference (numpy.dot)
DotType(t0, t1) ==
  IF ~IsNumT(t0) \/ ~IsNumT(t1) THEN Err
  ELSE IF t0.st # t1.st THEN Err
  ELSE IF IsArrayT(t0) /\ IsArrayT(t1)
       THEN LET s0 == t0.sh  s1 == t1.sh  r0 == Len(s0)  r1 == Len(s1) IN
            IF r0 = 1 /\ r1 = 1 THEN (IF s0[1] # s1[1] THEN Err ELSE ScalarT(t0.st))
            ELSE IF r1 = 1 THEN (IF s0[r0] # s1[1] THEN Err ELSE ArrayT(SubSeq(s0, 1, r0 - 1), t0.st))
            ELSE IF s0[r0] # s1[r1 - 1] THEN Err
            ELSE ArrayT(SubSeq(s0, 1, r0 - 1) \o SubSeq(s1, 1, r1 - 2) \o <<s1[r1]>>, t0.st)
  ELSE IF IsArrayT(t0) THEN t0
  ELSE t1

\* matmul_type_inference (numpy.matmul: rank-1 operands promoted, batch dimensions broadcast)
MatmulType(t0, t1) ==
  IF ~IsArrayT(t0) \/ ~IsArrayT(t1) THEN Err
  ELSE IF t0.st # t1.st THEN Err
  ELSE LET p0 == Len(t0.sh) = 1
           p1 == Len(t1.sh) = 1
           s0 == IF p0 THEN <<1>> \o t0.sh ELSE t0.sh
           s1 == IF p1 THEN t1.sh \o <<1>> ELSE t1.sh
           r0 == Len(s0)  r1 == Len(s1)
           b0 == SubSeq(s0, 1, r0 - 2)
           b1 == SubSeq(s1, 1, r1 - 2)
       IN IF s0[r0] # s1[r1 - 1] THEN Err
          ELSE IF ~BroadcastOK(b0, b1) THEN Err
          ELSE MkNum(BroadcastShape(b0, b1) \o (IF p0 THEN <<>> ELSE <<s0[r0 - 1]>>)
                                            \o (IF p1 THEN <<>> ELSE <<s1[r1]>>), t0.st)

TransposeShape(sh, flag) ==
  LET r == Len(sh) IN
  IF flag /\ r > 1 THEN [i \in 1..r |-> IF i = r - 1 THEN sh[r] ELSE IF i = r THEN sh[r - 1] ELSE sh[i]]
  ELSE sh

\* gemm_type_inference.  The ONNX Gemm documentation cited by Graph::gemm speaks of 2-D matrices only;
\* batch dimensions and their broadcasting are defined by this acceptance rule (DESIGN.md C10).
GemmType(t0, t1, ta, tb) ==
  IF ~IsArrayT(t0) \/ ~IsArrayT(t1) THEN Err
  ELSE IF t0.st # t1.st THEN Err
  ELSE IF Len(t0.sh) = 1 \/ Len(t1.sh) = 1 THEN Err
  ELSE LET s0 == TransposeShape(t0.sh, ta)
           s1 == TransposeShape(t1.sh, tb)
           r0 == Len(s0)  r1 == Len(s1)
           b0 == SubSeq(s0, 1, r0 - 2)
           b1 == SubSeq(s1, 1, r1 - 2)
       IN IF s0[r0] # s1[r1 - 1] THEN Err
          ELSE IF ~BroadcastOK(b0, b1) THEN Err
          ELSE ArrayT(BroadcastShape(b0, b1) \o <<s0[r0 - 1], s1[r1]>>, t0.st)

\* Truncate: the scale travels as a number (rec.scale, 0 when it does not fit 30 bits) and as a decimal
\* string rec.scale_s.  Scales above i128::MAX of the bounded universe:
HugeScales == {"170141183460469231731687303715884105728", "340282366920938463463374607431768211455"}
ScaleZero(rec) == rec.scale_s = "0"
ScaleHuge(rec) == rec.scale_s \in HugeScales

\* can_atomic_reshape on two leaves
LeafReshapeOK(l1, l2) ==
  /\ l1.st = l2.st
  /\ (IsArrayT(l1) => ValidShape(l1.sh))
  /\ (IsArrayT(l2) => ValidShape(l2.sh))
  /\ NumEl(l1) = NumEl(l2)

ReshapeType(old, new) ==
  IF NumLeaves(old) # NumLeaves(new) THEN Err
  ELSE LET f1 == FlattenT(old)  f2 == FlattenT(new) IN
       IF \A i \in 1..Len(f1) : LeafReshapeOK(f1[i], f2[i]) THEN Reg(new) ELSE Err

ConcatType(ats, axis) ==
  IF Len(ats) < 2 THEN Err
  ELSE IF \E i \in 1..Len(ats) : ~IsArrayT(ats[i]) THEN Err
  ELSE LET sh1 == ats[1].sh  r == Len(sh1) IN
       IF axis >= r THEN Err
       ELSE IF \E i \in 2..Len(ats) :
                  \/ ats[i].st # ats[1].st
                  \/ Len(ats[i].sh) # r
                  \/ \E d \in 1..Min2(r, Len(ats[i].sh)) : d # axis + 1 /\ ats[i].sh[d] # sh1[d]
            THEN Err
       ELSE ArrayT([d \in 1..r |-> IF d = axis + 1 THEN SumSeq([i \in 1..Len(ats) |-> ats[i].sh[d]]) ELSE sh1[d]],
                   ats[1].st)

\* number of node dependencies (get_number_of_node_dependencies); -1 = variable
Arity(op) ==
  CASE op \in {"Input", "Zeros", "Ones", "Random", "Constant", "RandomPermutation"} -> 0
    [] op \in {"Truncate", "Sum", "CumSum", "PermuteAxes", "InversePermutation", "CuckooToPermutation", "Sort",
               "Get", "GetSlice", "Reshape", "NOP", "PRF", "PermutationFromPRF", "A2B", "B2A", "TupleGet",
               "NamedTupleGet", "Repeat", "ArrayToVector", "VectorToArray", "DecomposeSwitchingMap", "Print",
               "Shard", "ShardWithColumnMasks"} -> 1
    [] op \in {"Add", "Subtract", "Multiply", "MixedMultiply", "Dot", "Matmul", "VectorGet", "Gather", "Iterate",
               "CuckooHash", "ApplyPermutation", "Join", "JoinWithColumnMasks", "Gemm", "Assert"} -> 2
    [] op = "SegmentCumSum" -> 3
    [] OTHER -> -1

IsPRFKey(t) == IsArrayT(t) /\ t.sh = <<128>> /\ t.st = "b"

OpTypeRaw(rec, ats) ==
  LET op == rec.op IN
  CASE op \in {"Input", "Zeros", "Ones"} -> Reg(rec.t)
    \* Random registers its type without a check of its own; register_result rejects invalid types
    [] op = "Random" -> Reg(rec.t)
    [] op = "RandomPermutation" -> IF rec.n = 0 THEN Err ELSE ArrayT(<<rec.n>>, "u64")
    \* Constant: the value must fit the type (check_type); cases of the model always carry a fitting value
    [] op = "Constant" -> Reg(rec.t)
    [] op \in {"Add", "Subtract", "Multiply"} -> BroadcastTypes(ats)
    [] op = "MixedMultiply" -> MixedMultiplyType(ats[1], ats[2])
    [] op = "Dot" -> DotType(ats[1], ats[2])
    [] op = "Matmul" -> MatmulType(ats[1], ats[2])
    [] op = "Gemm" -> GemmType(ats[1], ats[2], rec.ta, rec.tb)
    [] op = "Truncate" ->
         IF ScaleZero(rec) THEN Err
         ELSE IF ~IsNumT(ats[1]) THEN Err
         ELSE IF IsSigned(ats[1].st) /\ ScaleHuge(rec) THEN Err
         ELSE ats[1]
    [] op = "Sum" ->
         IF ~IsArrayT(ats[1]) THEN Err
         ELSE IF ~AllDistinct(rec.axes) THEN Err
         ELSE IF \E i \in 1..Len(rec.axes) : rec.axes[i] >= Len(ats[1].sh) THEN Err
         ELSE LET sh == ats[1].sh
                  keep == SelectSeq([d \in 1..Len(sh) |-> d],
                                    LAMBDA d : \A i \in 1..Len(rec.axes) : rec.axes[i] # d - 1)
              IN MkNum([i \in 1..Len(keep) |-> sh[keep[i]]], ats[1].st)
    [] op = "CumSum" ->
         IF ~IsArrayT(ats[1]) THEN Err
         ELSE IF rec.axis >= Len(ats[1].sh) THEN Err
         ELSE ats[1]
    [] op = "PermuteAxes" ->
         IF ~IsArrayT(ats[1]) THEN Err
         ELSE IF ~AllDistinct(rec.perm) THEN Err
         ELSE IF \E i \in 1..Len(rec.perm) : rec.perm[i] >= Len(ats[1].sh) THEN Err
         ELSE IF Len(rec.perm) # Len(ats[1].sh) THEN Err
         ELSE ArrayT([i \in 1..Len(rec.perm) |-> ats[1].sh[rec.perm[i] + 1]], ats[1].st)
    [] op = "InversePermutation" ->
         IF ~IsArrayT(ats[1]) THEN Err
         ELSE IF Is128(ats[1].st) \/ ~IsIndexST(ats[1].st) THEN Err
         ELSE IF Len(ats[1].sh) > 1 THEN Err
         ELSE ats[1]
    [] op = "CuckooToPermutation" ->
         IF ~IsArrayT(ats[1]) THEN Err ELSE IF ats[1].st # "u64" THEN Err ELSE ats[1]
    [] op = "DecomposeSwitchingMap" ->
         IF ~IsArrayT(ats[1]) THEN Err
         ELSE IF ats[1].st # "u64" THEN Err
         ELSE IF ats[1].sh[1] > rec.n THEN Err
         ELSE TupleT(<<ats[1], TupleT(<<ArrayT(ats[1].sh, "u64"), ArrayT(ats[1].sh, "b")>>), ats[1]>>)
    [] op = "Get" ->
         IF ~IsArrayT(ats[1]) THEN Err
         ELSE LET sh == ats[1].sh  ix == rec.index IN
              IF Len(ix) > Len(sh) THEN Err
              ELSE IF \E i \in 1..Len(ix) : ix[i] >= sh[i] THEN Err
              ELSE MkNum(SubSeq(sh, Len(ix) + 1, Len(sh)), ats[1].st)
    \* GetSlice: NumPy basic slicing, but (slices.rs get_slice_shape) every visited position must be in range
    \* and the selection must be non-empty -- NumPy would clip; the acceptance rule is the definition.
    [] op = "GetSlice" ->
         IF ~IsArrayT(ats[1]) THEN Err
         ELSE IF ~SliceOK(rec.slice, ats[1].sh) THEN Err
         ELSE MkNum(SliceShape(rec.slice, ats[1].sh), ats[1].st)
    [] op = "Reshape" -> ReshapeType(ats[1], rec.t)
    [] op \in {"NOP", "Print"} -> ats[1]
    [] op = "Assert" -> IF ats[1] # ScalarT("b") THEN Err ELSE ats[2]
    [] op = "PRF" -> IF IsPRFKey(ats[1]) THEN Reg(rec.t) ELSE Err
    [] op = "PermutationFromPRF" ->
         IF ~IsPRFKey(ats[1]) THEN Err ELSE IF rec.n < 1 THEN Err ELSE ArrayT(<<rec.n>>, "u64")
    [] op = "Stack" ->
         IF ~ValidShape(rec.sh) THEN Err
         ELSE IF Len(ats) # Prod(rec.sh) THEN Err
         ELSE LET inner == BroadcastTypes(ats) IN
              IF IsErr(inner) THEN Err ELSE ArrayT(rec.sh \o ShapeOf(inner), inner.st)
    [] op = "Concatenate" -> ConcatType(ats, rec.axis)
    [] op = "A2B" ->
         IF ~IsNumT(ats[1]) THEN Err
         ELSE IF ats[1].st = "b" THEN Err
         ELSE ArrayT(ShapeOf(ats[1]) \o <<BitsOf(ats[1].st)>>, "b")
    [] op = "B2A" ->
         IF ~IsArrayT(ats[1]) THEN Err
         ELSE IF ats[1].st # "b" THEN Err
         ELSE IF rec.st = "b" THEN Err
         ELSE LET sh == ats[1].sh IN
              IF sh[Len(sh)] # BitsOf(rec.st) THEN Err ELSE MkNum(SubSeq(sh, 1, Len(sh) - 1), rec.st)
    [] op = "CreateTuple" -> TupleT(ats)
    [] op = "CreateNamedTuple" ->
         IF Len(rec.nm) # Len(ats) THEN Err
         ELSE IF ~AllDistinct(rec.nm) THEN Err
         ELSE NamedT(rec.nm, ats)
    [] op = "CreateVector" ->
         IF \E i \in 1..Len(ats) : ats[i] # rec.t THEN Err ELSE Reg(VectorT(Len(ats), rec.t))
    [] op = "TupleGet" ->
         IF ats[1].k \notin {"t", "n"} THEN Err
         ELSE IF rec.i >= Len(ats[1].el) THEN Err
         ELSE ats[1].el[rec.i + 1]
    [] op = "NamedTupleGet" ->
         IF ats[1].k # "n" THEN Err
         ELSE IF \A i \in 1..Len(ats[1].nm) : ats[1].nm[i] # rec.key THEN Err
         ELSE ats[1].el[CHOOSE i \in 1..Len(ats[1].nm) : ats[1].nm[i] = rec.key]
    [] op = "VectorGet" ->
         IF ats[2] # ScalarT("u64") /\ ats[2] # ScalarT("u32") THEN Err
         ELSE IF ats[1].k # "v" THEN Err
         ELSE ats[1].of
    [] op = "Zip" ->
         IF Len(ats) < 2 THEN Err
         ELSE IF \E i \in 1..Len(ats) : ats[i].k # "v" THEN Err
         ELSE IF \E i \in 2..Len(ats) : ats[i].n # ats[1].n THEN Err
         ELSE VectorT(ats[1].n, TupleT([i \in 1..Len(ats) |-> ats[i].of]))
    [] op = "Repeat" -> VectorT(rec.n, ats[1])
    [] op = "ArrayToVector" ->
         IF ~IsArrayT(ats[1]) THEN Err
         ELSE VectorT(ats[1].sh[1], MkNum(Tail(ats[1].sh), ats[1].st))
    [] op = "VectorToArray" ->
         IF ats[1].k # "v" THEN Err
         ELSE IF ats[1].n = 0 THEN Err
         ELSE IF ~IsNumT(ats[1].of) THEN Err
         ELSE ArrayT(<<ats[1].n>> \o ShapeOf(ats[1].of), ats[1].of.st)
    \* Gather (numpy.take along one axis); at most as many indices as the axis is long (acceptance rule)
    [] op = "Gather" ->
         IF ~IsArrayT(ats[1]) THEN Err
         ELSE IF ~IsArrayT(ats[2]) THEN Err
         ELSE IF Is128(ats[2].st) \/ ~IsIndexST(ats[2].st) THEN Err
         ELSE IF rec.axis >= Len(ats[1].sh) THEN Err
         ELSE IF NumEl(ats[2]) > ats[1].sh[rec.axis + 1] THEN Err
         ELSE ArrayT(SubSeq(ats[1].sh, 1, rec.axis) \o ats[2].sh
                       \o SubSeq(ats[1].sh, rec.axis + 2, Len(ats[1].sh)), ats[1].st)
    [] op = "ApplyPermutation" ->
         IF ~IsArrayT(ats[1]) THEN Err
         ELSE IF ~IsArrayT(ats[2]) THEN Err
         ELSE IF Is128(ats[2].st) \/ ~IsIndexST(ats[2].st) THEN Err
         ELSE IF ats[2].sh # <<ats[1].sh[1]>> THEN Err
         ELSE ats[1]
    [] op = "SegmentCumSum" ->
         IF ~IsArrayT(ats[1]) THEN Err
         ELSE LET sh == ats[1].sh IN
              IF ats[2] # ArrayT(<<sh[1]>>, "b") THEN Err
              ELSE IF ats[3] # MkNum(Tail(sh), ats[1].st) THEN Err
              ELSE ArrayT(<<sh[1] + 1>> \o Tail(sh), ats[1].st)
    [] OTHER -> Err

\* operations whose typing is modelled here
TypedOps == {"Input", "Zeros", "Ones", "Random", "RandomPermutation", "Constant", "Add", "Subtract", "Multiply",
             "MixedMultiply", "Dot", "Matmul", "Gemm", "Truncate", "Sum", "CumSum", "PermuteAxes",
             "InversePermutation", "CuckooToPermutation", "DecomposeSwitchingMap", "Get", "GetSlice", "Reshape",
             "NOP", "Print", "Assert", "PRF", "PermutationFromPRF", "Stack", "Concatenate", "A2B", "B2A",
             "CreateTuple", "CreateNamedTuple", "CreateVector", "TupleGet", "NamedTupleGet", "VectorGet", "Zip",
             "Repeat", "ArrayToVector", "VectorToArray", "Gather", "ApplyPermutation", "SegmentCumSum"}

OpType(rec, ats) ==
  IF Arity(rec.op) >= 0 /\ Len(ats) # Arity(rec.op) THEN Err
  ELSE OpTypeRaw(rec, ats)
=============================================================================
