----------------------------- MODULE InstSemIO -----------------------------
(* Records written by `instsem run` (harness/src/bin/instsem.rs): one program over library custom operations *)
(* per line, with what the REAL builder, run_instantiation_pass and evaluator did.  IOEnv.C08_SEM = ndjson.   *)
EXTENDS Json, IOUtils
SemRecs == ndJsonDeserialize(IOEnv.C08_SEM)
=============================================================================
