\* C15: exact uniformity of rejection sampling on scaled sources, every modulus <= 64
CONSTANT ByteModuli = {3, 200, 256}
SPECIFICATION RjSpec
INVARIANT BoundIsOptimal
INVARIANT Unbiased
INVARIANT FewRejections
CHECK_DEADLOCK FALSE
