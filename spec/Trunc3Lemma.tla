------------------------------ MODULE Trunc3Lemma ------------------------------
(***************************************************************************)
(* The division-free limb relation TruncLimb!ElemOK coincides with the      *)
(* integer relation ABY3Run!TruncOutcomeOK at width 8, for every value,     *)
(* residue, scale and signedness (model-checked exhaustively).              *)
(***************************************************************************)
EXTENDS TruncLimb

LPow2Int(nn) == \E kk \in 0..30 : nn = BmPow2(kk)
LSignedOf(vv, mm, sgn) == IF sgn /\ vv >= mm \div 2 THEN vv - mm ELSE vv
LFloorDiv(aa, dd) == IF aa >= 0 THEN aa \div dd ELSE 0 - ((0 - aa + dd - 1) \div dd)
LTruncDiv(aa, dd) == IF aa >= 0 THEN aa \div dd ELSE 0 - ((0 - aa) \div dd)
LPosMod(aa, mm) == ((aa % mm) + mm) % mm
LCentered(aa, bb, mm) == LET df == LPosMod(aa - bb, mm) IN IF df >= mm \div 2 THEN df - mm ELSE df
LAbs(aa) == IF aa >= 0 THEN aa ELSE 0 - aa
\* verbatim copy of ABY3Run!TruncOutcomeOK (ABY3Run cannot be instantiated here: it imports programs at start-up)
IntOutcomeOK(a, o, scale, m, sg) ==
  IF LPow2Int(scale)
  THEN LET inrange == IF sg THEN a >= 0 - m \div 4 /\ a < m \div 4 ELSE a >= 0 /\ a < m \div 2
       IN inrange => LCentered(o, LFloorDiv(a, scale), m) \in {0, 1}
  ELSE \E k \in {-1, 0, 1} : LAbs(LCentered(o, LTruncDiv(a + k * m, scale), m)) <= 1

CONSTANT LemmaScales     \* {2, 4, 8, 16, 32, 64, 3, 5, 6, 7, 10, 100, 127} in the thorough tier
VARIABLES la, ls, lsg
lvars == <<la, ls, lsg>>
\* one initial state, two levels of successors (value, then scale and signedness) so that TLC's workers share the cases
LInit == la = -1 /\ ls = 0 /\ lsg = FALSE
LNext == \/ la = -1 /\ la' \in 0..255 /\ UNCHANGED <<ls, lsg>>
         \/ la >= 0 /\ ls = 0 /\ ls' \in LemmaScales /\ lsg' \in BOOLEAN /\ UNCHANGED la
LSpec == LInit /\ [][LNext]_lvars
LemmaHolds ==
  ls > 0 =>
  \A oo \in 0..255 :
     ElemOK(LFromNat(la, 1), LFromNat(oo, 1), LFromNat(ls, 1), 8, lsg, LPow2Int(ls))
       = IntOutcomeOK(LSignedOf(la, 256, lsg), oo, ls, 256, lsg)
=============================================================================
