------------------------------ MODULE EvalGraph ------------------------------
(***************************************************************************)
(* Whole-graph evaluation (evaluators.rs, Evaluator::evaluate_graph) as a   *)
(* state machine: nodes are evaluated in id order; the value of a node is   *)
(* dropped as soon as its last consumer has run, unless it is the output.   *)
(*                                                                          *)
(* Variables: the graph itself (chosen in Init: every DAG of at most N       *)
(* nodes whose nodes have at most two dependency slots, every output         *)
(* choice), pc = next node, live = nodes whose value is stored, cnt =        *)
(* remaining consumer slots per node, crashed = a dependency was missing.    *)
(*                                                                          *)
(* Properties (C09: "evaluates to a value ... never panics"):                *)
(*   NoMissingDependency  a value is never dropped before its last consumer  *)
(*   OutputSurvives       the output's value is stored when evaluation ends  *)
(*   Released             at the end only the output and never-consumed      *)
(*                        nodes are stored (the point of the bookkeeping)    *)
(* The binding to the code is the "graph" record of spec/OpsTrace.tla: the   *)
(* real evaluate_graph, on random graphs with a random output node, must     *)
(* agree with node-by-node evaluation and must not panic.                    *)
(***************************************************************************)
EXTENDS Integers, Sequences, FiniteSets

CONSTANT N

VARIABLES n, deps, out, pc, live, cnt, crashed
evars == <<n, deps, out, pc, live, cnt, crashed>>

DepSeqs(k) == {<<>>} \cup {<<a>> : a \in 1..(k - 1)} \cup {<<a, b>> : a, b \in 1..(k - 1)}

Slots(ds, d) == Cardinality({i \in 1..Len(ds) : ds[i] = d})
Consumers(dp, m, d) == LET RECURSIVE S(_) S(k) == IF k > m THEN 0 ELSE Slots(dp[k], d) + S(k + 1) IN S(1)

EInit == /\ n \in 1..N
         /\ deps \in [1..N -> UNION {DepSeqs(k) : k \in 1..N}]
         /\ \A k \in 1..N : IF k <= n THEN deps[k] \in DepSeqs(k) ELSE deps[k] = <<>>
         /\ out \in 1..n
         /\ pc = 1 /\ live = {} /\ crashed = FALSE
         /\ cnt = [d \in 1..N |-> Consumers(deps, n, d)]

\* evaluate node pc (evaluate_graph's loop body): needs every dependency; stores the result; then one decrement per
\* dependency slot, dropping a value when its count reaches zero unless it is the output
Step == /\ pc <= n /\ ~crashed
        /\ IF \E i \in 1..Len(deps[pc]) : deps[pc][i] \notin live
           THEN crashed' = TRUE /\ UNCHANGED <<n, deps, out, pc, live, cnt>>
           ELSE LET c2 == [d \in 1..N |-> cnt[d] - Slots(deps[pc], d)]
                    drop == {d \in 1..N : Slots(deps[pc], d) > 0 /\ c2[d] = 0 /\ d # out} IN
                /\ cnt' = c2
                /\ live' = (live \cup {pc}) \ drop
                /\ pc' = pc + 1
                /\ UNCHANGED <<n, deps, out, crashed>>

ESpec == EInit /\ [][Step]_evars

NoMissingDependency == ~crashed
OutputSurvives == pc = n + 1 => out \in live
Released == pc = n + 1 => \A d \in live : d = out \/ Consumers(deps, n, d) = 0
CountsExact == \A d \in 1..n : cnt[d] = Consumers(deps, n, d) - Consumers(deps, pc - 1, d)
=============================================================================
