------------------------------ MODULE Sharing ------------------------------
(***************************************************************************)
(* C14: three-party additive (replicated) secret sharing of typed values    *)
(* (typed_value.rs:810-873, replicated_shares.rs:497-592, mpc/utils.rs).    *)
(*                                                                         *)
(*   Share(v, r0, r1) = <<r0, r1, v - r0 - r1>>   component-wise over the   *)
(*   type, every leaf element in its ring Z_{2^w}.                          *)
(*   Party i (0..2) holds a three-tuple whose slots i and i+1 (mod 3) are   *)
(*   the genuine shares; slot i+2 is arbitrary (junk).                      *)
(*                                                                         *)
(* Ring elements are limb sequences (module BigMod), so that the very same  *)
(* operators judge the small models (Z_2, Z_4, Z_8: exhaustively) and the   *)
(* traces of the real code (all 11 scalar types).  Types are the JSON       *)
(* records of harness/src/export.rs; "z4" and "z8" are model-only rings.    *)
(* A leaf value is the flat sequence of its elements, a container value the *)
(* sequence of its components.                                              *)
(***************************************************************************)
EXTENDS BigMod, FiniteSets, TLC

SBits(st) == CASE st = "b" -> 1
               [] st = "z4" -> 2
               [] st = "z8" -> 3
               [] st \in {"u8", "i8"} -> 8
               [] st \in {"u16", "i16"} -> 16
               [] st \in {"u32", "i32"} -> 32
               [] st \in {"u64", "i64"} -> 64
               [] st \in {"u128", "i128"} -> 128

RECURSIVE SProd(_)
SProd(sq) == IF sq = <<>> THEN 1 ELSE Head(sq) * SProd(Tail(sq))
SNumEl(ty) == IF ty.k = "s" THEN 1 ELSE SProd(ty.sh)
SIsLeaf(ty) == ty.k \in {"s", "a"}
SComps(ty) == IF ty.k = "v" THEN [ii \in 1..ty.n |-> ty.of] ELSE ty.el

RECURSIVE VAdd(_, _, _)
VAdd(ty, va, vb) ==
  TLCEval(IF SIsLeaf(ty) THEN [ii \in 1..Len(va) |-> RAdd(va[ii], vb[ii], SBits(ty.st))]
  ELSE LET cs == SComps(ty) IN [ii \in 1..Len(cs) |-> VAdd(cs[ii], va[ii], vb[ii])])
RECURSIVE VSub(_, _, _)
VSub(ty, va, vb) ==
  TLCEval(IF SIsLeaf(ty) THEN [ii \in 1..Len(va) |-> RSub(va[ii], vb[ii], SBits(ty.st))]
  ELSE LET cs == SComps(ty) IN [ii \in 1..Len(cs) |-> VSub(cs[ii], va[ii], vb[ii])])
\* vv is a value of type ty: right shape, every element reduced modulo 2^w
RECURSIVE VHasType(_, _)
VHasType(ty, vv) ==
  IF SIsLeaf(ty) THEN Len(vv) = SNumEl(ty) /\ \A ii \in 1..Len(vv) : IsRing(vv[ii], SBits(ty.st))
  ELSE LET cs == SComps(ty) IN Len(vv) = Len(cs) /\ \A ii \in 1..Len(cs) : VHasType(cs[ii], vv[ii])

Share(ty, vv, r0, r1) == <<r0, r1, VSub(ty, VSub(ty, vv, r0), r1)>>
Reveal(ty, sh) == VAdd(ty, VAdd(ty, sh[1], sh[2]), sh[3])

(***************************************************************************)
(* Byte layout of values and re-typing (get_result_util.rs:100-125).        *)
(* get_evaluator_result accepts, for a graph input of type (gt, gt, gt), a  *)
(* plain value declared with ANOTHER type dt of the same layout (an i32 for *)
(* a graph taking 32 bits, ...): the value is re-read as a gt and it is     *)
(* THAT value, in the rings of gt, which must be shared and reconstructed.  *)
(* Leaves are little-endian, elements back to back; bits are packed         *)
(* LSB-first, eight per byte.  No recursion over the elements (arrays of    *)
(* hundreds of elements are judged).                                        *)
(***************************************************************************)
SLeafBits(ty) == SNumEl(ty) * SBits(ty.st)
LeafBytes(ty, vv) ==
  IF ty.st = "b"
  THEN [jj \in 1..((Len(vv) + 7) \div 8) |->
          LET bitAt(ii) == IF 8 * (jj - 1) + ii <= Len(vv) THEN vv[8 * (jj - 1) + ii][1] * Pow2Tab[ii] ELSE 0
          IN bitAt(1) + bitAt(2) + bitAt(3) + bitAt(4) + bitAt(5) + bitAt(6) + bitAt(7) + bitAt(8)]
  ELSE LET nb == NLimbs(SBits(ty.st)) IN
       [jj \in 1..(Len(vv) * nb) |-> vv[((jj - 1) \div nb) + 1][((jj - 1) % nb) + 1]]
LeafFromBytes(ty, bs) ==
  IF ty.st = "b" THEN [ee \in 1..SNumEl(ty) |-> <<LBit(bs, ee - 1)>>]
  ELSE LET nb == NLimbs(SBits(ty.st)) IN
       [ee \in 1..SNumEl(ty) |-> [ii \in 1..nb |-> bs[(ee - 1) * nb + ii]]]
\* a value declared as dt may stand for a gt: same tree, every leaf with the same number of bits
RECURSIVE SameLayout(_, _)
SameLayout(dt, gt) ==
  IF SIsLeaf(dt) \/ SIsLeaf(gt) THEN SIsLeaf(dt) /\ SIsLeaf(gt) /\ SLeafBits(dt) = SLeafBits(gt)
  ELSE LET cd == SComps(dt)
           cg == SComps(gt) IN Len(cd) = Len(cg) /\ \A ii \in 1..Len(cd) : SameLayout(cd[ii], cg[ii])
\* the value of type gt that has the bytes of the value vv of type dt
RECURSIVE Reinterp(_, _, _)
Reinterp(dt, gt, vv) ==
  IF dt = gt THEN vv
  ELSE IF SIsLeaf(dt) THEN TLCEval(LeafFromBytes(gt, LeafBytes(dt, vv)))
  ELSE LET cd == SComps(dt)
           cg == SComps(gt) IN [ii \in 1..Len(cd) |-> Reinterp(cd[ii], cg[ii], vv[ii])]

\* parties and slots are numbered 0..2; slot s is position s+1 of a three-tuple
Genuine(pp) == {pp, (pp + 1) % 3}
JunkSlot(pp) == (pp + 2) % 3
PartyView(pp, sh, junk) == [ss \in 1..3 |-> IF (ss - 1) \in Genuine(pp) THEN sh[ss] ELSE junk]
\* what parties pa # pb can compute together, using only their genuine slots
FromTwo(ty, va, pa, vb, pb) ==
  Reveal(ty, [ss \in 1..3 |-> IF (ss - 1) \in Genuine(pa) THEN va[ss] ELSE vb[ss]])
\* the two genuine slots of a party, in slot order
GenuinePair(pp, sh) == <<sh[pp + 1], sh[((pp + 1) % 3) + 1]>>

(***************************************************************************)
(* Exhaustive small models                                                 *)
(***************************************************************************)
Elems(st) == { <<ee>> : ee \in 0..(BmPow2(SBits(st)) - 1) }
RECURSIVE Dom(_)
RECURSIVE DomSeq(_, _)
DomSeq(cs, ii) == IF ii > Len(cs) THEN { <<>> }
                  ELSE { <<hd>> \o tl : hd \in Dom(cs[ii]), tl \in DomSeq(cs, ii + 1) }
Dom(ty) == IF SIsLeaf(ty) THEN [1..SNumEl(ty) -> Elems(ty.st)] ELSE DomSeq(SComps(ty), 1)

MS(st) == [k |-> "s", st |-> st]
MA(nn, st) == [k |-> "a", st |-> st, sh |-> <<nn>>]
MNest(st) == [k |-> "t", el |-> <<MS(st), MA(2, st)>>]
ModelTypesQuick == { MS("b"), MS("z4"), MS("z8"), MA(2, "b"), MA(2, "z4"), MA(3, "b"), MNest("b"),
                     [k |-> "v", n |-> 2, of |-> MS("z4")], [k |-> "n", nm |-> <<"p", "q">>, el |-> <<MS("b"), MS("z4")>>] }
ModelTypesThorough == ModelTypesQuick \cup { MA(2, "z8"), MNest("z4") }
CONSTANT Thorough
ModelTypes == IF Thorough THEN ModelTypesThorough ELSE ModelTypesQuick

VARIABLES mty, sec, shr, phase
svars == <<mty, sec, shr, phase>>

ShInit == mty \in ModelTypes /\ sec \in Dom(mty) /\ shr = <<>> /\ phase = "secret"
DoShare == /\ phase = "secret"
           /\ \E r0 \in Dom(mty), r1 \in Dom(mty) : shr' = Share(mty, sec, r0, r1)
           /\ phase' = "shared" /\ UNCHANGED <<mty, sec>>
\* a separate step so that the (expensive) distribution argument is evaluated by the workers
DoAudit == phase = "secret" /\ phase' = "audit" /\ UNCHANGED <<mty, sec, shr>>
ShNext == DoShare \/ DoAudit
ShSpec == ShInit /\ [][ShNext]_svars

\* junk is arbitrary; FromTwo must not depend on it: a few adversarial choices (the secret, genuine shares)
JunkSet(ty) == { sec, shr[3], shr[1] }

Reconstructs == phase = "shared" => /\ \A ss \in 1..3 : VHasType(mty, shr[ss])
                                    /\ Reveal(mty, shr) = sec
AnyTwoReconstruct == phase = "shared" =>
  \A pa \in 0..2, pb \in 0..2 : pa # pb =>
    \A ja \in JunkSet(mty) :
      FromTwo(mty, PartyView(pa, shr, ja), pa, PartyView(pb, shr, ja), pb) = sec

\* The view of one party (its two genuine slots) as the masks range over all values: every pair of
\* values occurs exactly once, for every secret.  Hence the bag of views is the same for all secrets
\* (and uniform): a single party learns nothing.
ViewsOf(pp) == { GenuinePair(pp, Share(mty, sec, r0, r1)) : r0 \in Dom(mty), r1 \in Dom(mty) }
ViewCount(pp, pr) == Cardinality({ rr \in Dom(mty) \X Dom(mty) : GenuinePair(pp, Share(mty, sec, rr[1], rr[2])) = pr })
SinglePartyUniform == phase = "audit" =>
  LET dd == Cardinality(Dom(mty)) IN
  /\ \A pp \in 0..2 : Cardinality(ViewsOf(pp)) = dd * dd
  \* the bag, literally, where it is small enough to count: every pair has multiplicity 1
  /\ dd <= 8 => \A pp \in 0..2 : \A pr \in Dom(mty) \X Dom(mty) : ViewCount(pp, pr) = 1
=============================================================================
