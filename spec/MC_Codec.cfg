\* C13: codec laws on every enumerated case + B1 corpus (byte layouts, check_type matrix)
SPECIFICATION CodecSpec
INVARIANT CodecLaws
INVARIANT Emit
CHECK_DEADLOCK FALSE
