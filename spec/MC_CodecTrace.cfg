\* C13: validation of the recorded behaviour of the real Value / TypedValue API
SPECIFICATION TraceSpec
INVARIANT TraceOK
CHECK_DEADLOCK FALSE
