\* ABY3Run, mode "three", integer types interpreted modulo 2^min(width,2)
CONSTANTS
  RingBits = 2
  Mode = "three"
  Sample = FALSE
  Runs = 1
  ExhaustInputs = FALSE
  ViewRoots = FALSE
SPECIFICATION MacroSpec
INVARIANT C02Three
CHECK_DEADLOCK FALSE
