------------------------------ MODULE Run3Trace ------------------------------
(***************************************************************************)
(* C02 at the real widths: validation of three-party executions of compiled *)
(* graphs performed by the conformance harness with the REAL evaluator       *)
(* (harness/src/party3.rs implements the runtime of spec/ABY3Run.tla: own    *)
(* store and own randomness per party, junk for inputs a party does not own, *)
(* values cross only at Send markers).                                       *)
(*                                                                           *)
(* One record per run: [ty, outs, expected, out], values as trees of          *)
(* base-256 limb sequences (integers are 32 bit in TLC), out[p] = "poison"    *)
(* when party p could not compute the output.  The final condition of        *)
(* ABY3Run!C02Three is judged here for every record:                         *)
(*   revealed output: every output party holds exactly the plaintext result; *)
(*   secret-shared output: share c held by party c equals share c held by    *)
(*   party c-1, and shares 0+1+2 (each taken from its owner) give the result. *)
(***************************************************************************)
EXTENDS CCTypes, BigMod, Json, IOUtils, TLC

Recs == ndJsonDeserialize(IOEnv.TRACE)

VARIABLES rix, rdone
rvars == <<rix, rdone>>

\* element-wise sum of two value trees of type t (leaves: sequences of limb sequences)
RECURSIVE AddTree(_, _, _)
AddTree(a, b, t) ==
  IF t.k \in {"s", "a"} THEN [e \in 1..Len(a) |-> RAdd(a[e], b[e], BitsOf(t.st))]
  ELSE LET cs == Components(t) IN [c \in 1..Len(cs) |-> AddTree(a[c], b[c], cs[c])]

Poisoned(v) == v = "poison"    \* only evaluated on the "ok" flags below, never on trees

Revealed(r) ==
  \A k \in 1..Len(r.outs) :
     LET p == r.outs[k] + 1 IN r.ok[p] /\ r.out[p] = r.expected

SharedOK(r) ==
  /\ \A p \in 1..3 : r.ok[p]
  \* party p (0-based) holds shares p and p+1: share c as held by its owner c and by party c-1
  /\ \A c \in 1..3 : r.out[c][c] = r.out[((c + 1) % 3) + 1][c]
  /\ AddTree(AddTree(r.out[1][1], r.out[2][2], r.ty), r.out[3][3], r.ty) = r.expected

Judge(r) == IF Len(r.outs) > 0 THEN Revealed(r) ELSE SharedOK(r)

\* C01 at full width: the same compiled graph evaluated on ONE store returns the plaintext result
\* (or three shares that add up to it)
SingleOK(r) ==
  /\ r.single_ok
  /\ IF Len(r.outs) > 0 THEN r.single = r.expected
     ELSE AddTree(AddTree(r.single[1], r.single[2], r.ty), r.single[3], r.ty) = r.expected

RInit == rix \in 1..Len(Recs) /\ rdone = FALSE
RNext == rdone = FALSE /\ rdone' = TRUE /\ UNCHANGED rix
RSpec == RInit /\ [][RNext]_rvars

\* every failing record is printed; the check reads the lines (so one run reports them all)
AllJudged == rdone => /\ (Judge(Recs[rix]) \/ PrintT(<<"BAD3", rix>>))
                      /\ (SingleOK(Recs[rix]) \/ PrintT(<<"BAD1", rix>>))
=============================================================================
