------------------------------- MODULE BitOps -------------------------------
(***************************************************************************)
(* Bit-level custom operations of CipherCore (properties C16, C17).        *)
(*                                                                         *)
(* Part 1  the FUNCTIONS, as one-line definitions on integers              *)
(*         (ops/comparisons.rs, min_max.rs, multiplexer.rs, adder.rs,      *)
(*          clip.rs, long_division.rs -- written from their doc comments). *)
(* Part 2  the same functions on bit strings of any width (no integer      *)
(*         arithmetic beyond indices), used to judge 16..128-bit cases.    *)
(* Part 3  the ALGORITHMS of the code as recursions: two-bit comparison    *)
(*         state with priority join and odd/even shrink, generate/         *)
(*         propagate carry tree, OR-reduction of clip, restoring division  *)
(*         with sign adjustment.                                           *)
(* MC_BitOpsAlg.cfg lets TLC prove  Part 3 = Part 1 = Part 2  for every    *)
(* operand pair of the small widths.                                       *)
(*                                                                         *)
(* A bit string is a sequence over {0,1}, least significant bit FIRST      *)
(* (the layout A2B produces).  Integer-level operands are the unsigned     *)
(* reading of the bit pattern, 0 .. 2^w-1.                                 *)
(***************************************************************************)
EXTENDS Integers, Sequences, FiniteSets, TLC

P2(n) == 2^n
B01(p) == IF p THEN 1 ELSE 0

-----------------------------------------------------------------------------
(* Reading bit strings *)

RECURSIVE U(_)
U(bits) == IF bits = <<>> THEN 0 ELSE bits[1] + 2 * U(Tail(bits))      \* unsigned value
S(bits) == U(bits) - bits[Len(bits)] * P2(Len(bits))                    \* two's complement value
Bits(v, w) == [i \in 1..w |-> (v \div P2(i-1)) % 2]                     \* inverse of U on 0..2^w-1
BitStrings(w) == [1..w -> {0,1}]

SInt(v, w) == IF v >= P2(w-1) THEN v - P2(w) ELSE v                     \* = S(Bits(v, w))
Val(sg, v, w) == IF sg = 1 THEN SInt(v, w) ELSE v

-----------------------------------------------------------------------------
(* Part 1: the functions.  a, b are bit patterns in 0..2^w-1; sg = 1 selects the signed reading. *)

CmpDef(op, sg, w, a, b) ==
    CASE op = "eq" -> B01(a = b)
      [] op = "ne" -> B01(a # b)
      [] op = "lt" -> B01(Val(sg, a, w) <  Val(sg, b, w))
      [] op = "le" -> B01(Val(sg, a, w) <= Val(sg, b, w))
      [] op = "gt" -> B01(Val(sg, a, w) >  Val(sg, b, w))
      [] op = "ge" -> B01(Val(sg, a, w) >= Val(sg, b, w))
MinDef(sg, w, a, b) == IF Val(sg, a, w) <= Val(sg, b, w) THEN a ELSE b
MaxDef(sg, w, a, b) == IF Val(sg, a, w) >= Val(sg, b, w) THEN a ELSE b

AddDef(w, a, b) == << (a + b) % P2(w), (a + b) \div P2(w) >>            \* <<sum mod 2^w, carry-out>>
MuxDef(sel, a, b) == IF sel = 1 THEN a ELSE b                            \* second operand where the selector is 1

\* Clip2K(k): w-bit signed input; 0 if input <= 0, input if 0 < input < 2^k, 2^k if input >= 2^k  (k <= w-2)
ClipDef(w, k, a) == LET v == SInt(a, w) IN IF v <= 0 THEN 0 ELSE IF v >= P2(k) THEN P2(k) ELSE v

\* floored division (NumPy // and %): q = floor(a/d), r = a - q*d has the divisor's sign; d # 0.
\* Results are w-bit patterns, i.e. taken modulo 2^w (signed min / -1 wraps to min like NumPy).
FloorDiv(n, d) == IF d > 0 THEN n \div d ELSE (0 - n) \div (0 - d)
\* The divisor may have its own width wb: the quotient has the dividend's width w, the remainder the divisor's.
DivDef2(sg, w, wb, a, d) ==
    LET av == Val(sg, a, w)  dv == Val(sg, d, wb)
        q == FloorDiv(av, dv)
    IN  << q % P2(w), (av - q * dv) % P2(wb) >>
DivDef(sg, w, a, d) == DivDef2(sg, w, w, a, d)

\* which (operation, width, parameter) combinations the documentation admits
IsPow2(n) == \E e \in 0..8 : n = P2(e)

-----------------------------------------------------------------------------
(* Part 2: the same functions on bit strings of arbitrary width. *)

ZeroB(w) == [i \in 1..w |-> 0]
OneB(w) == [i \in 1..w |-> IF i = 1 THEN 1 ELSE 0]
NotB(a) == [i \in 1..Len(a) |-> 1 - a[i]]

LtUB(a, b) == \E i \in 1..Len(a) : a[i] = 0 /\ b[i] = 1 /\ \A j \in (i+1)..Len(a) : a[j] = b[j]
LtSB(a, b) == LET w == Len(a) IN IF a[w] # b[w] THEN a[w] = 1 ELSE LtUB(a, b)
LtB(sg, a, b) == IF sg = 1 THEN LtSB(a, b) ELSE LtUB(a, b)
CmpB(op, sg, a, b) ==
    CASE op = "eq" -> B01(a = b)
      [] op = "ne" -> B01(a # b)
      [] op = "lt" -> B01(LtB(sg, a, b))
      [] op = "le" -> B01(~LtB(sg, b, a))
      [] op = "gt" -> B01(LtB(sg, b, a))
      [] op = "ge" -> B01(~LtB(sg, a, b))
MinB(sg, a, b) == IF ~LtB(sg, b, a) THEN a ELSE b
MaxB(sg, a, b) == IF ~LtB(sg, a, b) THEN a ELSE b

\* ripple-carry addition, one pass from the least significant bit: <<sum bits, carry-out>>
RECURSIVE AddRec(_, _, _, _, _)
AddRec(a, b, i, cin, acc) ==
    IF i > Len(a) THEN << acc, cin >>
    ELSE LET t == a[i] + b[i] + cin IN AddRec(a, b, i + 1, t \div 2, Append(acc, t % 2))
AddB(a, b) == AddRec(a, b, 1, 0, << >>)
SumB(a, b) == AddB(a, b)[1]
NegB(a) == SumB(NotB(a), OneB(Len(a)))
ShlB(a, n) == [i \in 1..Len(a) |-> IF i <= n THEN 0 ELSE a[i-n]]
\* shift-and-add product modulo 2^Len(a)
RECURSIVE MulRec(_, _, _, _)
MulRec(a, b, i, acc) ==
    IF i > Len(b) THEN acc
    ELSE MulRec(a, b, i + 1, IF b[i] = 1 THEN SumB(acc, ShlB(a, i - 1)) ELSE acc)
MulB(a, b) == MulRec(a, b, 1, ZeroB(Len(a)))
ExtU(a, n) == [i \in 1..n |-> IF i <= Len(a) THEN a[i] ELSE 0]
ExtS(a, n) == [i \in 1..n |-> IF i <= Len(a) THEN a[i] ELSE a[Len(a)]]
AbsB(a) == IF a[Len(a)] = 1 THEN NegB(a) ELSE a              \* read the result as unsigned
MinIntB(w) == [i \in 1..w |-> IF i = w THEN 1 ELSE 0]
AllOnesB(w) == [i \in 1..w |-> 1]

ClipB(k, a) ==
    LET w == Len(a) IN
    IF a[w] = 1 \/ a = ZeroB(w) THEN ZeroB(w)
    ELSE IF \E i \in (k+1)..(w-1) : a[i] = 1 THEN [i \in 1..w |-> IF i = k+1 THEN 1 ELSE 0]
    ELSE a

\* <<q, r>> is the floored quotient/remainder of a by d # 0: the defining identity is evaluated exactly
\* in 2w bits; the remainder is smaller than the divisor in magnitude and has its sign.
DivOKB(sg, a, d, q, r) ==
    LET w == Len(a)  w2 == 2 * Len(a) IN
    IF sg = 0
    THEN /\ SumB(MulB(ExtU(q, w2), ExtU(d, w2)), ExtU(r, w2)) = ExtU(a, w2)
         /\ LtUB(r, d)
    ELSE IF a = MinIntB(w) /\ d = AllOnesB(w)
    THEN q = MinIntB(w) /\ r = ZeroB(w)                      \* the one quotient that does not fit wraps
    ELSE /\ SumB(MulB(ExtS(q, w2), ExtS(d, w2)), ExtS(r, w2)) = ExtS(a, w2)
         /\ \/ r = ZeroB(w)
            \/ r[w] = d[w] /\ LtUB(AbsB(r), AbsB(d))

-----------------------------------------------------------------------------
(* Part 3a: comparison algorithm (comparisons.rs:107-254).  A component is <<a_equal_b, a>>;        *)
(* component i describes bit i.  For signed comparison the most significant bit of both operands   *)
(* is flipped first.                                                                               *)

CJoin(lo, hi) == << lo[1] * hi[1], (lo[2] * hi[1] + hi[2] * (1 - hi[1])) % 2 >>   \* hi has priority
CShrink(cs) == LET off == Len(cs) % 2 IN
    [i \in 1..((Len(cs) - off) \div 2) |-> CJoin(cs[off + 2*i - 1], cs[off + 2*i])]
RECURSIVE CRemainders(_)
CRemainders(cs) ==
    (IF Len(cs) % 2 = 1 THEN << cs[1] >> ELSE << >>) \o
    (IF Len(cs) <= 1 THEN << >> ELSE CRemainders(CShrink(cs)))
RECURSIVE CFold(_, _)
CFold(acc, rest) == IF rest = << >> THEN acc ELSE CFold(CJoin(acc, Head(rest)), Tail(rest))
FlipMsb(a) == [i \in 1..Len(a) |-> IF i = Len(a) THEN 1 - a[i] ELSE a[i]]
CmpState(sg, a, b) ==
    LET aa == IF sg = 1 THEN FlipMsb(a) ELSE a
        bb == IF sg = 1 THEN FlipMsb(b) ELSE b
        rem == CRemainders([i \in 1..Len(a) |-> << (aa[i] + bb[i] + 1) % 2, aa[i] >>])
    IN CFold(rem[1], Tail(rem))
\* results derived from the final state <<a_equal_b, a>>
CmpRes(op, st) ==
    LET eq == st[1]
        lt == (1 - st[2]) * (1 - eq)
        gt == st[2] * (1 - eq)
    IN CASE op = "eq" -> eq [] op = "ne" -> 1 - eq [] op = "lt" -> lt
         [] op = "gt" -> gt [] op = "ge" -> 1 - lt [] op = "le" -> 1 - gt
CmpAlg(op, sg, a, b) == CmpRes(op, CmpState(sg, a, b))
MuxAlgBit(sel, a, b) == (b + sel * ((b + a) % 2)) % 2                       \* multiplexer.rs, bit branch
\* min_max.rs: Min = Mux(GreaterThan(a,b), b, a), Max = Mux(GreaterThan(a,b), a, b), bit by bit
MinAlg(sg, a, b) == LET c == CmpAlg("gt", sg, a, b) IN [i \in 1..Len(a) |-> MuxAlgBit(c, b[i], a[i])]
MaxAlg(sg, a, b) == LET c == CmpAlg("gt", sg, a, b) IN [i \in 1..Len(a) |-> MuxAlgBit(c, a[i], b[i])]

(* Part 3b: carry computation of the adder (adder.rs:154-330).  A node is <<propagate, generate>>.  *)
GJoin(lo, hi) == << lo[1] * hi[1], (hi[2] + hi[1] * lo[2]) % 2 >>
GShrink(ns, ov) == LET nx == IF ov THEN Len(ns) \div 2 ELSE (Len(ns) - 1) \div 2 IN
    [i \in 1..nx |-> GJoin(ns[2*i - 1], ns[2*i])]
RECURSIVE GLevels(_, _)
GLevels(lv, ov) == IF Len(lv[Len(lv)]) > 1 THEN GLevels(Append(lv, GShrink(lv[Len(lv)], ov)), ov) ELSE lv
Interleave(s, t) == [i \in 1..(2 * Len(s)) |-> IF i % 2 = 1 THEN s[(i + 1) \div 2] ELSE t[i \div 2]]
RECURSIVE GPush(_, _, _)
\* walk the levels top-down (index n down to 1), doubling the known carries at each level
GPush(lv, n, cs) ==
    IF n = 0 THEN cs
    ELSE LET nd == lv[n]
             cnt == (Len(nd) + 1) \div 2
             new == [i \in 1..cnt |-> (nd[2*i-1][2] + nd[2*i-1][1] * cs[i]) % 2]
         IN GPush(lv, n - 1, Interleave(cs, new))
\* <<sum bits, carry-out or -1 when not requested>>; Len(a) must be a power of two
AddAlg(a, b, ov) ==
    LET w == Len(a)
        l0 == [i \in 1..w |-> << (a[i] + b[i]) % 2, a[i] * b[i] >>]
        lv == IF ov \/ w > 2 THEN GLevels(<< l0 >>, ov) ELSE << l0 >>
        cs == IF ~ov /\ w = 1 THEN << 0 >>
              ELSE IF ov THEN GPush(lv, Len(lv) - 1, << 0 >>) ELSE GPush(lv, Len(lv), << 0 >>)
        cout == IF ov THEN lv[Len(lv)][1][2] ELSE -1
    IN << [i \in 1..w |-> (l0[i][1] + cs[i]) % 2], cout >>

(* Part 3c: clip (clip.rs:50-122): OR of the bits k.. (sign bit included) selects the clipped value. *)
ClipAlg(k, a) ==
    LET w == Len(a)
        flag == B01(\E i \in (k+1)..w : a[i] = 1)
        clipped == [i \in 1..w |-> IF i = k + 1 THEN 1 - a[w] ELSE 0]
    IN [i \in 1..w |-> MuxAlgBit(flag, clipped[i], a[i])]

(* Part 3d: long division (long_division.rs:61-375) on w-bit registers, integers modulo m = 2^w.   *)
NegM(v, m) == (m - v) % m
RECURSIVE Restoring(_, _, _, _, _, _)
\* processes dividend bits i-1 .. 0; rem is the w-bit remainder register, quo the quotient so far
Restoring(i, dvd, minusd, m, rem, quo) ==
    IF i = 0 THEN << quo, rem >>
    ELSE LET out == (2 * rem) \div m                                \* the bit shifted out of the register
             sh == ((2 * rem) % m) + ((dvd \div P2(i-1)) % 2)      \* drop the top bit, append the next dividend bit
             sum == sh + minusd
             carry == sum \div m                                    \* carry-out of the adder
             qb == IF carry = 1 \/ out = 1 THEN 1 ELSE 0            \* quotient bit = carry OR shifted-out bit
         IN Restoring(i - 1, dvd, minusd, m, IF qb = 1 THEN sum % m ELSE sh, 2 * quo + qb)
\* dividend / quotient: w bits (modulus mq); divisor / remainder register: wb bits (modulus m)
DivAlg2(sg, w, wb, a, d) ==
    LET m == P2(wb)
        mq == P2(w)
        na == sg = 1 /\ a >= mq \div 2
        nd == sg = 1 /\ d >= m \div 2
        absa == IF na THEN NegM(a, mq) ELSE a
        absd == IF nd THEN NegM(d, m) ELSE d
        qr == Restoring(w, absa, NegM(absd, m), m, 0, 0)
        q0 == qr[1]  r0 == qr[2]
        resneg == na # nd
        q1 == IF resneg THEN (IF r0 = 0 THEN NegM(q0, mq) ELSE mq - 1 - q0) ELSE q0
        pr == IF r0 = 0 THEN r0 ELSE IF resneg THEN (absd + NegM(r0, m)) % m ELSE r0
        r1 == IF nd THEN NegM(pr, m) ELSE pr
    IN IF sg = 1 THEN << q1, r1 >> ELSE << q0, r0 >>
DivAlg(sg, w, a, d) == DivAlg2(sg, w, w, a, d)

-----------------------------------------------------------------------------
(* NumPy broadcasting of the leading ("row") dimensions; shapes are sequences, flat indices 0-based. *)
RECURSIVE ProdSeq(_)
ProdSeq(sq) == IF sq = << >> THEN 1 ELSE sq[1] * ProdSeq(Tail(sq))
BShape(sa, sb) ==
    LET r == IF Len(sa) >= Len(sb) THEN Len(sa) ELSE Len(sb)
        ea == [j \in 1..r |-> IF j <= r - Len(sa) THEN 1 ELSE sa[j - (r - Len(sa))]]
        eb == [j \in 1..r |-> IF j <= r - Len(sb) THEN 1 ELSE sb[j - (r - Len(sb))]]
    IN IF \A j \in 1..r : ea[j] = eb[j] \/ ea[j] = 1 \/ eb[j] = 1
       THEN [j \in 1..r |-> IF ea[j] = 1 THEN eb[j] ELSE ea[j]]
       ELSE << -1 >>
\* flat (0-based) position in an operand of shape sh of the element that output position i0 of shape so reads
BIdx(sh, so, i0) ==
    IF sh = so THEN i0 ELSE
    LET off == Len(so) - Len(sh)
        sto == [j \in 1..Len(so) |-> ProdSeq(SubSeq(so, j + 1, Len(so)))]
        sth == [j \in 1..Len(sh) |-> ProdSeq(SubSeq(sh, j + 1, Len(sh)))]
        term[j \in 0..Len(sh)] ==
            IF j = 0 THEN 0
            ELSE term[j-1] + (IF sh[j] = 1 THEN 0 ELSE ((i0 \div sto[j + off]) % so[j + off]) * sth[j])
    IN term[Len(sh)]
=============================================================================
