CONSTANTS
  Features = {"core", "names", "annot", "rollback"}
  Tier = "quick"
INIT Init
NEXT Next
VIEW View
INVARIANTS RoundTrip CorruptionsSafe NumCorruptions PrintPath
CHECK_DEADLOCK FALSE
