------------------------------ MODULE PRFTrace ------------------------------
(***************************************************************************)
(* C15, validation of what real evaluators returned (B1 replay results).    *)
(* IOEnv.TRACE: ndjson written by `values c15-prf`:                         *)
(*   hdr  the table of output types (as printed by PRFModel)                *)
(*   h    one executed history: per call the evaluator instance, key,       *)
(*        counter, type and the digest "<bytes>:<fnv64>" of the value that  *)
(*        SimpleEvaluator::evaluate_node returned (fresh instances per      *)
(*        history)                                                          *)
(*   out  the first output of every (key, counter, type): byte layout,      *)
(*        last byte of every leaf, the permutation itself when small        *)
(* The whole trace must be explained by ONE function table (variable tab of *)
(* PRFModel): TLC fills it lazily and requires every later call, in any     *)
(* history, instance and position, to agree (PureIn / Extend of PRFModel).  *)
(***************************************************************************)
EXTENDS PRFModel, IOUtils

Cd == INSTANCE Codec WITH cur <- 0
Rec == ndJsonDeserialize(IOEnv.TRACE)
Types == Rec[1].types

VARIABLES cur, seen,  \* record index; <<type, digest>> of wide outputs seen so far
          blocks      \* <<key, counter, 16-byte block (hex)>> of the byte-valued outputs seen so far

OutType(tr) == IF tr.k = "perm" THEN [k |-> "a", st |-> "u64", sh |-> <<tr.n>>] ELSE tr

IsPermutation(pm, nn) == Len(pm) = nn /\ { pm[ii] : ii \in 1..nn } = 0..(nn - 1)

\* the table after the calls of a history, with ok = FALSE if some call contradicts it
RECURSIVE RunHist(_, _, _)
RunHist(tb, rr, ii) ==
  IF ii > Len(rr.ev) THEN [ok |-> TRUE, tb |-> tb]
  ELSE IF ~PureIn(tb, rr.key[ii], rr.ctr[ii], rr.ty[ii], rr.dg[ii]) THEN [ok |-> FALSE, tb |-> tb]
  ELSE RunHist(Extend(tb, rr.key[ii], rr.ctr[ii], rr.ty[ii], rr.dg[ii]), rr, ii + 1)

Wide(rr) == LET tr == Types[rr.ty] IN IF tr.k = "perm" THEN tr.n >= 64 ELSE rr.bits >= 64

OutFacets(rr) == LET ty == OutType(Types[rr.ty]) IN
  << <<"single_table", PureIn(tab, rr.key, rr.ctr, rr.ty, rr.dg)>>,
     <<"in_domain", Cd!Accepts(rr.lay, ty) /\ Cd!FlushOK(ty, rr.lastb)>>,
     <<"permutation", (Types[rr.ty].k = "perm" /\ rr.perm # <<>>) => IsPermutation(rr.perm, Types[rr.ty].n)>>,
     \* different (key, counter) pairs give different outputs (for outputs of at least 64 bits)
     <<"distinct_outputs", Wide(rr) => <<rr.ty, rr.dg>> \notin seen>>,
     \* different (key, counter) give unrelated values: no 16-byte block of this output occurs in an output seen
     \* before under another (key, counter) -- outputs of different types under the same (key, counter) are prefixes
     \* of one stream by design -- nor twice in this one (honest 128-bit blocks collide with probability < 2^-100)
     <<"unrelated_blocks", /\ \A ii \in 1..Len(rr.blk) : \A bb \in blocks :
                                (bb[3] = rr.blk[ii]) => (bb[1] = rr.key /\ bb[2] = rr.ctr)
                           /\ \A ii, jj \in 1..Len(rr.blk) : ii # jj => rr.blk[ii] # rr.blk[jj]>> >>
HistFacets(rr) ==
  << <<"evaluated", \A ii \in 1..Len(rr.dg) : rr.dg[ii] \notin {"err", "panic"}>>,
     <<"single_table", RunHist(tab, rr, 1).ok>> >>
Failing(fs) == { fs[ii][1] : ii \in { jj \in 1..Len(fs) : ~fs[jj][2] } }

TraceInit == cur = 2 /\ seen = {} /\ blocks = {} /\ tab = <<>> /\ hist = <<>> /\ mode = "trace" /\ cache = <<>>
Step(rr) ==
  IF rr.kind = "out"
  THEN /\ tab' = Extend(tab, rr.key, rr.ctr, rr.ty, rr.dg)
       /\ seen' = IF Wide(rr) THEN seen \cup {<<rr.ty, rr.dg>>} ELSE seen
       /\ blocks' = blocks \cup {<<rr.key, rr.ctr, rr.blk[ii]>> : ii \in 1..Len(rr.blk)}
  ELSE /\ tab' = (LET rh == RunHist(tab, rr, 1) IN IF rh.ok THEN rh.tb ELSE tab)
       /\ seen' = seen
       /\ blocks' = blocks
TraceNext == /\ cur <= Len(Rec)
             /\ Step(Rec[cur])
             /\ cur' = cur + 1
             /\ UNCHANGED <<hist, mode, cache>>
TraceSpec == TraceInit /\ [][TraceNext]_<<cur, seen, blocks, tab, hist, mode, cache>>
\* every record is judged in the state that holds the table built from the records before it
TraceOK == cur <= Len(Rec) =>
  LET rr == Rec[cur]
      bad == Failing(IF rr.kind = "out" THEN OutFacets(rr) ELSE HistFacets(rr)) IN
  bad = {} \/ PrintT(<<"BAD", cur, bad>>)
\* all records consumed
Done == cur = Len(Rec) + 1
=============================================================================
