SPECIFICATION Spec
INVARIANT ArithInv
CHECK_DEADLOCK FALSE
