----------------------------- MODULE MC_ProgGen -----------------------------
(* Alphabets for ProgGen (cfg files cannot spell records). *)
EXTENDS ProgGen

BitTypes == {ScalarT("b"), ArrayT(<<2>>, "b")}
BitTypes2 == {ScalarT("b"), ArrayT(<<2>>, "b"), ArrayT(<<2, 2>>, "b")}
RingTypes == {ScalarT("i32"), ArrayT(<<2>>, "i32")}
MixTypes == {ScalarT("b"), ArrayT(<<2>>, "b"), ScalarT("u8"), ArrayT(<<2>>, "u8")}

ArithOps == {"Add", "Subtract", "Multiply"}
ArithDotOps == {"Add", "Subtract", "Multiply", "Dot", "Matmul"}
AllBinOps == {"Add", "Subtract", "Multiply", "Dot", "Matmul", "MixedMultiply", "CreateTuple"}

NoUn == {}
SumUn == {[op |-> "Sum", axes |-> <<0>>]}
StructUn == {[op |-> "Sum", axes |-> <<0>>], [op |-> "TupleGet", i |-> 0], [op |-> "TupleGet", i |-> 1],
             [op |-> "Get", index |-> <<1>>], [op |-> "Repeat", n |-> 2], [op |-> "VectorToArray"],
             [op |-> "NOP"], [op |-> "A2B"], [op |-> "PermuteAxes", perm |-> <<1, 0>>]}
=============================================================================
