------------------------------- MODULE Pipeline -------------------------------
(***************************************************************************)
(* The compilation pipeline of compile_context (mpc_compiler.rs:1163-1284)  *)
(* as a state machine: one action per pass, in the order the code runs      *)
(* them, with the contract each pass establishes on the summary of the      *)
(* context it returns:                                                      *)
(*                                                                          *)
(*   Begin -> Instantiate -> Inline -> Optimize            (prepare_context) *)
(*         -> CompileMPC -> InstantiateMPC -> InlineMPC -> UniquifyPRF       *)
(*         -> OptimizeFinal -> End                                           *)
(*                                                                          *)
(* Summary of a context: number of graphs, nodes of the main graph, number  *)
(* of Custom nodes, of Call/Iterate nodes, the sequence of PRF counters,    *)
(* the number of randomising nodes, the main graph's inputs (name, type)    *)
(* and its output type.                                                     *)
(*                                                                          *)
(* PipelineTrace validates the events recorded by the stage-tracer hook     *)
(* INSIDE the real compile_context against this machine: the stages must    *)
(* occur in this order, none missing, and every contract must hold.         *)
(***************************************************************************)
EXTENDS Integers, Sequences, FiniteSets, TLC

VARIABLES pstage,   \* name of the last completed stage ("idle" before Begin and after End)
          cur,      \* summary of the current context
          src       \* summary of the user's context (as handed to compile_context) and of the MPC source

pvars == <<pstage, cur, src>>

Order == <<"idle", "prep.source", "prep.instantiated", "prep.inlined", "prep.optimized",
           "mpc.source", "mpc.compiled", "mpc.instantiated", "mpc.inlined", "mpc.uniquified", "final.optimized">>

Distinct(sq) == \A a, b \in 1..Len(sq) : a # b => sq[a] # sq[b]
SeqRange(sq) == {sq[k] : k \in 1..Len(sq)}

SameContext(a, b) == /\ a.graphs = b.graphs /\ a.main_nodes = b.main_nodes /\ a.custom = b.custom /\ a.calls = b.calls
                     /\ a.prf = b.prf /\ a.rnd = b.rnd /\ a.inputs = b.inputs /\ a.out_ty = b.out_ty

\* What full inlining of the main graph must produce, from the call structure of the context before it: every graph
\* contributes its own randomising (PRF) nodes once per copy, a Call makes one copy of the callee (callees precede callers).
\* Contexts with Iterate nodes are left out: the depth-optimised inliners copy a body a strategy-dependent number of times.
RECURSIVE TotFrom(_, _, _, _)
TotFrom(gr, fld, g, acc) ==
  IF g > Len(gr) THEN acc
  ELSE LET own == IF fld = "rnd" THEN gr[g].rnd ELSE gr[g].prf
           RECURSIVE SumCalls(_)
           SumCalls(k) == IF k > Len(gr[g].calls) THEN 0 ELSE gr[g].calls[k][2] * acc[gr[g].calls[k][1]] + SumCalls(k + 1)
       IN TotFrom(gr, fld, g + 1, TLCEval(Append(acc, own + SumCalls(1))))
InlinedCount(b, fld) == TotFrom(b.gr, fld, 1, <<>>)[b.main]
InliningKeepsRandomness(b, s) ==
  b.iterates = 0 => /\ s.rnd = InlinedCount(b, "rnd")             \* no two copies share a Random node, none is lost
                    /\ Len(s.prf) = InlinedCount(b, "prf")

\* the contract of the pass that produces stage `st` from summary `before` (s = the produced summary)
Contract(st, before, orig, s) ==
  CASE st = "prep.source" -> TRUE
    [] st = "prep.instantiated" -> s.custom = 0                              \* every Custom node became a Call
    [] st = "prep.inlined" -> s.custom = 0 /\ s.calls = 0 /\ s.graphs = 1      \* fully inlined, one graph
                              /\ s.inputs = orig.inputs /\ s.out_ty = orig.out_ty
                              /\ InliningKeepsRandomness(before, s)
    [] st = "prep.optimized" -> /\ s.custom = 0 /\ s.calls = 0 /\ s.graphs = 1
                                /\ s.inputs = before.inputs /\ s.out_ty = before.out_ty   \* interface kept (C06)
                                /\ s.main_nodes <= before.main_nodes
                                /\ s.rnd <= before.rnd /\ Len(s.prf) <= Len(before.prf)
    [] st = "mpc.source" -> SameContext(s, before)                            \* the MPC compiler starts from the optimised context
    [] st = "mpc.compiled" -> Len(s.inputs) = Len(before.inputs)              \* one compiled input per source input, in order
                              /\ \A k \in 1..Len(s.inputs) : s.inputs[k].name = before.inputs[k].name
    [] st = "mpc.instantiated" -> s.custom = 0
    [] st = "mpc.inlined" -> s.custom = 0 /\ s.calls = 0 /\ s.graphs = 1
                             /\ InliningKeepsRandomness(before, s)
    [] st = "mpc.uniquified" -> /\ s.calls = 0 /\ s.graphs = 1
                                /\ Len(s.prf) = Len(before.prf) /\ s.rnd = before.rnd     \* neither drops nor adds
                                /\ Distinct(s.prf) /\ \A k \in 1..Len(s.prf) : s.prf[k] >= 1
                                /\ s.main_nodes = before.main_nodes /\ s.inputs = before.inputs
    [] st = "final.optimized" -> /\ s.calls = 0 /\ s.custom = 0 /\ s.graphs = 1
                                 /\ Distinct(s.prf) /\ SeqRange(s.prf) \subseteq SeqRange(before.prf)   \* C04
                                 /\ s.rnd <= before.rnd
                                 /\ s.inputs = before.inputs /\ s.out_ty = before.out_ty
                                 /\ s.main_nodes <= before.main_nodes

NextStage(st) == Order[(CHOOSE k \in 1..Len(Order) : Order[k] = st) + 1]

Empty == [graphs |-> 0]

PInit == pstage = "idle" /\ cur = Empty /\ src = Empty

\* a pass completes and returns the context summarised by s
Pass(s) ==
  /\ pstage # "final.optimized"
  /\ s.ev = NextStage(pstage)
  /\ s.finalized
  /\ Contract(s.ev, cur, src, s)
  /\ pstage' = s.ev
  /\ cur' = s
  /\ src' = IF s.ev = "prep.source" THEN s ELSE src

Finish == pstage = "final.optimized" /\ pstage' = "idle" /\ cur' = Empty /\ src' = Empty
=============================================================================
