------------------------------- MODULE InstSem -------------------------------
(***************************************************************************)
(* C08, "the library's definition of each operation": typing rule and      *)
(* value of the library custom operations on arrays, written from their    *)
(* doc comments (ops/comparisons.rs, min_max.rs, clip.rs, multiplexer.rs,  *)
(* integer_key_sort.rs, custom_ops.rs Not/Or), on top of the element-level *)
(* definitions of BitOps (bit strings of ANY width, no integer arithmetic  *)
(* beyond indices) and the stable-sort rank of Relational.                 *)
(*                                                                         *)
(* Types are the records of harness/src/export.rs:                         *)
(*   [k |-> "s", st |-> "b"]   [k |-> "a", st |-> "u8", sh |-> <<2, 3>>]   *)
(*   [k |-> "n", nm |-> <<names>>, el |-> <<types>>]    ErrT = ill-typed   *)
(* Data: arrays / scalars = flat row-major sequence of elements (BIT: 0/1, *)
(* integer types: bit string, least significant bit first); named tuple =  *)
(* sequence of the columns' data.                                          *)
(*                                                                         *)
(* A program is a sequence of nodes (inputs, custom operations applied to  *)
(* earlier nodes, create_named_tuple, named_tuple_get): EvalProg evaluates *)
(* it node by node -- custom operations nested in each other's arguments,  *)
(* used several times, with any parameters.                                *)
(***************************************************************************)
EXTENDS Relational

ErrT == [k |-> "err"]
IsArr(t) == t.k = "a"
IsSc(t) == t.k = "s"
IsNum(t) == t.k \in {"a", "s"}
ShapeOf(t) == IF t.k = "a" THEN t.sh ELSE << >>
MkT(st, sh) == IF sh = << >> THEN [k |-> "s", st |-> st] ELSE [k |-> "a", st |-> st, sh |-> sh]
Front(sq) == SubSeq(sq, 1, Len(sq) - 1)
LastOf(sq) == sq[Len(sq)]
IntSTs == {"u8", "i8", "u16", "i16", "u32", "i32", "u64", "i64", "u128", "i128"}
SignedSTs == {"i8", "i16", "i32", "i64", "i128"}
BadShape(sh) == sh = << -1 >>

CmpFams == {"GreaterThan", "LessThan", "GreaterThanEqualTo", "LessThanEqualTo", "Equal", "NotEqual"}
CmpCode(fam) == CASE fam = "GreaterThan" -> "gt" [] fam = "LessThan" -> "lt" [] fam = "GreaterThanEqualTo" -> "ge"
                  [] fam = "LessThanEqualTo" -> "le" [] fam = "Equal" -> "eq" [] fam = "NotEqual" -> "ne"
\* Equal / NotEqual have no signedness parameter
SgOf(nd) == IF nd.fam \in {"Equal", "NotEqual"} THEN 0 ELSE nd.sg

-----------------------------------------------------------------------------
(* Typing: the result type of an operation on argument types, ErrT when the documentation does not admit them. *)

\* two arrays of bit strings of the same length w (last dimension), rows broadcastable; signed: w >= 2
BitPairOK(sg, ta, tb) ==
    /\ IsArr(ta) /\ IsArr(tb) /\ ta.st = "b" /\ tb.st = "b"
    /\ LastOf(ta.sh) = LastOf(tb.sh)
    /\ (sg = 1 => LastOf(ta.sh) >= 2)
    /\ ~BadShape(BShape(Front(ta.sh), Front(tb.sh)))

TypeOfOp(nd, ts) ==
    CASE nd.fam \in CmpFams ->
           IF Len(ts) = 2 /\ BitPairOK(SgOf(nd), ts[1], ts[2])
           THEN MkT("b", BShape(Front(ts[1].sh), Front(ts[2].sh))) ELSE ErrT
      [] nd.fam \in {"Min", "Max"} ->
           IF Len(ts) = 2 /\ BitPairOK(nd.sg, ts[1], ts[2])
           THEN MkT("b", Append(BShape(Front(ts[1].sh), Front(ts[2].sh)), LastOf(ts[1].sh))) ELSE ErrT
      [] nd.fam = "Clip2K" ->
           IF Len(ts) = 1 /\ IsArr(ts[1]) /\ ts[1].st = "b" /\ nd.kk + 2 <= LastOf(ts[1].sh) THEN ts[1] ELSE ErrT
      [] nd.fam = "Mux" ->       \* a flag of bits, two choices of one scalar type (bits or integers), all three broadcast
           IF Len(ts) = 3 /\ (\A j \in 1..3 : IsNum(ts[j])) /\ ts[1].st = "b" /\ ts[2].st = ts[3].st
           THEN LET sh == BShape(BShape(ShapeOf(ts[1]), ShapeOf(ts[2])), ShapeOf(ts[3]))
                IN IF BadShape(BShape(ShapeOf(ts[1]), ShapeOf(ts[2]))) \/ BadShape(sh) THEN ErrT ELSE MkT(ts[2].st, sh)
           ELSE ErrT
      [] nd.fam = "Not" ->
           IF Len(ts) = 1 /\ IsNum(ts[1]) /\ ts[1].st = "b" THEN ts[1] ELSE ErrT
      [] nd.fam = "Or" ->
           IF Len(ts) = 2 /\ \A j \in 1..2 : IsNum(ts[j]) /\ ts[j].st = "b"
           THEN LET sh == BShape(ShapeOf(ts[1]), ShapeOf(ts[2])) IN IF BadShape(sh) THEN ErrT ELSE MkT("b", sh)
           ELSE ErrT
      [] nd.fam = "SortByIntegerKey" ->
           \* a table: named tuple of arrays with a common first dimension; the key column is a 1-dimensional array of
           \* integers (or bits); every other column has any scalar type and any row shape.  The result has the type of
           \* the argument: same columns, same order, same scalar types.
           IF /\ Len(ts) = 1 /\ ts[1].k = "n"
              /\ \A j \in 1..Len(ts[1].el) : IsArr(ts[1].el[j]) /\ ts[1].el[j].sh[1] = ts[1].el[1].sh[1]
              /\ \E j \in 1..Len(ts[1].nm) : /\ ts[1].nm[j] = nd.key
                                             /\ Len(ts[1].el[j].sh) = 1
                                             /\ ts[1].el[j].st \in IntSTs \cup {"b"}
           THEN ts[1] ELSE ErrT
      [] OTHER -> ErrT

-----------------------------------------------------------------------------
(* Values *)

RowAt(d, w, r0) == SubSeq(d, r0 * w + 1, r0 * w + w)                  \* r0-th (0-based) bit string of a flat array
Flatten(rows, w) == [j \in 1..(Len(rows) * w) |-> rows[((j - 1) \div w) + 1][((j - 1) % w) + 1]]

\* element-wise binary function on bit strings with broadcasting of the row dimensions
RowWise(F(_, _), ta, da, tb, db) ==
    LET w == LastOf(ta.sh)
        ra == Front(ta.sh)  rb == Front(tb.sh)
        so == TLCEval(BShape(ra, rb))        \* (BShape is a chain of lazy functions: evaluate it once)
    IN TLCEval([i \in 1..ProdSeq(so) |-> F(RowAt(da, w, BIdx(ra, so, i - 1)), RowAt(db, w, BIdx(rb, so, i - 1)))])

ValOfOp(nd, ts, ds) ==
    CASE nd.fam \in CmpFams ->
           RowWise(LAMBDA p, q : CmpB(CmpCode(nd.fam), SgOf(nd), p, q), ts[1], ds[1], ts[2], ds[2])
      [] nd.fam = "Min" ->
           Flatten(RowWise(LAMBDA p, q : MinB(nd.sg, p, q), ts[1], ds[1], ts[2], ds[2]), LastOf(ts[1].sh))
      [] nd.fam = "Max" ->
           Flatten(RowWise(LAMBDA p, q : MaxB(nd.sg, p, q), ts[1], ds[1], ts[2], ds[2]), LastOf(ts[1].sh))
      [] nd.fam = "Clip2K" ->
           LET w == LastOf(ts[1].sh) IN
           Flatten(TLCEval([i \in 1..ProdSeq(Front(ts[1].sh)) |-> ClipB(nd.kk, RowAt(ds[1], w, i - 1))]), w)
      [] nd.fam = "Mux" ->
           LET sf == ShapeOf(ts[1])  s1 == ShapeOf(ts[2])  s0 == ShapeOf(ts[3])
               so == TLCEval(BShape(BShape(sf, s1), s0))
           IN [i \in 1..ProdSeq(so) |-> MuxDef(ds[1][BIdx(sf, so, i - 1) + 1], ds[2][BIdx(s1, so, i - 1) + 1],
                                               ds[3][BIdx(s0, so, i - 1) + 1])]
      [] nd.fam = "Not" -> [i \in 1..Len(ds[1]) |-> 1 - ds[1][i]]
      [] nd.fam = "Or" ->
           LET sa == ShapeOf(ts[1])  sb == ShapeOf(ts[2])  so == TLCEval(BShape(sa, sb))
           IN [i \in 1..ProdSeq(so) |-> IF ds[1][BIdx(sa, so, i - 1) + 1] = 1 \/ ds[2][BIdx(sb, so, i - 1) + 1] = 1 THEN 1 ELSE 0]
      [] nd.fam = "SortByIntegerKey" ->
           \* stable sort of the rows of the table by the NUMERIC order of the key column (signed types: two's complement)
           LET tt == ts[1]
               n == tt.el[1].sh[1]
               kp == CHOOSE j \in 1..Len(tt.nm) : tt.nm[j] = nd.key
               kst == tt.el[kp].st
               sgn == IF kst \in SignedSTs THEN 1 ELSE 0
               keys == [i \in 1..n |-> IF kst = "b" THEN << ds[1][kp][i] >> ELSE ds[1][kp][i]]
               rk == TLCEval(Rank(keys, LAMBDA p, q : IntLess(sgn, p, q)))
               src == TLCEval([q \in 1..n |-> CHOOSE i \in 1..n : rk[i] = q])        \* row q of the result is row src[q] of the input
           IN [c \in 1..Len(tt.nm) |->
                 LET rs == ProdSeq(Tail(tt.el[c].sh)) IN
                 [j \in 1..(n * rs) |-> ds[1][c][(src[((j - 1) \div rs) + 1] - 1) * rs + ((j - 1) % rs) + 1]]]

-----------------------------------------------------------------------------
(* Programs.  Node fields: k ("in" | "op" | "nt" | "get"), t, ii, fam, sg, kk, key, names, name, args. *)

SeqMap(F(_), sq) == [j \in 1..Len(sq) |-> F(sq[j])]

\* type of node nd given the types of the earlier nodes
NodeType(nd, tys) ==
    LET ats == [j \in 1..Len(nd.args) |-> tys[nd.args[j]]] IN
    IF \E j \in 1..Len(ats) : ats[j] = ErrT THEN ErrT
    ELSE CASE nd.k = "in" -> nd.t
           [] nd.k = "op" -> TypeOfOp(nd, ats)
           [] nd.k = "nt" -> [k |-> "n", nm |-> nd.names, el |-> ats]
           [] nd.k = "get" -> IF ats[1].k = "n" /\ \E j \in 1..Len(ats[1].nm) : ats[1].nm[j] = nd.name
                              THEN ats[1].el[CHOOSE j \in 1..Len(ats[1].nm) : ats[1].nm[j] = nd.name] ELSE ErrT

RECURSIVE ProgTypes(_, _)
ProgTypes(nodes, acc) ==
    IF Len(acc) = Len(nodes) THEN acc
    ELSE ProgTypes(nodes, TLCEval(Append(acc, NodeType(nodes[Len(acc) + 1], acc))))

\* data of node nd given types of all nodes, data of the earlier nodes and the data of the inputs
NodeData(nd, tys, dat, ins) ==
    LET ats == [j \in 1..Len(nd.args) |-> tys[nd.args[j]]]
        ads == [j \in 1..Len(nd.args) |-> dat[nd.args[j]]]
    IN CASE nd.k = "in" -> ins[nd.ii]
         [] nd.k = "op" -> ValOfOp(nd, ats, ads)
         [] nd.k = "nt" -> ads
         [] nd.k = "get" -> ads[1][CHOOSE j \in 1..Len(ats[1].nm) : ats[1].nm[j] = nd.name]

RECURSIVE ProgData(_, _, _, _)
ProgData(nodes, tys, ins, acc) ==
    IF Len(acc) = Len(nodes) THEN acc
    ELSE ProgData(nodes, tys, ins, TLCEval(Append(acc, NodeData(nodes[Len(acc) + 1], tys, acc, ins))))
=============================================================================
