SPECIFICATION Spec
INVARIANT Inv
CHECK_DEADLOCK FALSE
