\* C08: judgement of the records of `inline c08-run` (IOEnv.C08_RUNS) against the dump (C08_OPS, C08_INSTS)
CONSTANTS
  SeedSize = 0
  AnyOrderUpTo = 0
SPECIFICATION TSpec
INVARIANT TJudge
CHECK_DEADLOCK FALSE
