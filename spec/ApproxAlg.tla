----------------------------- MODULE ApproxAlg -----------------------------
(***************************************************************************)
(* Design-level check for C20: the algorithms of the code (Approx part 2)  *)
(* meet the closeness relations and tolerances (Approx part 1) on EVERY    *)
(* input of scaled-down domains, for every iteration count, with the       *)
(* built-in initial guess and with every admissible caller-supplied one.   *)
(* One state per (configuration, input); the phase variable only moves the *)
(* work out of Init so that TLC's workers share it.                        *)
(*   Newton reciprocal     cap MINCAP..MAXCAP, d in (0, 2^(cap-1)), k 0..7  *)
(*   inverse square root   cap 2..MAXCAPSQ, d in (0, 2^(2cap-1)), k 0..7    *)
(*   Goldschmidt division  cap 2..MAXCAPG, all (n, d), k 1..7               *)
(*   piecewise-linear selection and evaluation (f = x*x) over EVERY word of *)
(*   a WD-bit two's complement type for the configurations PwlCfgs[1..MAXCFG]*)
(***************************************************************************)
EXTENDS Approx, IOUtils, Json

EnvN(nm, df) == IF nm \in DOMAIN IOEnv THEN atoi(IOEnv[nm]) ELSE df
MinCap == EnvN("MINCAP", 2)
MaxCap == EnvN("MAXCAP", 10)
MaxCapSq == EnvN("MAXCAPSQ", 6)
MaxCapG == EnvN("MAXCAPG", 6)
MaxK == 7

VARIABLES mcap, marg, mph
vars == << mcap, marg, mph >>
Next == mph = 0 /\ mph' = 1 /\ UNCHANGED << mcap, marg >>

Bad(what, rc) == PrintT(<< "DESIGN", ToJson([what |-> what] @@ rc) >>) /\ FALSE

(*-------------------------- Newton reciprocal ---------------------------*)
InitNewton == mcap \in MinCap..MaxCap /\ marg \in 1..(2 ^ (mcap - 1) - 1) /\ mph = 0
SpecNewton == InitNewton /\ [][Next]_vars

HiBit(dd) == CHOOSE hh \in 0..30 : 2 ^ hh <= dd /\ dd < 2 ^ (hh + 1)
NewtonOK(cap, dd) ==
    LET w0 == InitRecip(cap, dd)  ee == RecipExp(cap, dd) IN
    \* the bit-derived initial guess is 2^(cap - 1 - highest bit) and satisfies the documented precondition
    /\ w0 = 2 ^ (cap - 1 - HiBit(dd)) /\ NewtonInitJudged(cap, dd, w0) /\ dd * w0 <= 2 ^ cap
    /\ \A kk \in 0..MaxK :
         LET yy == NewtonAlg(cap, kk, dd)  tt == NewtonTol(cap, kk, ee) IN
         /\ (AbsV(yy - ee) <= tt) \/ Bad("newton", [cap |-> cap, k |-> kk, d |-> dd, y |-> yy, e |-> ee, tol |-> tt])
         \* the division-free statement is the same relation
         /\ RecipWithin(cap, dd, yy, tt) <=> (AbsV(yy - ee) <= tt)
    \* every caller-supplied initial approximation with |1 - d w / 2^cap| <= 1/2
    /\ \A ww \in ((2 ^ (cap - 1) + dd - 1) \div dd)..((3 * (2 ^ (cap - 1))) \div dd) : \A kk \in 0..MaxK :
         LET yy == NewtonIter(cap, kk, dd, ww)  tt == NewtonTol(cap, kk, ee) IN
         (AbsV(yy - ee) <= tt) \/ Bad("newton_init", [cap |-> cap, k |-> kk, d |-> dd, w |-> ww, y |-> yy, e |-> ee, tol |-> tt])
NewtonInv == mph = 1 => NewtonOK(mcap, marg)

(*-------------------------- inverse square root -------------------------*)
InitISqrtM == mcap \in 2..MaxCapSq /\ marg \in 1..(MinV(2 ^ (2 * mcap - 1), 2097152) - 1) /\ mph = 0
SpecISqrt == InitISqrtM /\ [][Next]_vars

ISqrtOK(cap, dd) ==
    LET w0 == InitISqrt(cap, dd)  ee == ISqrtExp(cap, dd) IN
    /\ ISqrtInitJudged(cap, dd, w0)
    /\ \A kk \in 0..MaxK :
         LET yy == ISqrtAlg(cap, kk, dd)  tt == ISqrtTol(cap, kk, ee) IN
         /\ (AbsV(yy - ee) <= tt) \/ Bad("isqrt", [cap |-> cap, k |-> kk, d |-> dd, y |-> yy, e |-> ee, tol |-> tt])
         /\ ISqrtWithin(cap, dd, yy, tt) <=> (AbsV(yy - ee) <= tt)
    \* every documented caller-supplied initial approximation: 4^(cap-1) <= d w^2 <= 4^cap
    /\ \A ww \in 1..(2 ^ cap) : ISqrtInitJudged(cap, dd, ww) => \A kk \in 0..MaxK :
         LET yy == ISqrtIter(cap, kk, dd, ww)  tt == ISqrtTol(cap, kk, ee) IN
         (AbsV(yy - ee) <= tt) \/ Bad("isqrt_init", [cap |-> cap, k |-> kk, d |-> dd, w |-> ww, y |-> yy, e |-> ee, tol |-> tt])
ISqrtInv == mph = 1 => ISqrtOK(mcap, marg)

(*-------------------------- Goldschmidt division ------------------------*)
InitGold == mcap \in 2..MaxCapG /\ marg \in 1..(2 ^ (mcap - 1) - 1) /\ mph = 0
SpecGold == InitGold /\ [][Next]_vars

GoldOK(cap, dd) ==
    \A nn \in 1..(2 ^ (cap - 1) - 1) : \A kk \in 1..MaxK :
        LET ee == DivExp(cap, nn, dd)  yy == GoldAlg(cap, kk, nn, dd)  tt == GoldTol(cap, kk, ee) IN
        /\ (AbsV(yy - ee) <= tt) \/ Bad("gold", [cap |-> cap, k |-> kk, n |-> nn, d |-> dd, y |-> yy, e |-> ee, tol |-> tt])
        /\ DivWithin(cap, nn, dd, yy, tt) <=> (AbsV(yy - ee) <= tt)
        \* the two ends of the judged range of caller-supplied initial approximations
        /\ \A ww \in {(2 ^ (cap - 1) + dd - 1) \div dd, (3 * (2 ^ (cap - 1))) \div dd} :
             LET yw == GoldAlgW(cap, kk, nn, dd, ww) IN
             (AbsV(yw - ee) <= tt) \/ Bad("gold_init", [cap |-> cap, k |-> kk, n |-> nn, d |-> dd, w |-> ww, y |-> yw, e |-> ee, tol |-> tt])
GoldInv == mph = 1 => GoldOK(mcap, marg)

(*-------------------------- piecewise-linear lookup ---------------------*)
\* configurations: precision, log_buckets, segment [lft, rgt], flatten flags, word width
PwlCfgs == << [pp |-> 3, lb |-> 2, lft |-> -2, rgt |-> 6, fl |-> FALSE, fr |-> TRUE,  wd |-> 14],
              [pp |-> 2, lb |-> 4, lft |-> -8, rgt |-> 8, fl |-> FALSE, fr |-> FALSE, wd |-> 14],
              [pp |-> 4, lb |-> 1, lft |-> 0,  rgt |-> 4, fl |-> TRUE,  fr |-> TRUE,  wd |-> 14],
              [pp |-> 4, lb |-> 3, lft |-> -4, rgt |-> 4, fl |-> TRUE,  fr |-> FALSE, wd |-> 15],
              [pp |-> 4, lb |-> 3, lft |-> -4, rgt |-> 4, fl |-> FALSE, fr |-> FALSE, wd |-> 16],
              [pp |-> 5, lb |-> 4, lft |-> -2, rgt |-> 2, fl |-> TRUE,  fr |-> TRUE,  wd |-> 16] >>
MaxCfg == EnvN("MAXCFG", 6)
InitPwl == mcap \in 1..MinV(MaxCfg, Len(PwlCfgs)) /\ marg \in (0 - 2 ^ (PwlCfgs[mcap].wd - 1))..(2 ^ (PwlCfgs[mcap].wd - 1) - 1) /\ mph = 0
SpecPwl == InitPwl /\ [][Next]_vars

PwlTab(cf) ==
    LET xs == PwlXs(cf.pp, cf.lb, cf.lft, cf.rgt)
        ys == PwlSqYs(cf.pp, cf.lb, cf.lft, cf.rgt)
        al == PwlAlpha(xs, ys, cf.pp, cf.lb, cf.fl, cf.fr)
    IN [xs |-> xs, ys |-> ys, al |-> al, be |-> PwlBeta(xs, ys, al, cf.pp, cf.lb, cf.fl, cf.fr)]
\* evaluated once per configuration
PwlTabs == [ci \in 1..Len(PwlCfgs) |-> PwlTab(PwlCfgs[ci])]

PwlOK(ci, xv) ==
    LET cf == PwlCfgs[ci]  tb == PwlTabs[ci]
        dv == PwlDivisor(cf.pp, cf.lb, cf.lft, cf.rgt)
        lfp == cf.lft * (2 ^ cf.pp)  rfp == cf.rgt * (2 ^ cf.pp)
        last == 2 ^ cf.lb + 2
        nowrap == xv - lfp < 2 ^ (cf.wd - 1) /\ xv - lfp >= 0 - 2 ^ (cf.wd - 1)
        sc == PwlScaled(xv, cf.pp, cf.lb, cf.lft, cf.rgt, cf.wd, 0)
        ss == PwlSegOf(sc, cf.lb, cf.wd)
        uu == sc % (2 ^ cf.wd)
        lowbits == [bi \in 1..cf.lb |-> BitOf(uu, bi - 1)]
        cand == [jj \in 1..(2 ^ cf.lb) |-> Wrap(tb.al[jj + 1] * xv + tb.be[jj + 1], cf.wd)]
    IN
    \* the control points are the exact multiples of the bucket width
    /\ \A ii \in 1..PwlNPts(cf.lb) : tb.xs[ii] = lfp + (ii - 2) * dv
    \* the bit-level selection is the integer one whenever x - left does not leave the word
    /\ nowrap => ss = PwlSegPlain(xv, cf.pp, cf.lb, cf.lft, cf.rgt)
    \* the selected segment contains x: clamping at both ends, every boundary point; the only exception is the
    \* rounding of the bucket number toward zero, which gives the last bucket-width left of `left` to the first bucket
    /\ nowrap => /\ xv >= rfp => ss = last
                 /\ (xv >= lfp /\ xv < rfp) => ss = 2 + (xv - lfp) \div dv /\ tb.xs[ss] <= xv /\ xv < tb.xs[ss + 1]
                 /\ xv <= lfp - dv => ss = 1
                 /\ (lfp - dv < xv /\ xv < lfp) => ss = 2
    \* the secure truncation (floor + {0, 1}) selects the containing segment or the next one
    /\ nowrap => /\ PwlSegComp(xv, cf.pp, cf.lb, cf.lft, cf.rgt, 0) =
                        (IF xv < lfp THEN 1 ELSE IF xv >= rfp THEN last ELSE 2 + (xv - lfp) \div dv)
                 /\ PwlSegComp(xv, cf.pp, cf.lb, cf.lft, cf.rgt, 1) =
                        (IF xv < lfp - dv THEN 1 ELSE MinV(last, 3 + (xv - lfp) \div dv))
    \* the multiplexer tree returns the candidate addressed by the low bits
    /\ TreeRetrieve(lowbits, cand, 1) = cand[1 + (uu % (2 ^ cf.lb))]
    \* closeness inside the segment: chord of x*x over a bucket of width dv deviates by at most dv^2 / 4 (at scale 4^p),
    \* plus PwlRound units for the rounding of table and result
    /\ (xv >= lfp /\ xv <= rfp /\ nowrap) =>
          LET yy == PwlEvalSeg(xv, ss, tb.al, tb.be, cf.pp, cf.wd) IN
          (AbsV(yy * (2 ^ cf.pp) - xv * xv) <= (dv * dv) \div 4 + PwlRound * (2 ^ cf.pp))
             \/ Bad("pwlsq", [cfg |-> ci, x |-> xv, y |-> yy, seg |-> ss])
    \* a flattened side returns the constant table value
    /\ (nowrap /\ cf.fl /\ ss = 1) => PwlEvalSeg(xv, ss, tb.al, tb.be, cf.pp, cf.wd) = tb.ys[1]
    /\ (nowrap /\ cf.fr /\ ss = last) => PwlEvalSeg(xv, ss, tb.al, tb.be, cf.pp, cf.wd) = tb.ys[last]
PwlInv == mph = 1 => PwlOK(mcap, marg)
=============================================================================
