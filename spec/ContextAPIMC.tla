----------------------------- MODULE ContextAPIMC -----------------------------
(***************************************************************************)
(* Bounded models of ContextAPI for exhaustive checking and for generating *)
(* the histories that are replayed against the real API (C11, binding B1). *)
(*                                                                         *)
(* A model is a FEATURE (which part of the API is exercised, with which    *)
(* argument alphabet) with bounds; the features of one run are explored as *)
(* disjoint state spaces (variable `feat` is chosen in Init and never      *)
(* changes), which saves one JVM start per feature.                        *)
(*   core      calls between graphs, outputs, finalisation, main graph,    *)
(*             context finalisation                                        *)
(*   names     names {a,b} on graphs and nodes, retrieval                  *)
(*   annot     both annotation tables                                      *)
(*   rollback  rejected nodes: invalid input type, operand type mismatch,  *)
(*             tuple index out of range, call arity/type mismatch, node    *)
(*             size overflow, total size overflow - each followed by more  *)
(*             calls; node names and annotations present                   *)
(*   foreign   two contexts: handles of the other context passed to every  *)
(*             call                                                        *)
(* The call alphabet of a feature is a static table; a call is enabled     *)
(* when the handles it passes exist and the bound of the object it would   *)
(* grow is not reached.  `hist` is the list of call indices that led to    *)
(* the state; it is hidden by the VIEW, so TLC keeps one history per       *)
(* distinct state (a spanning tree of the state graph) and prints it from  *)
(* the invariant PrintPath when the environment variable EMIT is set.      *)
(***************************************************************************)
EXTENDS ContextAPI, Json, SequencesExt

CONSTANTS Features,     \* subset of {"core", "names", "annot", "rollback", "foreign"}
          Tier          \* "quick" | "thorough": selects the bounds below

VARIABLES feat, hist

\* <<graphs of context 0, nodes per graph, annotations per object>>
BoundsQuick == [core |-> <<2, 2, 1>>, names |-> <<2, 1, 1>>, annot |-> <<1, 2, 1>>,
                rollback |-> <<1, 2, 1>>, foreign |-> <<1, 1, 1>>]
BoundsThorough == [core |-> <<2, 3, 1>>, names |-> <<2, 2, 1>>, annot |-> <<2, 2, 1>>,
                   rollback |-> <<1, 3, 1>>, foreign |-> <<1, 2, 1>>]
Bnd(f) == IF Tier = "quick" THEN BoundsQuick[f] ELSE BoundsThorough[f]
MaxG(f) == Bnd(f)[1]
MaxN(f) == Bnd(f)[2]
MaxAnn(f) == Bnd(f)[3]

Emit == "EMIT" \in DOMAIN IOEnv

NCOf(f) == IF f = "foreign" THEN 2 ELSE 1
\* the second context (only in "foreign") has one graph with one node
MaxGOf(f, c) == IF c = 0 THEN MaxG(f) ELSE 1
MaxNOf(f, c) == IF c = 0 THEN MaxN(f) ELSE 1

TBit == [k |-> "s", st |-> "b"]
TI32 == [k |-> "s", st |-> "i32"]
TBad == [k |-> "a", st |-> "i32", sh |-> <<>>]

GHs(f) == {h \in (0..(NCOf(f) - 1)) \X (0..(MaxG(f) - 1)) : h[2] < MaxGOf(f, h[1])}
NHs(f) == {h \in (0..(NCOf(f) - 1)) \X (0..(MaxG(f) - 1)) \X (0..(MaxN(f) - 1)) :
             h[2] < MaxGOf(f, h[1]) /\ h[3] < MaxNOf(f, h[1])}

Base == [k |-> "", c |-> 0, gh |-> <<0, 0>>, nh |-> <<0, 0, 0>>, deps |-> <<>>, gdeps |-> <<>>,
         op |-> [o |-> "", t |-> NoT, i |-> 0], nm |-> "", an |-> "", wt |-> NoT, lres |-> "", lty |-> NoT]
Op(o) == [o |-> o, t |-> NoT, i |-> 0]
InOp(t) == [o |-> "Input", t |-> t, i |-> 0]
TGet(i) == [o |-> "TupleGet", t |-> NoT, i |-> i]

SeqsUpTo(S, n) == UNION {[1..m -> S] : m \in 0..n}

AddCall(gh, op, deps, gdeps) == [Base EXCEPT !.k = "add", !.c = gh[1], !.gh = gh, !.op = op, !.deps = deps, !.gdeps = gdeps]

InTypes(f) == CASE f = "rollback" -> {TBit, TI32, TBad, BigT, HugeT}
                [] f \in {"names", "annot"} -> {TBit}
                [] OTHER -> {TBit, TI32}

\* node arguments offered to an operation of graph gh: every node handle in the foreign model, otherwise
\* the nodes of gh and the first node of every other graph (a wrong-graph representative)
DepPool(f, gh) == IF f = "foreign" THEN NHs(f)
                  ELSE {h \in NHs(f) : <<h[1], h[2]>> = gh \/ h[3] = 0}
Own(f, gh) == {h \in NHs(f) : <<h[1], h[2]>> = gh}

AddCalls(f) ==
  UNION {
    {AddCall(gh, InOp(t), <<>>, <<>>) : t \in InTypes(f)}
    \cup (IF f \in {"core", "rollback", "foreign", "names"}
          THEN {AddCall(gh, Op("Add"), d, <<>>) : d \in [1..2 -> DepPool(f, gh)]}
          ELSE {})
    \cup (IF f \in {"core", "foreign"}
          THEN {AddCall(gh, Op("Call"), d, <<cg>>) : d \in SeqsUpTo(DepPool(f, gh), IF f = "core" THEN 2 ELSE 1), cg \in GHs(f)}
               \cup {AddCall(gh, Op("Call"), <<>>, <<>>), AddCall(gh, Op("Add"), <<>>, <<>>)}
          ELSE {})
    \cup (IF f = "rollback"
          THEN {AddCall(gh, Op("CreateTuple"), d, <<>>) : d \in SeqsUpTo(Own(f, gh), 2)}
               \cup {AddCall(gh, TGet(i), <<d>>, <<>>) : i \in {0, 2}, d \in Own(f, gh)}
               \cup {AddCall(gh, Op("Call"), d, <<cg>>) : d \in SeqsUpTo({h \in Own(f, gh) : h[3] = 0}, 1), cg \in GHs(f)}
          ELSE {})
    : gh \in GHs(f)}

NamesOf(f) == IF f = "names" THEN {NameSeq[i] : i \in DOMAIN NameSeq} ELSE {NameSeq[1]}
Ctxs(f) == 0..(NCOf(f) - 1)

OtherCalls(f) ==
  {[Base EXCEPT !.k = "create", !.c = c] : c \in Ctxs(f)}
  \cup {[Base EXCEPT !.k = "cfin", !.c = c] : c \in Ctxs(f)}
  \cup {[Base EXCEPT !.k = "gfin", !.c = gh[1], !.gh = gh] : gh \in GHs(f)}
  \cup UNION {{[Base EXCEPT !.k = "out", !.c = gh[1], !.gh = gh, !.nh = nh] : nh \in DepPool(f, gh)} : gh \in GHs(f)}
  \cup {[Base EXCEPT !.k = "main", !.c = c, !.gh = gh] : c \in Ctxs(f), gh \in GHs(f)}
  \cup (IF f \in {"names", "foreign"}
        THEN {[Base EXCEPT !.k = "gname", !.c = c, !.gh = gh, !.nm = nm] : c \in Ctxs(f), gh \in GHs(f), nm \in NamesOf(f)}
        ELSE {})
  \cup (IF f \in {"names", "foreign", "rollback"}
        THEN {[Base EXCEPT !.k = "nname", !.c = c, !.nh = nh, !.nm = nm] : c \in Ctxs(f), nh \in NHs(f), nm \in NamesOf(f)}
        ELSE {})
  \cup (IF f \in {"annot"}
        THEN {[Base EXCEPT !.k = "gann", !.c = gh[1], !.gh = gh, !.an = an] : gh \in GHs(f), an \in {"OneBitState"}}
        ELSE {})
  \cup (IF f \in {"annot", "rollback"}
        THEN {[Base EXCEPT !.k = "nann", !.c = nh[1], !.nh = nh, !.an = an] : nh \in NHs(f),
                  an \in (IF f = "annot" THEN {"Private", "MpcCall"} ELSE {"Private"})}
        ELSE {})

\* computed once (TLCSet/TLCGet idiom of docs/CONVENTIONS.md)
FeatSeq == SetToSeq(Features)
CallTables(dummy) == [f \in Features |-> SetToSeq(AddCalls(f) \cup OtherCalls(f))]
ASSUME TLCSet(1, CallTables(0))
CallSeqOf(f) == TLCGet(1)[f]

\* bounds of the model: an object that reached its bound is not grown further
WithinBounds(f, S, ca) ==
  CASE ca.k = "create" -> S[ca.c + 1].ng < MaxGOf(f, ca.c)
    [] ca.k = "add" -> GraphAt(S, ca.gh).nn < MaxNOf(f, ca.gh[1])
    [] ca.k = "gann" -> Len(GraphAt(S, ca.gh).ann) < MaxAnn(f)
    [] ca.k = "nann" -> Len(NodeAt(S, ca.nh).ann) < MaxAnn(f)
    [] OTHER -> TRUE

Enabled(f, S, ca) == HandlesExist(S, ca) /\ WithinBounds(f, S, ca)

StepH(kind) == \E i \in DOMAIN CallSeqOf(feat) :
                 /\ CallSeqOf(feat)[i].k = kind
                 /\ Enabled(feat, cx, CallSeqOf(feat)[i])
                 /\ Do(CallSeqOf(feat)[i])
                 /\ hist' = Append(hist, i)
                 /\ feat' = feat

MCCreateGraph == StepH("create")
MCAddNode == StepH("add")
MCSetOutputNode == StepH("out")
MCFinalizeGraph == StepH("gfin")
MCSetMainGraph == StepH("main")
MCFinalizeContext == StepH("cfin")
MCSetGraphName == StepH("gname")
MCSetNodeName == StepH("nname")
MCAnnotateGraph == StepH("gann")
MCAnnotateNode == StepH("nann")

Init == /\ feat \in Features
        /\ cx = InitWorld(NCOf(feat))
        /\ last = [k |-> "", res |-> "ok"]
        /\ hist = <<>>
Next == \/ MCCreateGraph \/ MCAddNode \/ MCSetOutputNode \/ MCFinalizeGraph \/ MCSetMainGraph
        \/ MCFinalizeContext \/ MCSetGraphName \/ MCSetNodeName \/ MCAnnotateGraph \/ MCAnnotateNode

View == <<feat, cx>>

ASSUME Emit => PrintT(<<"CFG", ToJson([names |-> NameSeq,
                 feats |-> [i \in DOMAIN FeatSeq |->
                    LET f == FeatSeq[i]
                    IN [name |-> f, nc |-> NCOf(f), calls |-> CallSeqOf(f),
                        maxg |-> [c \in 1..NCOf(f) |-> MaxGOf(f, c - 1)],
                        maxn |-> [c \in 1..NCOf(f) |-> MaxNOf(f, c - 1)],
                        maxann |-> MaxAnn(f)]]])>>)

\* evaluated once per distinct state (the VIEW hides hist): one path per state
PrintPath == Emit => PrintT("H " \o feat \o " " \o ToString(hist))

Inferred == TypesInferred(cx)
=============================================================================
