--------------------------- MODULE InstSemTrace ---------------------------
(***************************************************************************)
(* C08 (binding B2): judgement of programs over library custom operations  *)
(* pushed through the REAL builder, run_instantiation_pass and evaluator    *)
(* (records of `instsem run`) against the DEFINITIONS of InstSem.tla.      *)
(*                                                                         *)
(* Per record (one state per record):                                      *)
(*   D1 totality   a custom-operation node that is well-typed by the       *)
(*                 definition is accepted by the builder, and the pass     *)
(*                 succeeds and leaves no Custom node;                     *)
(*   D2 types      every node has the type the definition gives it;        *)
(*   D3 meaning    for every input sample, every node of the instantiated  *)
(*                 context evaluates to the value the definitions give     *)
(*                 (operations nested in each other's arguments included). *)
(* Programs the definition calls ill-typed are not judged (the property    *)
(* speaks about contexts whose nodes type-check): they are counted (SKIP). *)
(* A failing record is printed as <<"SEMFAIL", json>>.                     *)
(***************************************************************************)
EXTENDS InstSem, InstSemIO

VARIABLES semIx, semPh
semvars == << semIx, semPh >>
SInit == semIx \in 1..Len(SemRecs) /\ semPh = 0
SNext == semPh = 0 /\ semPh' = 1 /\ UNCHANGED semIx
SSpec == SInit /\ [][SNext]_semvars

SFail(rec, cls, nix, info) ==
    PrintT(<< "SEMFAIL", ToJson([id |-> rec.id, class |-> cls, node |-> nix, info |-> info]) >>) /\ FALSE
SSkip(rec, why) == PrintT(<< "SEMSKIP", ToJson([id |-> rec.id, why |-> why]) >>)

OpNodes(rec) == {i \in 1..Len(rec.nodes) : rec.nodes[i].k = "op"}

JudgeSample(rec, tys, smp, six) ==
    /\ smp.ok \/ SFail(rec, "evaluation-of-instantiated-context-failed", 0, smp.err)
    /\ smp.ok =>
         LET want == ProgData(rec.nodes, tys, smp.in, << >>)
             bad == {i \in 1..Len(rec.nodes) : smp.out[i] # want[i]}
         IN bad = {} \/ LET i == CHOOSE j \in bad : \A m \in bad : j <= m IN
                        SFail(rec, "value-differs-from-definition", i,
                              [sample |-> six, fam |-> rec.nodes[i].fam, got |-> smp.out[i], want |-> want[i]])

JudgeRec(rec) ==
    LET tys == ProgTypes(rec.nodes, << >>)
        n == Len(rec.nodes)
    IN
    IF ~rec.built THEN
        IF rec.rej = 0 THEN SFail(rec, "harness-could-not-build-context", 0, rec.err)
        ELSE IF tys[rec.rej] = ErrT THEN TRUE                                        \* rejected, and ill-typed by the definition
        ELSE IF rec.nodes[rec.rej].k # "op" THEN SFail(rec, "harness-plain-node-rejected", rec.rej, rec.err)
        ELSE SFail(rec, "well-typed-custom-operation-rejected", rec.rej,              \* D1
                   [fam |-> rec.nodes[rec.rej].fam, err |-> rec.err,
                    args |-> [j \in 1..Len(rec.nodes[rec.rej].args) |-> tys[rec.nodes[rec.rej].args[j]]]])
    ELSE IF \E i \in 1..n : tys[i] = ErrT THEN SSkip(rec, "accepted by the code, ill-typed by the definition")
    ELSE
        /\ \A i \in 1..n : rec.types[i] = tys[i]                                    \* D2
              \/ SFail(rec, "type-differs-from-definition", i, [fam |-> rec.nodes[i].fam, got |-> rec.types[i], want |-> tys[i]])
        /\ rec.pass_ok \/ SFail(rec, "pass-failed", 0, rec.err)                     \* D1
        /\ rec.pass_ok =>
             /\ rec.custom_after = 0 \/ SFail(rec, "custom-node-left", 0, rec.custom_after)
             /\ \A s \in 1..Len(rec.samples) : JudgeSample(rec, tys, rec.samples[s], s)   \* D3

SJudged == semPh = 1 => JudgeRec(SemRecs[semIx])
=============================================================================
