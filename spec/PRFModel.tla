------------------------------ MODULE PRFModel ------------------------------
(***************************************************************************)
(* C15: the pseudo-random function as seen through evaluators              *)
(* (random.rs:133-176 Prf, simple_evaluator.rs:1231-1270: every evaluator  *)
(* keeps a cache of Prf objects per key).                                   *)
(*                                                                         *)
(* Evaluator instances ee hold a cache of keys.  Call(ee, ky, ct, ty, out)  *)
(* evaluates PRF / PermutationFromPRF with key ky, counter (iv) ct and      *)
(* output type ty in evaluator ee and returns out.  The refinement target   *)
(* is ONE global function table `tab`: a call either defines the entry      *)
(* <<ky, ct, ty>> or must return what the entry already holds.  Stream      *)
(* state kept between calls, dependence on the call order, on the           *)
(* evaluator instance or on its cache is therefore a violation.             *)
(*                                                                         *)
(* The model enumerates (B1) every history of HistLen calls drawn from      *)
(* 2 keys x 2 counters x 2 types over 3 evaluator instances (instances are  *)
(* interchangeable: they are numbered in order of first use), plus fixed    *)
(* histories for large / nested output types and permutations.              *)
(***************************************************************************)
EXTENDS Integers, Sequences, FiniteSets, TLC, Json, SequencesExt

CONSTANT HistLen,
         GenLevel   \* size of the generated family of composite output types: 1 (quick), 2 (thorough)
Evals == 1..3
Keys == 1..2
Ctrs == 1..2
Tys == 1..2

TyS(st) == [k |-> "s", st |-> st]
TyA(sh, st) == [k |-> "a", st |-> st, sh |-> sh]
TyV(nn, of) == [k |-> "v", n |-> nn, of |-> of]
TyT(el) == [k |-> "t", el |-> el]
TyN(nm, el) == [k |-> "n", nm |-> nm, el |-> el]
TyPerm(nn) == [k |-> "perm", n |-> nn]
\* 1, 2: the types of the interleaving model; the others are used by the fixed histories
BaseTypes == << TyS("u64"), TyA(<<13>>, "b"),
               TyA(<<8>>, "u8"), TyA(<<64>>, "u8"), TyA(<<65>>, "u8"), TyA(<<512>>, "u8"), TyA(<<513>>, "u8"),
               TyA(<<5000>>, "u8"), TyA(<<4097>>, "b"), TyS("b"), TyA(<<7>>, "b"), TyS("i128"), TyA(<<3>>, "u64"),
               TyA(<<2, 3>>, "i32"), TyS("u8"), TyA(<<3, 3>>, "b"),
               [k |-> "t", el |-> << TyA(<<5>>, "b"), [k |-> "v", n |-> 2, of |-> TyA(<<33>>, "u64")], TyS("b") >>],
               [k |-> "n", nm |-> <<"a", "b">>, el |-> << TyA(<<70>>, "u8"), [k |-> "t", el |-> <<TyS("i16"), TyA(<<9>>, "b")>>] >>],
               TyPerm(1), TyPerm(2), TyPerm(5), TyPerm(16), TyPerm(17), TyPerm(64), TyPerm(300), TyPerm(1000) >>

(***************************************************************************)
(* The generated family of composite output types.  Leaves are scalars and  *)
(* arrays whose bit size is / is not a multiple of 8 (the latter have unused *)
(* bits in their last byte); composites are every vector length of GenNs    *)
(* over every leaf (lengths 0, 1, few, and enough elements to cross the     *)
(* 64- and 512-byte batches of the stream), every pair of leaves as tuple   *)
(* and named tuple, and the two-level nestings vector-of-tuple,             *)
(* vector-of-named-tuple, vector-of-vector, tuple-of-vector.                *)
(***************************************************************************)
GenSub == << TyS("b"), TyA(<<3>>, "b"), TyA(<<3, 5>>, "b"), TyA(<<9>>, "b") >> \o
          (IF GenLevel >= 2 THEN << TyA(<<1>>, "b"), TyA(<<2, 2>>, "b"), TyA(<<17>>, "b"), TyA(<<7, 9>>, "b"), TyA(<<65>>, "b"),
                                    TyA(<<2, 3, 5>>, "b") >> ELSE <<>>)
GenAligned == << TyA(<<8>>, "b"), TyS("u8"), TyA(<<3>>, "i16"), TyS("u64") >> \o
              (IF GenLevel >= 2 THEN << TyA(<<2, 2, 2>>, "b"), TyA(<<16>>, "b"), TyS("i128"), TyA(<<2, 3>>, "i32") >> ELSE <<>>)
GenLeaves == GenSub \o GenAligned
GenNs == IF GenLevel >= 2 THEN <<0, 1, 2, 3, 5, 8, 9, 40, 64, 65, 70, 512, 513, 600, 3000>> ELSE <<0, 1, 2, 3, 40, 70, 600>>
GenSmallNs == IF GenLevel >= 2 THEN <<1, 2, 3, 7>> ELSE <<2, 3>>
\* all f(aa[i], bb[j]) as one sequence
Cross2(ff(_, _), aa, bb) == FlattenSeq([ii \in 1..Len(aa) |-> [jj \in 1..Len(bb) |-> ff(aa[ii], bb[jj])]])
GenPairs == Cross2(LAMBDA t1, t2 : <<t1, t2>>, GenLeaves, GenLeaves)
GenSubPairs == Cross2(LAMBDA t1, t2 : <<t1, t2>>, GenSub, GenSub) \o
               Cross2(LAMBDA t1, t2 : <<t1, t2>>, GenSub, SubSeq(GenAligned, 1, 2)) \o
               Cross2(LAMBDA t1, t2 : <<t1, t2>>, SubSeq(GenAligned, 1, 2), GenSub)
GenVectors == Cross2(LAMBDA nn, tl : TyV(nn, tl), GenNs, GenLeaves)
GenTuples == [ii \in 1..Len(GenPairs) |-> TyT(GenPairs[ii])]
GenNamed == [ii \in 1..Len(GenSubPairs) |-> TyN(<<"a", "b">>, GenSubPairs[ii])]
GenTriples == [ii \in 1..Len(GenSubPairs) |-> TyT(<<GenSubPairs[ii][1], GenSubPairs[ii][2], GenSubPairs[ii][1]>>)]
GenVecOfTuple == Cross2(LAMBDA nn, pr : TyV(nn, TyT(pr)), GenSmallNs, GenSubPairs)
GenVecOfNamed == Cross2(LAMBDA nn, pr : TyV(nn, TyN(<<"p", "q">>, pr)), GenSmallNs, SubSeq(GenSubPairs, 1, Len(GenSub) * Len(GenSub)))
GenVecOfVec == Cross2(LAMBDA nn, tv : TyV(nn, tv), GenSmallNs, Cross2(LAMBDA nn, tl : TyV(nn, tl), GenSmallNs, GenLeaves))
GenTupleOfVec == Cross2(LAMBDA tv, tl : TyT(<<tv, tl>>), Cross2(LAMBDA nn, tl : TyV(nn, tl), <<2, 40>>, GenSub), GenSub) \o
                 Cross2(LAMBDA tl, tv : TyT(<<tl, tv>>), GenSub, Cross2(LAMBDA nn, tl : TyV(nn, tl), <<3>>, GenSub))
GenTypes == GenVectors \o GenTuples \o GenNamed \o GenTriples \o GenVecOfTuple \o GenVecOfNamed \o GenVecOfVec \o GenTupleOfVec
TypesTab == BaseTypes \o GenTypes
ExtraTys == 3..Len(TypesTab)

VARIABLES cache,   \* evaluator -> set of keys for which it holds a Prf object
          tab,     \* the single function table: <<key, counter, type>> -> output
          hist,    \* the calls made so far
          mode     \* "enum": interleaving model, "fixed": one of the fixed histories
pvars == <<cache, tab, hist, mode>>

\* purity with respect to a table tb, and the table after the call
PureIn(tb, ky, ct, ty, out) == <<ky, ct, ty>> \in DOMAIN tb => tb[<<ky, ct, ty>>] = out
Extend(tb, ky, ct, ty, out) ==
  IF <<ky, ct, ty>> \in DOMAIN tb THEN tb
  ELSE [cc \in DOMAIN tb \cup {<<ky, ct, ty>>} |-> IF cc = <<ky, ct, ty>> THEN out ELSE tb[cc]]

Call(ee, ky, ct, ty, out) ==
  /\ PureIn(tab, ky, ct, ty, out)
  /\ tab' = Extend(tab, ky, ct, ty, out)
  /\ cache' = [cache EXCEPT ![ee] = @ \cup {ky}]
  /\ hist' = Append(hist, [e |-> ee, key |-> ky, ctr |-> ct, ty |-> ty])

\* In the model the output is the name of the table entry (the ideal function).
Ideal(ky, ct, ty) == <<ky, ct, ty>>
UsedEvals == { hist[ii].e : ii \in 1..Len(hist) }
NextEvals == { ee \in Evals : ee <= Cardinality(UsedEvals) + 1 }
EnabledCalls == { <<ee, ky, ct, ty>> : ee \in NextEvals, ky \in Keys, ct \in Ctrs, ty \in Tys }

FixedCalls(ty) == << <<1, 1, 1>>, <<1, 1, 1>>, <<2, 1, 1>>, <<1, 2, 1>>, <<1, 1, 2>>, <<2, 1, 2>>, <<3, 2, 1>>,
                     <<1, 1, 3>>, <<2, 1, 4>>, <<1, 1, 1>>, <<3, 2, 2>> >>
\* the shorter history of the types of the generated family
GenCalls == << <<1, 1, 1>>, <<2, 1, 1>>, <<1, 2, 1>>, <<1, 1, 2>>, <<2, 2, 1>>, <<1, 1, 1>> >>
CallsOf(ty) == IF ty <= Len(BaseTypes) THEN FixedCalls(ty) ELSE GenCalls
FixedHist(ty) == [ii \in 1..Len(CallsOf(ty)) |->
                    [e |-> CallsOf(ty)[ii][1], key |-> CallsOf(ty)[ii][2], ctr |-> CallsOf(ty)[ii][3], ty |-> ty]]
TabOf(hh) == [cc \in { <<hh[ii].key, hh[ii].ctr, hh[ii].ty>> : ii \in 1..Len(hh) } |-> cc]
CacheOf(hh) == [ee \in Evals |-> { hh[ii].key : ii \in { jj \in 1..Len(hh) : hh[jj].e = ee } }]

PInit == \/ /\ mode = "enum" /\ hist = <<>> /\ tab = <<>> /\ cache = [ee \in Evals |-> {}]
         \/ /\ mode = "fixed"
            /\ \E ty \in ExtraTys : hist = FixedHist(ty)
            /\ tab = TabOf(hist) /\ cache = CacheOf(hist)
PNext == /\ mode = "enum" /\ Len(hist) < HistLen
         /\ \E cc \in EnabledCalls : Call(cc[1], cc[2], cc[3], cc[4], Ideal(cc[2], cc[3], cc[4]))
         /\ UNCHANGED mode
PSpec == PInit /\ [][PNext]_pvars

\* the table is a function of the set of calls only: not of their order, the instance, or the cache
TableIsHistoryFree == tab = TabOf(hist) /\ cache = CacheOf(hist)

AsRec(hh) == [kind |-> "h", ev |-> [ii \in 1..Len(hh) |-> hh[ii].e], key |-> [ii \in 1..Len(hh) |-> hh[ii].key],
              ctr |-> [ii \in 1..Len(hh) |-> hh[ii].ctr], ty |-> [ii \in 1..Len(hh) |-> hh[ii].ty]]
\* One line per history of HistLen - 1 calls with all its enabled last calls (a compressed print of the
\* histories of HistLen calls, which TLC also generates as states), one line per fixed history.
EmitHist ==
  /\ (mode = "enum" /\ Len(hist) = HistLen - 1) =>
        PrintT(<<"H", ToJson([pre |-> AsRec(hist), last |-> SetToSeq(EnabledCalls)])>>)
  /\ mode = "fixed" => PrintT(<<"F", ToJson(AsRec(hist))>>)
ASSUME PrintT(<<"HDR", ToJson([kind |-> "hdr", types |-> TypesTab])>>)
=============================================================================
