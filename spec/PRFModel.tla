------------------------------ MODULE PRFModel ------------------------------
(***************************************************************************)
(* C15: the pseudo-random function as seen through evaluators              *)
(* (random.rs:133-176 Prf, simple_evaluator.rs:1231-1270: every evaluator  *)
(* keeps a cache of Prf objects per key).                                   *)
(*                                                                         *)
(* Evaluator instances ee hold a cache of keys.  Call(ee, ky, ct, ty, out)  *)
(* evaluates PRF / PermutationFromPRF with key ky, counter (iv) ct and      *)
(* output type ty in evaluator ee and returns out.  The refinement target   *)
(* is ONE global function table `tab`: a call either defines the entry      *)
(* <<ky, ct, ty>> or must return what the entry already holds.  Stream      *)
(* state kept between calls, dependence on the call order, on the           *)
(* evaluator instance or on its cache is therefore a violation.             *)
(*                                                                         *)
(* The model enumerates (B1) every history of HistLen calls drawn from      *)
(* 2 keys x 2 counters x 2 types over 3 evaluator instances (instances are  *)
(* interchangeable: they are numbered in order of first use), plus fixed    *)
(* histories for large / nested output types and permutations.              *)
(***************************************************************************)
EXTENDS Integers, Sequences, FiniteSets, TLC, Json, SequencesExt

CONSTANT HistLen
Evals == 1..3
Keys == 1..2
Ctrs == 1..2
Tys == 1..2

TyS(st) == [k |-> "s", st |-> st]
TyA(sh, st) == [k |-> "a", st |-> st, sh |-> sh]
TyPerm(nn) == [k |-> "perm", n |-> nn]
\* 1, 2: the types of the interleaving model; the others are used by the fixed histories
TypesTab == << TyS("u64"), TyA(<<13>>, "b"),
               TyA(<<8>>, "u8"), TyA(<<64>>, "u8"), TyA(<<65>>, "u8"), TyA(<<512>>, "u8"), TyA(<<513>>, "u8"),
               TyA(<<5000>>, "u8"), TyA(<<4097>>, "b"), TyS("b"), TyA(<<7>>, "b"), TyS("i128"), TyA(<<3>>, "u64"),
               TyA(<<2, 3>>, "i32"), TyS("u8"), TyA(<<3, 3>>, "b"),
               [k |-> "t", el |-> << TyA(<<5>>, "b"), [k |-> "v", n |-> 2, of |-> TyA(<<33>>, "u64")], TyS("b") >>],
               [k |-> "n", nm |-> <<"a", "b">>, el |-> << TyA(<<70>>, "u8"), [k |-> "t", el |-> <<TyS("i16"), TyA(<<9>>, "b")>>] >>],
               TyPerm(1), TyPerm(2), TyPerm(5), TyPerm(16), TyPerm(17), TyPerm(64), TyPerm(300), TyPerm(1000) >>
ExtraTys == 3..Len(TypesTab)

VARIABLES cache,   \* evaluator -> set of keys for which it holds a Prf object
          tab,     \* the single function table: <<key, counter, type>> -> output
          hist,    \* the calls made so far
          mode     \* "enum": interleaving model, "fixed": one of the fixed histories
pvars == <<cache, tab, hist, mode>>

\* purity with respect to a table tb, and the table after the call
PureIn(tb, ky, ct, ty, out) == <<ky, ct, ty>> \in DOMAIN tb => tb[<<ky, ct, ty>>] = out
Extend(tb, ky, ct, ty, out) ==
  IF <<ky, ct, ty>> \in DOMAIN tb THEN tb
  ELSE [cc \in DOMAIN tb \cup {<<ky, ct, ty>>} |-> IF cc = <<ky, ct, ty>> THEN out ELSE tb[cc]]

Call(ee, ky, ct, ty, out) ==
  /\ PureIn(tab, ky, ct, ty, out)
  /\ tab' = Extend(tab, ky, ct, ty, out)
  /\ cache' = [cache EXCEPT ![ee] = @ \cup {ky}]
  /\ hist' = Append(hist, [e |-> ee, key |-> ky, ctr |-> ct, ty |-> ty])

\* In the model the output is the name of the table entry (the ideal function).
Ideal(ky, ct, ty) == <<ky, ct, ty>>
UsedEvals == { hist[ii].e : ii \in 1..Len(hist) }
NextEvals == { ee \in Evals : ee <= Cardinality(UsedEvals) + 1 }
EnabledCalls == { <<ee, ky, ct, ty>> : ee \in NextEvals, ky \in Keys, ct \in Ctrs, ty \in Tys }

FixedCalls(ty) == << <<1, 1, 1>>, <<1, 1, 1>>, <<2, 1, 1>>, <<1, 2, 1>>, <<1, 1, 2>>, <<2, 1, 2>>, <<3, 2, 1>>,
                     <<1, 1, 3>>, <<2, 1, 4>>, <<1, 1, 1>>, <<3, 2, 2>> >>
FixedHist(ty) == [ii \in 1..Len(FixedCalls(ty)) |->
                    [e |-> FixedCalls(ty)[ii][1], key |-> FixedCalls(ty)[ii][2], ctr |-> FixedCalls(ty)[ii][3], ty |-> ty]]
TabOf(hh) == [cc \in { <<hh[ii].key, hh[ii].ctr, hh[ii].ty>> : ii \in 1..Len(hh) } |-> cc]
CacheOf(hh) == [ee \in Evals |-> { hh[ii].key : ii \in { jj \in 1..Len(hh) : hh[jj].e = ee } }]

PInit == \/ /\ mode = "enum" /\ hist = <<>> /\ tab = <<>> /\ cache = [ee \in Evals |-> {}]
         \/ /\ mode = "fixed"
            /\ \E ty \in ExtraTys : hist = FixedHist(ty)
            /\ tab = TabOf(hist) /\ cache = CacheOf(hist)
PNext == /\ mode = "enum" /\ Len(hist) < HistLen
         /\ \E cc \in EnabledCalls : Call(cc[1], cc[2], cc[3], cc[4], Ideal(cc[2], cc[3], cc[4]))
         /\ UNCHANGED mode
PSpec == PInit /\ [][PNext]_pvars

\* the table is a function of the set of calls only: not of their order, the instance, or the cache
TableIsHistoryFree == tab = TabOf(hist) /\ cache = CacheOf(hist)

AsRec(hh) == [kind |-> "h", ev |-> [ii \in 1..Len(hh) |-> hh[ii].e], key |-> [ii \in 1..Len(hh) |-> hh[ii].key],
              ctr |-> [ii \in 1..Len(hh) |-> hh[ii].ctr], ty |-> [ii \in 1..Len(hh) |-> hh[ii].ty]]
\* One line per history of HistLen - 1 calls with all its enabled last calls (a compressed print of the
\* histories of HistLen calls, which TLC also generates as states), one line per fixed history.
EmitHist ==
  /\ (mode = "enum" /\ Len(hist) = HistLen - 1) =>
        PrintT(<<"H", ToJson([pre |-> AsRec(hist), last |-> SetToSeq(EnabledCalls)])>>)
  /\ mode = "fixed" => PrintT(<<"F", ToJson(AsRec(hist))>>)
ASSUME PrintT(<<"HDR", ToJson([kind |-> "hdr", types |-> TypesTab])>>)
=============================================================================
