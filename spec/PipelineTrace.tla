---------------------------- MODULE PipelineTrace ----------------------------
(***************************************************************************)
(* Trace validation of the real compile_context against spec/Pipeline.tla.  *)
(* IOEnv.TRACE: ndjson written by `cc-conform stage-trace`: per compilation *)
(* a "begin" record, one record per stage event emitted by the hook inside   *)
(* compile_context (in emission order), and an "end" record with the result. *)
(* Every record must be consumed by an action of Pipeline; acceptance =       *)
(* the whole file is consumed (TraceDone reachable and no deadlock before).  *)
(***************************************************************************)
EXTENDS Pipeline, Json, IOUtils

Rec == ndJsonDeserialize(IOEnv.TRACE)

VARIABLES l   \* position in the trace

TInit == PInit /\ l = 1

TBegin == /\ l <= Len(Rec) /\ Rec[l].ev = "begin"
          /\ pstage = "idle"
          /\ UNCHANGED pvars /\ l' = l + 1

TPass == /\ l <= Len(Rec) /\ Rec[l].ev \notin {"begin", "end"}
         /\ Pass(Rec[l])
         /\ l' = l + 1

\* a compilation that succeeded went through all stages; one that was rejected stops early
TEnd == /\ l <= Len(Rec) /\ Rec[l].ev = "end"
        /\ IF Rec[l].res = "ok" THEN Finish
           ELSE /\ Rec[l].res = "err" /\ pstage # "final.optimized"
                /\ pstage' = "idle" /\ cur' = Empty /\ src' = Empty
        /\ l' = l + 1

TNext == TBegin \/ TPass \/ TEnd
TSpec == TInit /\ [][TNext]_<<pvars, l>>

\* acceptance: the number of consumed records equals the length of the trace
Accepted == TLCGet("stats").diameter - 1 = Len(Rec) \/
            (PrintT(<<"UNMATCHED", TLCGet("stats").diameter, Rec[TLCGet("stats").diameter]>>) /\ FALSE)
=============================================================================
