\* recorded node types of imported graphs = CCTyping!OpType (exact 8-bit ring; typing does not depend on it)
CONSTANTS
  RingBits = 8
SPECIFICATION TSpec
INVARIANT WellTyped
CHECK_DEADLOCK FALSE
