SPECIFICATION Spec
INVARIANT DetLeakFree
INVARIANT PairLeakFree
INVARIANT Stats
CHECK_DEADLOCK FALSE
