SPECIFICATION Spec
INVARIANT DetLeakFree
INVARIANT Stats
CHECK_DEADLOCK FALSE
