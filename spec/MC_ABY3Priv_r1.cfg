\* Privacy (C03): exact equality of view distributions, ring Z_2 (exact for bit-typed graphs)
CONSTANTS
  RingBits = 1
  Mode = "three"
  Sample = FALSE
  Runs = 1
  ExhaustInputs = FALSE
  ViewRoots = TRUE
SPECIFICATION PSpec
INVARIANT Private
CHECK_DEADLOCK FALSE
