--------------------------- MODULE SerializationCases ---------------------------
(***************************************************************************)
(* C12 on the code: TLC generates the corruption cases and judges what the *)
(* real library did with them.                                             *)
(*                                                                         *)
(* MODE "gen"  (records = base contexts exported by `ctxapi bases`):        *)
(*   - judges the observed round trip of every base: from_str(to_string(c)) *)
(*     is Ok, contexts_deep_equal, second serialization byte-identical,    *)
(*     evaluation equal, projection and serial form unchanged, WellFormed; *)
(*   - for bases the specification can interpret: the real serial form      *)
(*     recovers (in the specification) to exactly the real projection;     *)
(*   - prints every catalogue corruption of the base (module Serialization) *)
(*     as a case for the harness to render into the real JSON text.        *)
(* MODE "judge" (records = outcomes recorded by `ctxapi mutate|bytes`):     *)
(*   a panic is never accepted; where the specification can interpret the  *)
(*   text the outcome class must be the predicted one and an Ok result     *)
(*   must be the predicted context; in every case an Ok result must be     *)
(*   WellFormed.                                                           *)
(***************************************************************************)
EXTENDS Serialization, Json

VARIABLES tl, batch

Mode == IOEnv.MODE
Rec == ndJsonDeserialize(IOEnv.TRACE)
BatchSize == 32
NBatches == (Len(Rec) + BatchSize - 1) \div BatchSize

---------------------------------------------------------------------------
BaseWhy(b) ==
  (IF b.rt.out = "ok" THEN <<>> ELSE <<"roundtrip-" \o b.rt.out>>)
  \o (IF b.rt.out # "ok" \/ b.rt.deep_equal THEN <<>> ELSE <<"roundtrip-not-deep-equal">>)
  \o (IF b.rt.out # "ok" \/ (b.rt.same_text /\ b.rt.text_stable) THEN <<>> ELSE <<"second-serialization-differs">>)
  \o (IF b.rt.out # "ok" \/ b.rt.eval \in {"equal", "skipped", "both-error"} THEN <<>> ELSE <<"evaluation-differs">>)
  \o (IF b.rt.out # "ok" \/ (b.rt.pub_equal /\ b.rt.ser_equal) THEN <<>> ELSE <<"projection-changed-by-roundtrip">>)
  \o (IF ~b.haspub \/ b.rt.out # "ok" \/ b.pub1 = b.pub THEN <<>> ELSE <<"projection-changed-by-roundtrip">>)
  \o (IF ~b.haspub \/ WFCtxN(b.pub, 0, b.names) THEN <<>> ELSE <<"base-ill-formed">>)
  \o (IF ~b.haspub \/ SerOf(b.pub) = b.ser THEN <<>> ELSE <<"serial-form-is-not-the-projection-of-the-context">>)
  \o (IF ~b.catalogue \/ Recover(PlainEnv, b.ser) = R("ok", <<b.pub>>) THEN <<>> ELSE <<"spec-recovery-of-real-serial-form-differs">>)

EmitCases(b) ==
  b.catalogue =>
    \A m \in Corruptions(b.ser) :
      PrintT(<<"CASE", ToJson([base |-> b.id, kind |-> m.kind, env |-> m.env, ser |-> m.ser])>>)

---------------------------------------------------------------------------
Predictable(r) == r.predictable
Pred(r) == IF ~r.env_ok \/ ~r.shape_ok THEN R("err", InitWorld(1))
           ELSE Recover([version |-> r.version, json |-> "ok"], r.cser)

\* malformed inputs of the Value decoder (same envelope): expected class given with the case
ValueWhy(r) == IF r.out = r.expect THEN <<>> ELSE <<IF r.out = "panic" THEN "panic" ELSE "value-outcome-differs">>

OutWhy(r) ==
  IF r.src = "value" THEN ValueWhy(r) ELSE
  (IF r.out = "panic" THEN <<"panic">> ELSE <<>>)
  \o (IF r.out = "ok" /\ ~r.rproj_ok THEN <<"result-not-projectable">> ELSE <<>>)
  \o (IF r.out = "ok" /\ r.rproj_ok /\ ~WFCtxN(r.rpub, 0, r.names) THEN <<"ok-result-ill-formed">> ELSE <<>>)
  \o (IF r.out = "ok" /\ r.rproj_ok /\ SerOf(r.rpub) # r.rser THEN <<"ok-result-serial-form-inconsistent">> ELSE <<>>)
  \o (IF r.out # "panic" /\ Predictable(r) /\ Pred(r).res # r.out
      THEN <<IF r.out = "ok" THEN "impl-ok-spec-err" ELSE "impl-err-spec-ok">> ELSE <<>>)
  \o (IF r.out = "ok" /\ r.rproj_ok /\ Predictable(r) /\ Pred(r).res = "ok" /\ Pred(r).st # <<r.rpub>>
      THEN <<"recovered-context-differs">> ELSE <<>>)

RecOK == tl > 0 =>
  IF Mode = "gen"
  THEN LET y == BaseWhy(Rec[tl])
       IN (y = <<>> \/ PrintT(<<"FAIL", ToJson([rec |-> tl, id |-> Rec[tl].id, src |-> Rec[tl].src, why |-> y])>>))
          /\ EmitCases(Rec[tl])
  ELSE LET y == OutWhy(Rec[tl])
       IN y = <<>> \/ PrintT(<<"FAIL", ToJson([rec |-> tl, base |-> Rec[tl].base, kind |-> Rec[tl].kind, src |-> Rec[tl].src,
                                              out |-> Rec[tl].out, why |-> y])>>)

RInit == tl = 0 /\ batch = 0 /\ cx = <<>> /\ last = [k |-> "", res |-> "ok"]
RNext == /\ UNCHANGED <<cx, last>>
         /\ \/ tl = 0 /\ batch = 0 /\ \E b \in 1..NBatches : batch' = b /\ tl' = 0
            \/ tl = 0 /\ batch > 0 /\ \E i \in ((batch - 1) * BatchSize + 1)..(IF batch * BatchSize < Len(Rec) THEN batch * BatchSize ELSE Len(Rec)) :
                   tl' = i /\ batch' = batch
=============================================================================
