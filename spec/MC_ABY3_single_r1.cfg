\* ABY3Run, mode "single", integer types interpreted modulo 2^min(width,1)
CONSTANTS
  RingBits = 1
  Mode = "single"
  Sample = FALSE
  Runs = 1
  ExhaustInputs = FALSE
  ViewRoots = FALSE
SPECIFICATION MacroSpec
INVARIANT C01Single
CHECK_DEADLOCK FALSE
