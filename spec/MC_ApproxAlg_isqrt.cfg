SPECIFICATION SpecISqrt
INVARIANT ISqrtInv
CHECK_DEADLOCK FALSE
