\* C15: exact uniformity of rejection sampling on scaled sources, every modulus <= 64
CONSTANT ByteModuli = {2, 3, 5, 7, 31, 100, 128, 129, 200, 255, 256}
SPECIFICATION RjSpec
INVARIANT BoundIsOptimal
INVARIANT Unbiased
INVARIANT FewRejections
CHECK_DEADLOCK FALSE
