----------------------------- MODULE ContextAPITrace -----------------------------
(***************************************************************************)
(* Trace validation of the real graph-building API against ContextAPI      *)
(* (C11, binding B2: impl -> spec).                                        *)
(* The harness (ctxapi random) performs seeded random histories over the   *)
(* real operation set and writes one ndjson record per call:               *)
(*   [ev |-> "start", nc, full]            a new history with nc contexts  *)
(*   [ev |-> "call", call, res, same, cheap, hasfull, full?]               *)
(*     call    the uniform call record (kind, receiver, handles, operation, *)
(*             name, annotation, supplied type; lres/lty = logged outcome  *)
(*             and node type, used ONLY for operations the specification   *)
(*             does not model - tags "X:...")                              *)
(*     res     "ok" | "err" | "panic"                                      *)
(*     same    the full public projection (incl. serialization) is byte-   *)
(*             identical to the one before the call                        *)
(*     cheap   counts/flags through getters after the call                 *)
(*     full    the full projection (every 16th call, small states, end)    *)
(* Each step applies the SAME action as the model (Do) to the logged call; *)
(* the invariant compares outcome and projections and evaluates WellFormed *)
(* at every step.  The trace is accepted when every record was consumed.   *)
(***************************************************************************)
EXTENDS ContextAPI, Json

VARIABLE tl      \* number of records consumed

Rec == ndJsonDeserialize(IOEnv.TRACE)

CheapOf(S) == [ci \in DOMAIN S |->
                 [fin |-> S[ci].fin, main |-> S[ci].main, ng |-> S[ci].ng,
                  graphs |-> [gi \in DOMAIN S[ci].graphs |-> [nn |-> S[ci].graphs[gi].nn, out |-> S[ci].graphs[gi].out]]]]

TInit == tl = 0 /\ cx = <<>> /\ last = [k |-> "", res |-> "ok"]

Start == /\ tl < Len(Rec)
         /\ Rec[tl + 1].ev = "start"
         /\ cx' = InitWorld(Rec[tl + 1].nc)
         /\ last' = [k |-> "", res |-> "ok"]
         /\ tl' = tl + 1

Call == /\ tl < Len(Rec)
        /\ Rec[tl + 1].ev = "call"
        /\ LET ca == Rec[tl + 1].call
           IN \/ CreateGraph(ca) \/ AddNode(ca) \/ SetOutputNode(ca) \/ FinalizeGraph(ca) \/ SetMainGraph(ca)
              \/ FinalizeContext(ca) \/ SetGraphName(ca) \/ SetNodeName(ca) \/ AnnotateGraph(ca) \/ AnnotateNode(ca)
        /\ tl' = tl + 1

TNext == Start \/ Call

\* why record tl does not match the specification (empty = it matches)
Why(r) ==
  IF r.ev = "start"
  THEN (IF FullProj(cx) = r.full THEN <<>> ELSE <<"initial-projection-differs">>)
  ELSE (IF last.res = r.res THEN <<>>
        ELSE <<IF r.res = "panic" THEN "panic" ELSE IF r.res = "err" THEN "impl-err-spec-ok" ELSE "impl-ok-spec-err">>)
       \o (IF r.res = "ok" \/ r.same THEN <<>> ELSE <<"failed-call-changed-state">>)
       \o (IF CheapOf(cx) = r.cheap THEN <<>> ELSE <<"counts-differ">>)
       \o (IF r.hasfull => cx = r.full.pub THEN <<>> ELSE <<"state-projection-differs">>)
       \o (IF r.hasfull => SerWorld(cx) = r.full.ser THEN <<>> ELSE <<"serialized-form-differs">>)
       \o (IF WFWorld(cx) THEN <<>> ELSE <<"ill-formed">>)

TraceOK == tl > 0 =>
             LET y == Why(Rec[tl])
             IN y = <<>> \/ (PrintT(<<"FAIL", ToJson([rec |-> tl, h |-> Rec[tl].h, seq |-> Rec[tl].seq, why |-> y,
                                                       call |-> IF Rec[tl].ev = "call" THEN Rec[tl].call ELSE [k |-> "start"]])>>) /\ FALSE)

\* every record consumed: the behaviour is one chain of Len(Rec)+1 states (a call whose handles do not
\* exist in the specification state, or an unknown kind of call, blocks the trace)
Consumed == LET n == TLCGet("stats").distinct
            IN n = Len(Rec) + 1 \/ (PrintT(<<"STUCK", ToJson([rec |-> n])>>) /\ FALSE)
=============================================================================
