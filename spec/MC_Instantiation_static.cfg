\* Instantiation: static checks over the dump of the library operations (one state)
CONSTANTS
  SeedSize = 0
  AnyOrderUpTo = 0
SPECIFICATION PSpec
INVARIANT StaticOK
INVARIANT NamesInjectiveInv
CHECK_DEADLOCK FALSE
