------------------------------- MODULE ABY3Priv -------------------------------
(***************************************************************************)
(* Privacy of the three-party execution (property C03).                    *)
(*                                                                         *)
(* With the PRF idealised as a random function, a run of ABY3Run is        *)
(* determined by the plaintext inputs xs, the free shares of already       *)
(* shared inputs and the tape tp : oracle entry -> value.  All entries     *)
(* (and all free shares) are uniform and independent, so the distribution  *)
(* of anything a party sees is the BAG of its values over all tapes.       *)
(*                                                                         *)
(*   View(o, xs, tp) = << o's own inputs (and public inputs),              *)
(*                        the two shares o holds of every shared input,    *)
(*                        every value delivered to o by a Send(., o),      *)
(*                        tp restricted to the entries whose key o holds,  *)
(*                        o's output if o is an output party >>            *)
(*                                                                         *)
(*   Private:  for inputs xs, ys that agree on what o is entitled to know  *)
(*             (its inputs, public inputs, and its output if it gets one)  *)
(*             the bags {{ View(o, xs, tp) : tp }} and {{ View(o, ys, tp) }}*)
(*             are equal.                                                   *)
(*                                                                         *)
(* Junk that non-owners hold is fixed to zero here: it is chosen by the     *)
(* party itself, independently of every secret, and C02 shows that no       *)
(* needed value depends on it.                                              *)
(*                                                                         *)
(* A TLC state is one (program, observer, class of inputs the observer must  *)
(* not distinguish); the invariant compares the view bags of all members of  *)
(* the class, so TLC's workers parallelise over the classes.                 *)
(***************************************************************************)
EXTENDS ABY3Run, FiniteSetsExt

VARIABLES pg,    \* program index
          obs,   \* observer party
          cls,   \* a class of input vectors: what the observer is entitled to know (its inputs, its output)
          done   \* FALSE in the initial state, TRUE after the single step

pvars == <<pg, obs, cls, done>>

Observers == {0, 1, 2}

\* ---- entries of the tape -------------------------------------------------
\* share entries: <<"share", <<k, c>>>> for shared input k, c \in {0,1}: the two free shares
\* (2-tuples, so that they never have to be compared element-wise with the 3-tuples of PRF entries)
ShEnt(k, c) == <<"share", <<k, c>>>>
ShareEntries(i) == {ShEnt(k, c) : k \in {kk \in 1..Len(Progs[i].owners) : Progs[i].owners[kk] = "sh"}, c \in {0, 1}}
ShareDom(i, e) == AllValues(SrcInputTypes(i)[e[2][1]])

\* value of input node n at party q for fixed plaintext inputs and tape (junk = zero)
InputAt(i, n, q, xs, tp) ==
  LET G == M(i)
      k == InputIndex(G, n)
      o == Progs[i].owners[k]
      pt == SrcInputTypes(i)[k]
  IN IF o = "pub" THEN xs[k]
     ELSE IF o = "sh"
          THEN LET s0 == tp[ShEnt(k, 0)]
                   s1 == tp[ShEnt(k, 1)]
                   sh == <<s0, s1, SubV(SubV(xs[k], s0, pt), s1, pt)>>
               IN [c \in 1..3 |-> IF c - 1 = (q + 2) % 3 THEN ZeroOf(pt) ELSE sh[c]]
          ELSE IF q = OwnerParty(o) THEN xs[k] ELSE ZeroOf(G[n].ty)

\* local value of node n at party q; `prf(e, r)` supplies the value of oracle entry e (node record r)
LocalFixed(i, n, q, st, xs, tp) ==
  LET G == M(i)  r == G[n] IN
  CASE IsInput(r) -> InputAt(i, n, q, xs, tp)
    [] IsRandom(r) -> [rnd |-> n, by |-> q]
    [] IsPRF(r) -> tp[Entry(r, st[r.deps[1]][q])]
    [] OTHER -> Exec(PlanT[i][n], [k \in 1..Len(r.deps) |-> st[r.deps[k]][q]], r.ty)

\* loc[n] = the parties that have to evaluate node n locally (demand analysis for one observer)
RECURSIVE RunFixedFrom(_, _, _, _, _, _)
RunFixedFrom(i, loc, n, st, xs, tp) ==
  IF n > Len(M(i)) THEN st
  ELSE RunFixedFrom(i, loc, n + 1,
         Append(st, Deliver(M(i), n, [q \in Parties |->
                   IF q \in loc[n] THEN LocalFixed(i, n, q, st, xs, tp) ELSE "na"])),
         xs, tp)

RunFixed(i, loc, xs, tp) == RunFixedFrom(i, loc, 1, <<>>, xs, tp)

\* The oracle entries a run reads do not depend on inputs or tape (key tokens flow only through
\* Random/NOP/tuple nodes); collect them by one run in which every PRF value is the zero of its type.
RECURSIVE CollectFrom(_, _, _, _, _, _)
CollectFrom(i, loc, n, st, xs, ents) ==
  IF n > Len(M(i)) THEN ents
  ELSE LET G == M(i)  r == G[n]
           evals == loc[n]
           new == IF IsPRF(r) THEN {<<Entry(r, st[r.deps[1]][q]), n>> : q \in evals} ELSE {}
           lv == [q \in Parties |->
                     IF q \notin evals THEN "na"
                     ELSE CASE IsInput(r) -> InputAt(i, n, q, xs, [e \in ShareEntries(i) |-> ZeroOf(SrcInputTypes(i)[e[2][1]])])
                            [] IsRandom(r) -> [rnd |-> n, by |-> q]
                            [] IsPRF(r) -> ZeroOf(r.ty)
                            [] OTHER -> Exec(PlanT[i][n], [k \in 1..Len(r.deps) |-> st[r.deps[k]][q]], r.ty)]
       IN CollectFrom(i, loc, n + 1, Append(st, Deliver(G, n, lv)), xs, ents \cup new)

ZeroInputs(i) == [k \in 1..Len(SrcInputTypes(i)) |-> ZeroOf(SrcInputTypes(i)[k])]

\* ---- per-observer tables ---------------------------------------------------
\* What observer o sees: every message delivered to it and, if it is an output party, its output.
\* Only the values these depend on are evaluated, and only the oracle entries read on the way are
\* enumerated: the others are independent of the view and multiply every count of both bags alike.
RecvNodes(i, o) == {n \in 1..Len(M(i)) : \E k \in 1..Len(M(i)[n].sends) : M(i)[n].sends[k][2] = o}
IsOutParty(i, o) == \E k \in 1..Len(Progs[i].outs) : Progs[i].outs[k] = o
ObsRoots(i, o) == {<<o, n>> : n \in RecvNodes(i, o)} \cup (IF IsOutParty(i, o) THEN {<<o, OutNode(M(i))>>} ELSE {})
ObsLoc(i, o) == LET need == NeedFrom(M(i), Len(M(i)), ObsRoots(i, o))
                IN [n \in 1..Len(M(i)) |-> {Who(M(i), n)[p] : p \in {pp \in Parties : <<pp, n>> \in need}}]

\* pairs <<entry, a PRF node that reads it>>; the node gives the sample space of the entry
EntryNodes(i, loc) == CollectFrom(i, loc, 1, <<>>, ZeroInputs(i), {})
EntryDom(i, en, e) ==
  IF Len(e) = 2 THEN ShareDom(i, e)
  ELSE PRFDomain(M(i)[(CHOOSE x1 \in en : x1[1] = e)[2]])

\* all tapes: functions from the entries to their sample spaces
RECURSIVE TapesOver(_, _, _)
TapesOver(i, en, ents) ==
  IF ents = {} THEN {<<>>}
  ELSE LET e == CHOOSE ee \in ents : TRUE
           rest == TapesOver(i, en, ents \ {e})
       IN {(e :> v) @@ f : f \in rest, v \in EntryDom(i, en, e)}

\* shared inputs whose shares reach the observer's view (all of them, conservatively)
ObsTab(i, o) ==
  LET loc == ObsLoc(i, o)
      en == EntryNodes(i, loc)
      ents == {x1[1] : x1 \in en} \cup ShareEntries(i)
  IN [loc |-> loc, prf |-> {x1[1] : x1 \in en}, tapes |-> TapesOver(i, en, ents)]

\* ---- tables kept in TLC register 2 (computed by each worker at its first step) ------------------
PrivTablesDef(u) == TLCEval([i \in 1..NP |-> TLCEval([o \in Observers |-> TLCEval(ObsTab(i, o))])])
ASSUME PrivRegisterInitialised == TLCSet(2, [ready |-> FALSE])
PrivTablesReady == IF TLCGet(2).ready THEN TRUE ELSE TLCSet(2, [ready |-> TRUE, tab |-> PrivTablesDef(0)])
Tab(i, o) == TLCGet(2).tab[i][o]

\* ---- views ----------------------------------------------------------------
InputsKnownTo(i, o) == {k \in 1..Len(Progs[i].owners) : Progs[i].owners[k] \in {"pub", ToString(o)}}

View(i, o, xs, tp) ==
  LET G == M(i)
      st == RunFixed(i, Tab(i, o).loc, xs, tp)
      recv == [n \in RecvNodes(i, o) |-> st[n][o]]
      \* key tokens o holds: its own draws and every key delivered to it
      toks == {[rnd |-> n, by |-> o] : n \in {nn \in 1..Len(G) : G[nn].op = "Random"}}
                \cup {st[n][o] : n \in {nn \in RecvNodes(i, o) : G[nn].ty.k = "a" /\ G[nn].ty.sh = <<128>> /\ G[nn].ty.st = "b"
                                                                 /\ G[nn].op = "NOP" /\ G[G[nn].deps[1]].op \in {"Random", "NOP"}}}
      known == {e \in Tab(i, o).prf : e[1] \in toks}
      \* of a shared input, o holds components o and o+1; components 0 and 1 are tape entries, component 2 is
      \* determined by them and the secret
      shares == {e \in ShareEntries(i) : e[2][2] \in {o, (o + 1) % 3}}
      third == [k \in {kk \in 1..Len(Progs[i].owners) : Progs[i].owners[kk] = "sh" /\ 2 \in {o, (o + 1) % 3}} |->
                  SubV(SubV(xs[k], tp[ShEnt(k, 0)], SrcInputTypes(i)[k]), tp[ShEnt(k, 1)], SrcInputTypes(i)[k])]
  IN [inp |-> [k \in InputsKnownTo(i, o) |-> xs[k]],
      recv |-> recv,
      rand |-> [e \in known \cup shares |-> tp[e]],
      sh2 |-> third,
      out |-> IF IsOutParty(i, o) THEN st[OutNode(G)][o] ELSE <<>>]

BagAdd(b, v) == IF v \in DOMAIN b THEN [b EXCEPT ![v] = @ + 1] ELSE (v :> 1) @@ b

ViewBag(i, o, xs) == FoldSet(LAMBDA tp, acc : BagAdd(acc, View(i, o, xs, tp)), <<>>, Tab(i, o).tapes)

\* what o is entitled to learn about input vector xs
Entitled(i, o, xs) ==
  <<[k \in InputsKnownTo(i, o) |-> xs[k]], IF IsOutParty(i, o) THEN Expected(i, xs) ELSE <<>>>>

AllInputs(i) == AllSeqs(SrcInputTypes(i))

\* the classes of inputs the observer must not be able to tell apart
Classes(i, o) == {Entitled(i, o, xs) : xs \in AllInputs(i)}
Members(i, o, c) == {xs \in AllInputs(i) : Entitled(i, o, xs) = c}

PInit == /\ pg \in 1..NP /\ obs \in Observers /\ cls = <<>> /\ done = FALSE
         /\ run = 0 /\ g = 0 /\ x = <<>> /\ pc = 0 /\ store = <<>> /\ orc = <<>>
\* first step: pick a class (needs the tables, which a worker computes at its first step);
\* second step: done -- TLC evaluates the invariant of successor states in its worker threads
PickClass == /\ TablesReady /\ PrivTablesReady
             /\ cls = <<>> /\ cls' \in Classes(pg, obs) /\ UNCHANGED <<pg, obs, done, vars>>
Judge == /\ TablesReady /\ PrivTablesReady
         /\ cls # <<>> /\ done = FALSE /\ done' = TRUE /\ UNCHANGED <<pg, obs, cls, vars>>
PNext == PickClass \/ Judge
PSpec == PInit /\ [][PNext]_<<pvars, vars>>

\* all members of a class induce the same distribution of views
Private ==
  done => LET ms == Members(pg, obs, cls)
              bags == TLCEval([xs \in ms |-> ViewBag(pg, obs, xs)])
              first == CHOOSE xs \in ms : TRUE
          IN \A xs \in ms : bags[xs] = bags[first]
=============================================================================
