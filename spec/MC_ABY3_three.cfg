CONSTANTS
  RingBits = 1
  Mode = "three"
SPECIFICATION Spec
INVARIANT C02Three
CHECK_DEADLOCK FALSE
