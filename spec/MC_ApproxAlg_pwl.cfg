SPECIFICATION SpecPwl
INVARIANT PwlInv
CHECK_DEADLOCK FALSE
