SPECIFICATION ESpec
CONSTANT N = 4
INVARIANT NoMissingDependency
INVARIANT OutputSurvives
INVARIANT Released
INVARIANT CountsExact
CHECK_DEADLOCK FALSE
