\* limb relation = integer relation (ABY3Run!TruncOutcomeOK) at width 8
CONSTANT LemmaScales = {2, 4, 8, 16, 32, 64, 3, 5, 6, 7, 10, 100, 127}
SPECIFICATION LSpec
INVARIANT LemmaHolds
CHECK_DEADLOCK FALSE
