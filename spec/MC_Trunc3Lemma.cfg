\* limb relation = integer relation (ABY3Run!TruncOutcomeOK) at width 8
CONSTANT LemmaScales = {4, 10}
SPECIFICATION LSpec
INVARIANT LemmaHolds
CHECK_DEADLOCK FALSE
