\* C14: validation of the recorded behaviour of the real sharing code
CONSTANT Thorough = FALSE
SPECIFICATION TraceSpec
INVARIANT TraceOK
CHECK_DEADLOCK FALSE
