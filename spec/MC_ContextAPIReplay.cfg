INIT RInit
NEXT RNext
INVARIANTS CaseOK
CHECK_DEADLOCK FALSE
