------------------------------ MODULE BitRelIO ------------------------------
(* Records written by the harness binary `bitrel` (one JSON object per line), as data.             *)
(* IOEnv.TRACE names the ndjson file.  A plain definition, so that TLC evaluates it exactly once.  *)
EXTENDS Json, IOUtils
Recs == ndJsonDeserialize(IOEnv.TRACE)
=============================================================================
