---- MODULE SerProbe_TTrace_1790140777 ----
EXTENDS Sequences, TLCExt, Toolbox, Naturals, TLC, SerProbe

_expression ==
    LET SerProbe_TEExpression == INSTANCE SerProbe_TEExpression
    IN SerProbe_TEExpression!expression
----

_trace ==
    LET SerProbe_TETrace == INSTANCE SerProbe_TETrace
    IN SerProbe_TETrace!trace
----

_inv ==
    ~(
        TLCGet("level") = Len(_TETrace)
        /\
        hist = (<<9, 12, 3>>)
        /\
        last = ([res |-> "ok", k |-> "out"])
        /\
        cx = (<<[graphs |-> <<[nn |-> 1, ann |-> <<>>, name |-> <<>>, nodes |-> <<[deps |-> <<>>, gdeps |-> <<>>, op |-> [i |-> 0, o |-> "Input", t |-> [k |-> "s", st |-> "i32"]], ann |-> <<>>, name |-> <<>>, ty |-> [k |-> "s", st |-> "i32"], id |-> 0]>>, fin |-> FALSE, out |-> 0, id |-> 0, nret |-> <<-1, -1>>]>>, ng |-> 1, fin |-> FALSE, main |-> -1, gret |-> <<-1, -1>>]>>)
        /\
        feat = ("core")
    )
----

_init ==
    /\ last = _TETrace[1].last
    /\ cx = _TETrace[1].cx
    /\ feat = _TETrace[1].feat
    /\ hist = _TETrace[1].hist
----

_next ==
    /\ \E i,j \in DOMAIN _TETrace:
        /\ \/ /\ j = i + 1
              /\ i = TLCGet("level")
        /\ last  = _TETrace[i].last
        /\ last' = _TETrace[j].last
        /\ cx  = _TETrace[i].cx
        /\ cx' = _TETrace[j].cx
        /\ feat  = _TETrace[i].feat
        /\ feat' = _TETrace[j].feat
        /\ hist  = _TETrace[i].hist
        /\ hist' = _TETrace[j].hist

\* Uncomment the ASSUME below to write the states of the error trace
\* to the given file in Json format. Note that you can pass any tuple
\* to `JsonSerialize`. For example, a sub-sequence of _TETrace.
    \* ASSUME
    \*     LET J == INSTANCE Json
    \*         IN J!JsonSerialize("SerProbe_TTrace_1790140777.json", _TETrace)

=============================================================================

 Note that you can extract this module `SerProbe_TEExpression`
  to a dedicated file to reuse `expression` (the module in the 
  dedicated `SerProbe_TEExpression.tla` file takes precedence 
  over the module `SerProbe_TEExpression` below).

---- MODULE SerProbe_TEExpression ----
EXTENDS Sequences, TLCExt, Toolbox, Naturals, TLC, SerProbe

expression == 
    [
        \* To hide variables of the `SerProbe` spec from the error trace,
        \* remove the variables below.  The trace will be written in the order
        \* of the fields of this record.
        last |-> last
        ,cx |-> cx
        ,feat |-> feat
        ,hist |-> hist
        
        \* Put additional constant-, state-, and action-level expressions here:
        \* ,_stateNumber |-> _TEPosition
        \* ,_lastUnchanged |-> last = last'
        
        \* Format the `last` variable as Json value.
        \* ,_lastJson |->
        \*     LET J == INSTANCE Json
        \*     IN J!ToJson(last)
        
        \* Lastly, you may build expressions over arbitrary sets of states by
        \* leveraging the _TETrace operator.  For example, this is how to
        \* count the number of times a spec variable changed up to the current
        \* state in the trace.
        \* ,_lastModCount |->
        \*     LET F[s \in DOMAIN _TETrace] ==
        \*         IF s = 1 THEN 0
        \*         ELSE IF _TETrace[s].last # _TETrace[s-1].last
        \*             THEN 1 + F[s-1] ELSE F[s-1]
        \*     IN F[_TEPosition - 1]
    ]

=============================================================================



Parsing and semantic processing can take forever if the trace below is long.
 In this case, it is advised to uncomment the module below to deserialize the
 trace from a generated binary file.

\*
\*---- MODULE SerProbe_TETrace ----
\*EXTENDS IOUtils, TLC, SerProbe
\*
\*trace == IODeserialize("SerProbe_TTrace_1790140777.bin", TRUE)
\*
\*=============================================================================
\*

---- MODULE SerProbe_TETrace ----
EXTENDS TLC, SerProbe

trace == 
    <<
    ([hist |-> <<>>,last |-> [res |-> "ok", k |-> ""],cx |-> <<[graphs |-> <<>>, ng |-> 0, fin |-> FALSE, main |-> -1, gret |-> <<-1, -1>>]>>,feat |-> "core"]),
    ([hist |-> <<9>>,last |-> [res |-> "ok", k |-> "create"],cx |-> <<[graphs |-> <<[nn |-> 0, ann |-> <<>>, name |-> <<>>, nodes |-> <<>>, fin |-> FALSE, out |-> -1, id |-> 0, nret |-> <<-1, -1>>]>>, ng |-> 1, fin |-> FALSE, main |-> -1, gret |-> <<-1, -1>>]>>,feat |-> "core"]),
    ([hist |-> <<9, 12>>,last |-> [res |-> "ok", k |-> "add"],cx |-> <<[graphs |-> <<[nn |-> 1, ann |-> <<>>, name |-> <<>>, nodes |-> <<[deps |-> <<>>, gdeps |-> <<>>, op |-> [i |-> 0, o |-> "Input", t |-> [k |-> "s", st |-> "i32"]], ann |-> <<>>, name |-> <<>>, ty |-> [k |-> "s", st |-> "i32"], id |-> 0]>>, fin |-> FALSE, out |-> -1, id |-> 0, nret |-> <<-1, -1>>]>>, ng |-> 1, fin |-> FALSE, main |-> -1, gret |-> <<-1, -1>>]>>,feat |-> "core"]),
    ([hist |-> <<9, 12, 3>>,last |-> [res |-> "ok", k |-> "out"],cx |-> <<[graphs |-> <<[nn |-> 1, ann |-> <<>>, name |-> <<>>, nodes |-> <<[deps |-> <<>>, gdeps |-> <<>>, op |-> [i |-> 0, o |-> "Input", t |-> [k |-> "s", st |-> "i32"]], ann |-> <<>>, name |-> <<>>, ty |-> [k |-> "s", st |-> "i32"], id |-> 0]>>, fin |-> FALSE, out |-> 0, id |-> 0, nret |-> <<-1, -1>>]>>, ng |-> 1, fin |-> FALSE, main |-> -1, gret |-> <<-1, -1>>]>>,feat |-> "core"])
    >>
----


=============================================================================

---- CONFIG SerProbe_TTrace_1790140777 ----
CONSTANTS
    Features = { "core" , "names" }
    Tier = "quick"

INVARIANT
    _inv

CHECK_DEADLOCK
    \* CHECK_DEADLOCK off because of PROPERTY or INVARIANT above.
    FALSE

INIT
    _init

NEXT
    _next

CONSTANT
    _TETrace <- _trace

ALIAS
    _expression
=============================================================================
\* Generated on Wed Sep 23 05:19:39 UTC 2026