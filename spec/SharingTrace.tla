---------------------------- MODULE SharingTrace ----------------------------
(***************************************************************************)
(* C14, trace validation (B2).  IOEnv.TRACE: ndjson written by `values c14`.*)
(* One record per type; it holds, for several PRNG seeds and several        *)
(* secrets, what the real code produced:                                    *)
(*   api "tv"  TypedValue::secret_share / get_local_shares_for_each_party / *)
(*             secret_share_reveal                                          *)
(*   api "rs"  ReplicatedShares::secret_share_for_local_evaluation /        *)
(*             secret_share_for_parties / reveal (+ from_tuple)             *)
(*   api "sv"  mpc::utils::share_vector (party tuples only)                 *)
(*   api "ger" get_evaluator_result: plain input, declared with type dt of  *)
(*             the same layout as t (dt = t: the ordinary case; dt # t: an  *)
(*             i32 for a graph taking 32 bits, ...), shared for a (t,t,t)   *)
(*             graph input; "shares" = the triple the graph received        *)
(*             (reveal_output = false), "reveal" = the revealed output      *)
(*   api "<x>-err" / "<x>-panic": the call failed                           *)
(* All values are trees of base-256 limb arrays; TLC recomputes the sums    *)
(* modulo 2^w with module BigMod via the operators of module Sharing.       *)
(***************************************************************************)
EXTENDS Sharing, Json, IOUtils

Rec == ndJsonDeserialize(IOEnv.TRACE)
VARIABLE cur

HasParties(rn) == rn.api \in {"tv", "rs", "sv"}
SharesOf(rn) == IF rn.hasshares THEN rn.shares
                ELSE <<rn.parties[1][1], rn.parties[1][2], rn.parties[2][3]>>
RunIdx(rr) == { <<si, ri>> : si \in 1..Len(rr.seeds), ri \in 1..10 } 
Runs(rr) == { ix \in UNION { { <<si, ri>> : ri \in 1..Len(rr.seeds[si].runs) } : si \in 1..Len(rr.seeds) } : TRUE }
RunAt(rr, ix) == rr.seeds[ix[1]].runs[ix[2]]
PRuns(rr) == { ix \in Runs(rr) : HasParties(RunAt(rr, ix)) }
\* runs that expose a share triple
SRuns(rr) == { ix \in Runs(rr) : HasParties(RunAt(rr, ix)) \/ RunAt(rr, ix).hasshares }
\* the value of the record's type that the run shares
Secret(ty, rn) == IF rn.api = "ger" THEN Reinterp(rn.dt, ty, rn.secret) ELSE rn.secret

ShFacets(rr) == LET ty == rr.t IN
  << <<"api_result", \A ix \in Runs(rr) : RunAt(rr, ix).api \in {"tv", "rs", "sv", "ger", "sv-err"}>>,
     \* a plain input is only offered with a declared type of the same layout
     <<"ger_layout", \A ix \in Runs(rr) : LET rn == RunAt(rr, ix) IN
          rn.api = "ger" => SameLayout(rn.dt, ty) /\ VHasType(rn.dt, rn.secret)>>,
     <<"in_domain", \A ix \in SRuns(rr) : LET rn == RunAt(rr, ix) IN
          /\ \A ss \in 1..3 : VHasType(ty, SharesOf(rn)[ss])
          /\ HasParties(rn) => \A pp \in 1..3, ss \in 1..3 : VHasType(ty, rn.parties[pp][ss])>>,
     \* the three shares sum to the secret modulo 2^w, component-wise
     <<"reconstruct", \A ix \in SRuns(rr) : LET rn == RunAt(rr, ix) IN Reveal(ty, SharesOf(rn)) = Secret(ty, rn)>>,
     \* what the code's own reveal returned
     <<"reveal", \A ix \in Runs(rr) : LET rn == RunAt(rr, ix) IN rn.reveal = Secret(ty, rn) /\ rn.revt>>,
     \* party i holds share i in slot i and share i+1 in slot i+1
     <<"party_layout", \A ix \in PRuns(rr) : LET rn == RunAt(rr, ix) IN
          \A pp \in 0..2 : \A ss \in Genuine(pp) : rn.parties[pp + 1][ss + 1] = SharesOf(rn)[ss + 1]>>,
     <<"two_parties", \A ix \in PRuns(rr) : LET rn == RunAt(rr, ix) IN
          \A pa \in 0..2, pb \in 0..2 : pa # pb =>
             FromTwo(ty, rn.parties[pa + 1], pa, rn.parties[pb + 1], pb) = rn.secret>>,
     \* the masks and the junk are drawn before / independently of the secret: same seed, another
     \* secret => the same r0, r1 and the same junk (so neither is a function of the secret)
     <<"masks_before_secret", \A ix \in PRuns(rr), iy \in PRuns(rr) :
          (ix[1] = iy[1] /\ RunAt(rr, ix).api = RunAt(rr, iy).api) =>
             LET ra == RunAt(rr, ix)
                 rb == RunAt(rr, iy) IN
             /\ SharesOf(ra)[1] = SharesOf(rb)[1]
             /\ SharesOf(ra)[2] = SharesOf(rb)[2]
             /\ \A pp \in 0..2 : ra.parties[pp + 1][JunkSlot(pp) + 1] = rb.parties[pp + 1][JunkSlot(pp) + 1]>>,
     \* the junk slot does not simply carry the third share
     <<"junk_is_not_the_share", \A pp \in 0..2 : \A ap \in {"tv", "rs", "sv"} :
          (pp = 0 \/ rr.bits * Len(rr.seeds) >= 40) =>
             LET rs == { ix \in PRuns(rr) : RunAt(rr, ix).api = ap } IN
             rs # {} => \E ix \in rs : LET rn == RunAt(rr, ix) IN
                           rn.parties[pp + 1][JunkSlot(pp) + 1] # SharesOf(rn)[JunkSlot(pp) + 1]>> >>
\* sanity of the byte layout operators (5 = 00000101b; 0x0201 as two bytes; a round trip)
ASSUME LET u8 == [k |-> "s", st |-> "u8"]
           b8 == [k |-> "a", st |-> "b", sh |-> <<8>>]
           u16 == [k |-> "s", st |-> "u16"]
           a2 == [k |-> "a", st |-> "i8", sh |-> <<2>>] IN
       /\ LeafFromBytes(b8, LeafBytes(u8, <<<<5>>>>)) = <<<<1>>, <<0>>, <<1>>, <<0>>, <<0>>, <<0>>, <<0>>, <<0>>>>
       /\ LeafFromBytes(u8, LeafBytes(b8, <<<<1>>, <<0>>, <<1>>, <<0>>, <<0>>, <<0>>, <<0>>, <<1>>>>)) = <<<<133>>>>
       /\ LeafFromBytes(a2, LeafBytes(u16, <<<<1, 2>>>>)) = <<<<1>>, <<2>>>>
       /\ SameLayout(u8, b8) /\ ~SameLayout(u8, u16) /\ SameLayout(u16, a2)
Failing(fs) == { fs[ii][1] : ii \in { jj \in 1..Len(fs) : ~fs[jj][2] } }

Stride == 4
TraceInit == cur \in 1..Stride /\ cur <= Len(Rec) /\ mty = 0 /\ sec = 0 /\ shr = 0 /\ phase = "trace"
TraceNext == cur + Stride <= Len(Rec) /\ cur' = cur + Stride /\ UNCHANGED svars
TraceSpec == TraceInit /\ [][TraceNext]_<<cur, mty, sec, shr, phase>>
TraceOK == LET bad == Failing(ShFacets(Rec[cur])) IN bad = {} \/ PrintT(<<"BAD", cur, bad>>)
=============================================================================
