----------------------------- MODULE DetLeakTrace -----------------------------
(***************************************************************************)
(* C03 at the real widths: a consequence of ABY3Priv!Private that can be    *)
(* observed on the real evaluator, for protocols whose tape space is far     *)
(* beyond exhaustive enumeration (A2B, B2A, Truncate, comparison circuits,   *)
(* sorting).                                                                 *)
(*                                                                          *)
(* Split the tape of a run into kappa = the entries whose key the observer o *)
(* holds (its own draws and the keys delivered to it) and the rest.  kappa   *)
(* is part of View(o, ., .) (field `rand`), and every value in o's store is  *)
(* a function of the view.  If the view bags of two input vectors xs, ys of   *)
(* one class are equal (Private), then for every kappa and every node n the   *)
(* bags of o's value of n over the remaining tape are equal; in particular   *)
(*                                                                          *)
(*   DetLeakFree:  if o's value of n is the same in all runs on xs with that  *)
(*                 kappa, and the same in all runs on ys with that kappa,     *)
(*                 then the two values are equal.                             *)
(*                                                                          *)
(* (Proof: kappa is the field `rand` of the view and o's value of n is a       *)
(* function of the view; equal bags stay equal under conditioning on a field  *)
(* and under taking a function of the view; two equal bags that are both      *)
(* concentrated on one value are concentrated on the same value.)  A record   *)
(* of IOEnv.TRACE is one (compiled program, observer o, xs, ys differing only  *)
(* in secrets of the other parties; if o receives the output, ys is chosen     *)
(* with the same plaintext result as xs and the record is judged only if o's   *)
(* actual output is the same, see Judged): the                                 *)
(* harness (detleak.rs) ran the compiled graph as three parties on the real   *)
(* evaluator R times on xs and R times on ys, kappa and o's junk fixed,       *)
(* everything else fresh, and lists per entry -- every node of o's store,     *)
(* and for every container-valued node the element-wise differences (mod 2^w, *)
(* XOR for bits) of neighbouring same-typed components, which o can compute   *)
(* from that one value (two elements masked by the same pad) --               *)
(*      <<number of distinct values over the xs runs,                         *)
(*        number of distinct values over the ys runs,                         *)
(*        1 if the first xs value equals the first ys value else 0>>.         *)
(* A node with <<1, 1, 0>> is a value o computes that is determined by the    *)
(* secrets and kappa and differs between xs and ys.  If Private holds, a      *)
(* node's value has one distribution D for xs and ys, and the chance of       *)
(* <<1, 1, 0>> is at most sum_{a # b} D(a)^R D(b)^R <= 2 * 4^(-R).            *)
(***************************************************************************)
EXTENDS Integers, Sequences, FiniteSets, TLC, Json, IOUtils

Recs == ndJsonDeserialize(IOEnv.TRACE)
N == Len(Recs)
Lanes == 8

VARIABLE l

\* An observer that receives the output is entitled to it.  What it receives is the protocol's actual output (for the
\* probabilistic truncations a function of the inputs AND the tape), so such a record is judged only if, for this kappa,
\* the observer's output is one and the same value in all runs on xs and on ys; otherwise the two input vectors are not
\* in one class for this observer and the record says nothing.
Judged(r) == ~r.outobs \/ r.per[r.out] = <<1, 1, 1>>
Leaks(r) == IF Judged(r) THEN {i \in 1..Len(r.per) : r.per[i][1] = 1 /\ r.per[i][2] = 1 /\ r.per[i][3] = 0} ELSE {}
\* nodes whose value at the observer changes with the randomness the observer does not hold: the masked messages
\* and everything computed from them (a record without any is a program without interaction)
Masked(r) == {i \in 1..Len(r.per) : r.per[i][1] > 1}

Init == l \in 1..Lanes
Next == l + Lanes <= N /\ l' = l + Lanes
Spec == Init /\ [][Next]_l

\* The equality pattern between two values of one run, [v_a = v_b], is a function of the view as well: with kappa fixed
\* its distribution must not depend on the hidden inputs.  r.pairs lists, for pairs of store values (of at least 8 bytes)
\* that are equal in every run on one of the two input vectors, <<number of xs runs with v_a = v_b, number of ys runs>>;
\* <<R, 0>> or <<0, R>> is a pair that always coincides for one input vector and never for the other (probability
\* p^R (1-p)^R <= 4^(-R) if Private holds): e.g. two openings sigma_j o pi and sigma_(j+1) o pi of a sort that reuses one
\* shuffle pi coincide exactly when the chunk in between is already in order.
PairLeaks(r) == IF Judged(r) THEN {i \in 1..Len(r.pairs) : r.pairs[i] = <<r.runs, 0>> \/ r.pairs[i] = <<0, r.runs>>} ELSE {}
PairLeakFree == l <= N => (PairLeaks(Recs[l]) = {} \/ PrintT(<<"PAIRLEAK", l, PairLeaks(Recs[l])>>))

DetLeakFree == l <= N => (Leaks(Recs[l]) = {} \/ PrintT(<<"LEAK", l, Leaks(Recs[l])>>))
Stats == l <= N => PrintT(<<"MASKED", l, IF Judged(Recs[l]) THEN Cardinality(Masked(Recs[l])) ELSE -1>>)
=============================================================================
