SPECIFICATION SpecNewton
INVARIANT NewtonInv
CHECK_DEADLOCK FALSE
