---------------------------- MODULE ContextAPIReplay ----------------------------
(***************************************************************************)
(* Judge of the spec -> impl replay (C11, binding B1).                      *)
(* The harness rebuilt every distinct state of the bounded models with the *)
(* real API (path = call indices printed by ContextAPIMC), recorded the    *)
(* full public projection, and then tried every enabled call of the model's *)
(* call table in that state.  One record per state:                        *)
(*   f (index of the feature in the configuration), path, proj,            *)
(*   errs = calls that returned Err and left the projection byte-identical, *)
(*   oks = [i, proj] calls that returned Ok with the new projection,       *)
(*   bad = anything else (an Err that changed the projection, a panic).    *)
(* TLC recomputes the state and every outcome from the specification and   *)
(* compares.  Records are grouped in batches so that workers share them.   *)
(***************************************************************************)
EXTENDS ContextAPI, Json

VARIABLES tl, batch

Cfg == JsonDeserialize(IOEnv.CFG)
Rec == ndJsonDeserialize(IOEnv.TRACE)
BatchSize == 64
NBatches == (Len(Rec) + BatchSize - 1) \div BatchSize

RECURSIVE RunPath(_, _, _)
RunPath(S, calls, p) == IF p = <<>> THEN S ELSE RunPath(StepRes(S, calls[Head(p)]).st, calls, Tail(p))

WithinBounds(F, S, ca) ==
  CASE ca.k = "create" -> S[ca.c + 1].ng < F.maxg[ca.c + 1]
    [] ca.k = "add" -> GraphAt(S, ca.gh).nn < F.maxn[ca.gh[1] + 1]
    [] ca.k = "gann" -> Len(GraphAt(S, ca.gh).ann) < F.maxann
    [] ca.k = "nann" -> Len(NodeAt(S, ca.nh).ann) < F.maxann
    [] OTHER -> TRUE

Why(r) ==
  LET F == Cfg.feats[r.f]
      calls == F.calls
      S == RunPath(InitWorld(F.nc), calls, r.path)
      tried == {r.errs[i] : i \in DOMAIN r.errs} \cup {r.oks[i].i : i \in DOMAIN r.oks}
  IN (IF r.bad = <<>> THEN <<>> ELSE <<[why |-> "err-changed-state-or-panic", call |-> calls[r.bad[1].i], res |-> r.bad[1].res]>>)
     \o (IF S = r.proj.pub THEN <<>> ELSE <<[why |-> "state-projection-differs"]>>)
     \o (IF SerWorld(S) = r.proj.ser THEN <<>> ELSE <<[why |-> "serialized-form-differs"]>>)
     \o (IF WFWorld(S) THEN <<>> ELSE <<[why |-> "spec-state-ill-formed"]>>)
     \o (IF \A i \in DOMAIN r.errs : StepRes(S, calls[r.errs[i]]).res = "err" THEN <<>>
         ELSE <<[why |-> "impl-err-spec-ok",
                 call |-> calls[CHOOSE j \in {r.errs[i] : i \in DOMAIN r.errs} : StepRes(S, calls[j]).res # "err"]]>>)
     \o (IF \A i \in DOMAIN r.oks : StepRes(S, calls[r.oks[i].i]).res = "ok" THEN <<>>
         ELSE <<[why |-> "impl-ok-spec-err",
                 call |-> calls[CHOOSE j \in {r.oks[i].i : i \in DOMAIN r.oks} : StepRes(S, calls[j]).res # "ok"]]>>)
     \o (IF \A i \in DOMAIN r.oks :
               LET q == StepRes(S, calls[r.oks[i].i])
               IN q.res = "ok" => FullProj(q.st) = r.oks[i].proj /\ WFWorld(q.st)
         THEN <<>>
         ELSE <<[why |-> "ok-successor-differs",
                 call |-> calls[r.oks[CHOOSE i \in DOMAIN r.oks :
                                   LET q == StepRes(S, calls[r.oks[i].i])
                                   IN q.res = "ok" /\ ~(FullProj(q.st) = r.oks[i].proj /\ WFWorld(q.st))].i]]>>)
     \o (IF \A i \in DOMAIN calls : HandlesExist(S, calls[i]) /\ WithinBounds(F, S, calls[i]) => i \in tried THEN <<>>
         ELSE <<[why |-> "harness-did-not-try-an-enabled-call"]>>)

CaseOK == tl > 0 =>
            LET y == Why(Rec[tl])
            IN y = <<>> \/ (PrintT(<<"FAIL", ToJson([rec |-> tl, f |-> Rec[tl].f, path |-> Rec[tl].path, why |-> y])>>) /\ FALSE)

RInit == tl = 0 /\ batch = 0 /\ cx = <<>> /\ last = [k |-> "", res |-> "ok"]
RNext == /\ UNCHANGED <<cx, last>>
         /\ \/ tl = 0 /\ batch = 0 /\ \E b \in 1..NBatches : batch' = b /\ tl' = 0
            \/ tl = 0 /\ batch > 0 /\ \E i \in ((batch - 1) * BatchSize + 1)..(IF batch * BatchSize < Len(Rec) THEN batch * BatchSize ELSE Len(Rec)) :
                   tl' = i /\ batch' = batch
=============================================================================
