CONSTANTS
  Features = {"foreign"}
  Tier = "thorough"
INIT Init
NEXT Next
VIEW View
INVARIANTS WellFormed Inferred PrintPath
PROPERTIES ErrNoEffect Frozen
CHECK_DEADLOCK FALSE
