\* C07: judgement of the records written by `inline c07` (IOEnv.C07_RECS)
CONSTANTS
  RingBits = 8
SPECIFICATION Spec
INVARIANT Judge
CHECK_DEADLOCK FALSE
