------------------------------ MODULE Trunc3Trace ------------------------------
(***************************************************************************)
(* C05 at the real widths: judge of three-party and one-store executions of *)
(* compiled Truncate programs recorded from the real evaluator              *)
(* (harness/src/party3.rs).  The outcome relation is TruncLimb!ElemOK.      *)
(***************************************************************************)
EXTENDS TruncLimb, Json, IOUtils

Recs == ndJsonDeserialize(IOEnv.TRACE)

\* r.pre, r.out[p], r.single: flat sequences of limb sequences (scalar or array result); shared output: 3 such shares
AddSh(r, u, v) == [e \in 1..Len(u) |-> RAdd(u[e], v[e], r.w)]
ValOK(r, val) == \A e \in 1..Len(r.pre) : ElemOK(r.pre[e], val[e], r.s, r.w, r.sg, r.pow2)

Judge3(r) ==
  IF Len(r.outs) > 0
  THEN /\ \A k \in 1..Len(r.outs) : LET p == r.outs[k] + 1 IN r.ok[p] /\ ValOK(r, r.out[p])
       \* output parties agree
       /\ \A k \in 1..Len(r.outs) : r.out[r.outs[k] + 1] = r.out[r.outs[1] + 1]
  ELSE /\ \A p \in 1..3 : r.ok[p]
       /\ \A c \in 1..3 : r.out[c][c] = r.out[((c + 1) % 3) + 1][c]
       /\ ValOK(r, AddSh(r, AddSh(r, r.out[1][1], r.out[2][2]), r.out[3][3]))

Judge1(r) ==
  /\ r.single_ok
  /\ IF Len(r.outs) > 0 THEN ValOK(r, r.single)
     ELSE ValOK(r, AddSh(r, AddSh(r, r.single[1], r.single[2]), r.single[3]))

VARIABLES rix, rdone
rvars == <<rix, rdone>>
RInit == rix \in 1..Len(Recs) /\ rdone = FALSE
RNext == rdone = FALSE /\ rdone' = TRUE /\ UNCHANGED rix
RSpec == RInit /\ [][RNext]_rvars
AllJudged == rdone => /\ (Judge3(Recs[rix]) \/ PrintT(<<"BAD3", rix>>))
                      /\ (Judge1(Recs[rix]) \/ PrintT(<<"BAD1", rix>>))
=============================================================================
