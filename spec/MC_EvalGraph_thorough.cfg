SPECIFICATION ESpec
CONSTANT N = 5
INVARIANT NoMissingDependency
INVARIANT OutputSurvives
INVARIANT Released
INVARIANT CountsExact
CHECK_DEADLOCK FALSE
