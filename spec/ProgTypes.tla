------------------------------ MODULE ProgTypes ------------------------------
(***************************************************************************)
(* Well-typedness of imported graphs: the type recorded for every node of   *)
(* an exported graph (source and compiled) must be the type the typing      *)
(* relation CCTyping!OpType assigns to its operation on the recorded types  *)
(* of its dependencies.  A compiler or optimiser pass that registers a      *)
(* wrong type through add_node_with_type is caught here, before the graph   *)
(* is interpreted (an ill-typed graph has no meaning to interpret).         *)
(***************************************************************************)
EXTENDS CCEval, CCTyping, ProgsIO

VARIABLES ti, tdone
tvars == <<ti, tdone>>

TypedNode(G, n) ==
  G[n].op \in TypedOps =>
     LET t == OpType(G[n], ArgTypes(G, n)) IN ~IsErr(t) /\ t = G[n].ty

BadNodes(G) == {n \in 1..Len(G) : ~TypedNode(G, n)}

TInit == ti \in 1..Len(Progs) /\ tdone = FALSE
TNext == tdone = FALSE /\ tdone' = TRUE /\ UNCHANGED ti
TSpec == TInit /\ [][TNext]_tvars

\* every ill-typed graph is printed (one BADTYPE line each); the check reads the lines, so one TLC run finds them all
Report(i, which, G) == BadNodes(G) = {} \/ PrintT(<<"BADTYPE", i, which, BadNodes(G)>>)
WellTyped == tdone => (Report(ti, "mpc", Progs[ti].mpc) /\ Report(ti, "src", Progs[ti].src))
=============================================================================
