------------------------------ MODULE OpsTrace ------------------------------
(***************************************************************************)
(* B2 judge of C09 / C10: every record the harness wrote after driving the *)
(* real add_node / SimpleEvaluator is re-decided by TLC:                   *)
(*   kind "type"  : OpType(rec, ats) = recorded type (or Err)              *)
(*   kind "val"   : the typing agrees, the arguments have their types, and *)
(*                  the recorded outcome equals OpEval (value or runtime   *)
(*                  error), and the byte layout of a value fits the type.  *)
(*                  mode "num": residues modulo 2^min(w,RingBits);         *)
(*                  "tok": opaque tokens (structural operations, the       *)
(*                  harness substitutes extreme values of any width);      *)
(*                  "limb": exact values as base-256 limbs (BigMod).       *)
(*   kind "shape" : the byte layout of a node value fits the node's type   *)
(*                  (and the real check_type said so)                      *)
(*   kind "rt"    : a runtime error, allowed only for the operations that  *)
(*                  are documented to fail on bad indices / assertions     *)
(*   kind "panic" : never acceptable                                       *)
(* One state per record; a failing record is printed ("BAD") and the run   *)
(* continues, so that every failing input is reported.                     *)
(***************************************************************************)
EXTENDS CCTyping, OpsIO, BigMod

CONSTANT Lanes
VARIABLE l

N == Len(Recs)

---------------------------------------------------------------------------
(* exact wide arithmetic: an element is a sequence of NLimbs(w) limbs *)
WBits(t) == BitsOf(t.st)
WZero(w) == LZero(NLimbs(w))

RECURSIVE LSumFrom(_, _, _)
LSumFrom(s, i, w) == IF i > Len(s) THEN WZero(w) ELSE RAdd(s[i], LSumFrom(s, i + 1, w), w)

RMul(aa, bb, w) == RMask(LMul(aa, bb, NLimbs(w)), w)

\* aa \div dd for 0 < dd < 2^23, little-endian result
RECURSIVE LDivFrom(_, _, _, _)
LDivFrom(aa, dd, ii, rem) ==
  IF ii = 0 THEN <<>>
  ELSE LET cur == rem * 256 + aa[ii] IN LDivFrom(aa, dd, ii - 1, cur % dd) \o <<cur \div dd>>
LDivSmall(aa, dd) == LDivFrom(aa, dd, Len(aa), 0)

RECURSIVE DivBySub(_, _, _)
DivBySub(aa, dd, q) == IF LLess(aa, dd) THEN q ELSE DivBySub(LSub(aa, dd), dd, q + 1)

BigScaleLimbs(s) ==
  CASE s = "170141183460469231731687303715884105727" -> [i \in 1..16 |-> IF i = 16 THEN 127 ELSE 255]
    [] s = "170141183460469231731687303715884105728" -> [i \in 1..16 |-> IF i = 16 THEN 128 ELSE 0]
    [] s = "340282366920938463463374607431768211455" -> [i \in 1..16 |-> 255]

\* unsigned quotient of a magnitude by the scale of the record
MagDiv(mag, rec) ==
  LET nl == Len(mag) IN
  IF rec.scale > 0 THEN LDivSmall(mag, rec.scale)
  ELSE IF rec.scale_s = "18446744073709551616" THEN [i \in 1..nl |-> IF i + 8 <= nl THEN mag[i + 8] ELSE 0]
  ELSE IF nl < 16 THEN LZero(nl)
  ELSE LFromNat(DivBySub(mag, BigScaleLimbs(rec.scale_s), 0), nl)

\* Truncate: quotient rounded towards zero on the signed reading (the documentation says "divides";
\* the rounding of negative numbers follows the evaluator, see CCOps!TruncSigned)
WTrunc(aa, rec, signed) ==
  IF signed /\ aa[Len(aa)] >= 128 THEN LNeg(MagDiv(LNeg(aa), rec)) ELSE MagDiv(aa, rec)

RECURSIVE WidenV(_, _)
WidenV(v, t) ==
  IF t.k \in {"s", "a"} THEN [i \in 1..Len(v) |-> LFromNat(v[i], NLimbs(WBits(t)))]
  ELSE LET cs == Components(t) IN [i \in 1..Len(cs) |-> WidenV(v[i], cs[i])]

RECURSIVE WHasType(_, _)
WHasType(v, t) ==
  IF t.k \in {"s", "a"} THEN Len(v) = NumEl(t) /\ \A i \in 1..Len(v) : IsRing(v[i], WBits(t))
  ELSE LET cs == Components(t) IN Len(v) = Len(cs) /\ \A i \in 1..Len(cs) : WHasType(v[i], cs[i])

RECURSIVE WSegCum(_, _, _, _, _, _)
WSegCum(pl, aa, bb, acc, i, w) ==
  IF i > pl.n THEN acc
  ELSE WSegCum(pl, aa, bb,
               acc \o [c \in 1..pl.row |-> IF bb[i][1] = 1 THEN RAdd(aa[(i - 1) * pl.row + c], acc[(i - 1) * pl.row + c], w)
                                           ELSE aa[(i - 1) * pl.row + c]],
               i + 1, w)

WExec(pl, r) ==
  LET k == pl.p  args == r.args  ty == r.ty  w == WBits(IF ty.k \in {"s", "a"} THEN ty ELSE r.ats[1]) IN
  CASE k = "const" -> WidenV(pl.v, ty)
    [] k = "ew" ->
         [o \in 1..Len(pl.m1) |->
            LET a1 == args[1][pl.m1[o]]  a2 == args[2][pl.m2[o]] IN
            CASE pl.f = "add" -> RAdd(a1, a2, w) [] pl.f = "sub" -> RSub(a1, a2, w) [] OTHER -> RMul(a1, a2, w)]
    [] k = "contract" ->
         [o \in 1..Len(pl.ia) |->
            LSumFrom([kk \in 1..Len(pl.ia[o]) |-> RMul(args[1][pl.ia[o][kk]], args[2][pl.ib[o][kk]], w)], 1, w)]
    [] k = "reduce" -> [o \in 1..Len(pl.grp) |-> LSumFrom([q \in 1..Len(pl.grp[o]) |-> args[1][pl.grp[o][q]]], 1, w)]
    [] k = "segcum" -> WSegCum(pl, args[1], args[2], args[3], 1, w)
    [] k = "wtrunc" -> [o \in 1..Len(args[1]) |-> WTrunc(args[1][o], r.rec, IsSigned(ty.st))]
    [] k = "wa2b" -> LET wa == WBits(r.ats[1]) IN
                     [o \in 1..(Len(args[1]) * wa) |-> <<LBit(args[1][((o - 1) \div wa) + 1], (o - 1) % wa)>>]
    [] k = "wb2a" -> LET wr == BitsOf(r.rec.st) IN
                     [o \in 1..(Len(args[1]) \div wr) |->
                        [b \in 1..NLimbs(wr) |->
                           SumSeq([j \in 1..8 |-> args[1][(o - 1) * wr + (b - 1) * 8 + j][1] * Pow2(j - 1)])]]

\* the plans of CCOps cover the exact ring only; Truncate / A2B / B2A of wide types get a plan of their own
WPlan(r) ==
  CASE r.rec.op = "Truncate" -> [p |-> "wtrunc"]
    [] r.rec.op = "A2B" -> [p |-> "wa2b"]
    [] r.rec.op = "B2A" -> [p |-> "wb2a"]
    [] OTHER -> Plan(r.rec, r.ats, r.ty)

---------------------------------------------------------------------------
RECURSIVE ShapeOK(_, _)
ShapeOK(tr, t) ==
  IF t.k \in {"s", "a"} THEN "b" \in DOMAIN tr /\ tr.b = (NumEl(t) * BitsOf(t.st) + 7) \div 8
  ELSE LET cs == Components(t) IN
       "c" \in DOMAIN tr /\ Len(tr.c) = Len(cs) /\ \A i \in 1..Len(cs) : ShapeOK(tr.c[i], cs[i])

\* operations documented to fail at run time on invalid indices / permutations / assertions
MayFail == {"Gather", "ApplyPermutation", "InversePermutation", "VectorGet", "Assert", "CuckooToPermutation",
            "DecomposeSwitchingMap", "Sort"}

ValOK(r) ==
  /\ OpType(r.rec, r.ats) = r.ty
  /\ IF r.mode = "limb"
     THEN /\ \A i \in 1..Len(r.ats) : WHasType(r.args[i], r.ats[i])
          /\ r.res = "value"
          /\ r.out = WExec(WPlan(r), r)
     ELSE LET pl == Plan(r.rec, r.ats, r.ty) IN
          /\ \A i \in 1..Len(r.ats) : HasType(r.args[i], r.ats[i])
          /\ pl.p # "unsupported"
          /\ IF ExecErr(pl, r.args)
             \* an out-of-range index and a failed assertion must be reported as an error; for an argument that
             \* is not a permutation (a violated precondition, the reaction is not documented) any non-crash will do
             THEN (IF pl.p \in {"applyperm", "invperm"} THEN r.res \in {"error", "value"} ELSE r.res = "error")
             ELSE r.res = "value" /\ r.out = Exec(pl, r.args, r.ty)
  \* a value has the byte layout of the node's type (packed bits: (cells + 7) \div 8 bytes) and check_type accepts it
  /\ ("tree" \in DOMAIN r) => (r.chk /\ ShapeOK(r.tree, r.ty))

\* whole-graph evaluation (Evaluator::evaluate_graph, the machine of spec/EvalGraph.tla) of a random graph with a
\* random output node, against node-by-node evaluation of the same graph with the same inputs and PRNG seed:
\* a value iff no node failed at run time, then of the output's type and equal to the node-by-node value;
\* a runtime error iff some node failed; never a panic
GraphOK(r) ==
  CASE r.res = "value" -> ~r.node_rt /\ r.chk /\ r.same
    [] r.res = "error" -> r.node_rt
    [] OTHER -> FALSE

CaseOK(r) ==
  CASE r.kind = "type" -> OpType(r.rec, r.ats) = r.ty
    [] r.kind = "graph" -> GraphOK(r)
    [] r.kind = "val" -> ValOK(r)
    [] r.kind = "shape" -> r.chk /\ ShapeOK(r.tree, r.ty)
    [] r.kind = "rt" -> r.op \in MayFail
    [] OTHER -> FALSE

Init == l \in 1..Lanes
Next == l + Lanes <= N /\ l' = l + Lanes
Spec == Init /\ [][Next]_l

Judge == l <= N => (CaseOK(Recs[l]) \/ PrintT(<<"BAD", Recs[l].id>>))
=============================================================================
