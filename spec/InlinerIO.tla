----------------------------- MODULE InlinerIO -----------------------------
(* Records written by `inline c07` (harness/src/bin/inline.rs); a definition, not a CONSTANT, so that *)
(* TLC evaluates it and the tables derived from it once (docs/CONVENTIONS.md).                        *)
EXTENDS Json, IOUtils
C07Recs == ndJsonDeserialize(IOEnv.C07_RECS)
=============================================================================
