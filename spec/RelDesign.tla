------------------------------ MODULE RelDesign ------------------------------
(* Design-level check for C18: on every key table of 1..MaxRows rows x 1..MaxKB key bits (duplicates included)   *)
(*  - exactly one permutation is a stable sorting permutation (the relation IsStableSort is functional),    *)
(*  - the computed form used for trace validation (SortedByRank) accepts exactly the outputs IsStableSort    *)
(*    accepts (checked on the sorted table and on every other arrangement of its rows),                     *)
(*  - for every permutation p of <= MaxPerm elements: Apply(Apply(a,p), p^-1) = a, p^-1 o p = id, (p^-1)^-1 = p. *)
EXTENDS Relational, IOUtils
MaxRows == IF "MAXN" \in DOMAIN IOEnv THEN atoi(IOEnv.MAXN) ELSE 4
MaxKB == IF "MAXB" \in DOMAIN IOEnv THEN atoi(IOEnv.MAXB) ELSE 2
MaxPerm == IF "MAXP" \in DOMAIN IOEnv THEN atoi(IOEnv.MAXP) ELSE 5

VARIABLES tb, ph
vars == << tb, ph >>
Tables == UNION {[1..n -> BitStrings(b)] : n \in 1..MaxRows, b \in 1..MaxKB}
Init == tb \in {[kd |-> "sort", n |-> 0, keys |-> t] : t \in Tables} \cup {[kd |-> "perm", n |-> n, keys |-> << >>] : n \in 1..MaxPerm} /\ ph = 0
Next == ph = 0 /\ ph' = 1 /\ UNCHANGED tb
Spec == Init /\ [][Next]_vars

BitLess(s, t) == LexLess(s, t)
SortOK(keys) ==
    LET n == Len(keys)
        in == [c \in {"key", "pay"} |-> IF c = "key" THEN keys ELSE [i \in 1..n |-> << i >>]]
        sps == {p \in PermSeqs(n) : IsSortingPerm(keys, BitLess, p)}
    IN /\ Cardinality(sps) = 1
       /\ \A q \in PermSeqs(n) :
            LET out == [c \in {"key", "pay"} |-> ApplyPerm(in[c], q)] IN
            IsStableSort(in, out, keys, BitLess) <=> SortedByRank(in, out, keys, BitLess)
       /\ \E q \in PermSeqs(n) : SortedByRank(in, [c \in {"key", "pay"} |-> ApplyPerm(in[c], q)], keys, BitLess)
PermOK(n) ==
    LET a == [i \in 1..n |-> << 10 + i >>] IN
    \A p \in PermSeqs(n) :
        /\ IsPerm(InvPerm(p))
        /\ ApplyPerm(ApplyPerm(a, p), InvPerm(p)) = a
        /\ ApplyPerm(InvPerm(p), p) = [i \in 1..n |-> i - 1]
        /\ InvPerm(InvPerm(p)) = p
Inv == ph = 1 => IF tb.kd = "perm" THEN PermOK(tb.n) ELSE SortOK(tb.keys)
=============================================================================
