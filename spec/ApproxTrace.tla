---------------------------- MODULE ApproxTrace ----------------------------
(***************************************************************************)
(* Trace validation for C20 (binding B2).  Every record is one array       *)
(* evaluated by the REAL approximation operation (instantiation pass +     *)
(* SimpleEvaluator; field yc: the same graph compiled by compile_context   *)
(* and evaluated).  TLC judges every element of every record:              *)
(*   plaintext  inside the documented domain the output is within the      *)
(*              tolerance of the exact function (Approx part 1); an error  *)
(*              or panic there is a finding; outside nothing is claimed;   *)
(*   compiled   the output is within the truncation allowance of the       *)
(*              plaintext output; for the piecewise-linear operations it   *)
(*              must be explained by the line of the containing segment or *)
(*              of the next one (the secure truncation computes the bucket *)
(*              number as floor + {0, 1}).                                 *)
(* Inputs (x, n, w) are JSON integers; outputs, tables and brackets are    *)
(* integers (enc = "int", the harness saturates at +-2^30) or 16-limb      *)
(* two's complement sequences (enc = "limbs").                             *)
(* One state per record.  Findings are printed as <<"BAD", json>>, the     *)
(* measured deviations as <<"STAT", json>>; the invariant itself stays     *)
(* true so that one run reports every failing record.                      *)
(***************************************************************************)
EXTENDS Approx, ApproxIO

VARIABLES lno, ph
vars == << lno, ph >>
Init == lno \in 1..Len(Recs) /\ ph = 0
Next == ph = 0 /\ ph' = 1 /\ UNCHANGED lno
Spec == Init /\ [][Next]_vars

Has(rec, fld) == fld \in DOMAIN rec
IsW(rec) == rec.enc = "limbs"
PwlOps == {"exp", "sigmoid", "gelu", "pwlsq"}

\* operands of element ii (1-based); cart = 1: the array is the product n (major) x x (minor)
XCount(rec) == IF Has(rec, "xr") THEN rec.xr[2] ELSE Len(rec.x)
XList(rec, jj) == IF Has(rec, "xr") THEN rec.xr[1] + jj - 1 ELSE rec.x[jj]
NList(rec, jj) == IF Has(rec, "nr") THEN rec.nr[1] + jj - 1 ELSE rec.n[jj]
IsCart(rec) == Has(rec, "cart") /\ rec.cart = 1
XAt(rec, ii) == IF IsCart(rec) THEN XList(rec, ((ii - 1) % XCount(rec)) + 1) ELSE XList(rec, ii)
NAt(rec, ii) == IF IsCart(rec) THEN NList(rec, ((ii - 1) \div XCount(rec)) + 1) ELSE NList(rec, ii)

\* configuration of a piecewise-linear record
PLb(rec) == IF rec.op = "exp" THEN 6 ELSE rec.lb
PLft(rec) == IF rec.op = "pwlsq" THEN rec.L ELSE PwlLeft(rec.op)
PRgt(rec) == IF rec.op = "pwlsq" THEN rec.R ELSE PwlRight(rec.op)

Res(cls, dev, tol) == [cls |-> cls, dev |-> dev, tol |-> tol]
Skip == Res("skip", 0, 0)
Verdict(dev, tol) == Res(IF dev <= tol THEN "ok" ELSE "value", dev, tol)

(*--------------------------- plaintext, integers -------------------------*)
\* the documented "x < -10 returns 0" happens for the scaled argument x / ln 2: exact value >= 2 units, result 0
IsCutoff(rec, xv, yy, lo) == yy = 0 /\ lo >= 2 /\ xv > (0 - 10) * (2 ^ rec.p) /\ xv * 1000 < (0 - 6931) * (2 ^ rec.p)

PlainInt(rec, tab, ii) ==
    LET op == rec.op  cap == rec.p  kk == rec.k  xv == XAt(rec, ii)  yy == rec.y[ii] IN
    CASE op = "newton" ->
           IF ~NewtonDom(cap, xv) THEN Skip
           ELSE IF Has(rec, "w") /\ ~NewtonInitJudged(cap, xv, rec.w[ii]) THEN Res("slow_init", 0, 0)
           ELSE LET ee == RecipExp(cap, xv) IN Verdict(AbsV(yy - ee), NewtonTol(cap, kk, ee))
      [] op = "isqrt" ->
           IF ~ISqrtDom(cap, xv) THEN Skip
           ELSE IF Has(rec, "w") /\ ~ISqrtInitJudged(cap, xv, rec.w[ii]) THEN Res("slow_init", 0, 0)
           ELSE LET ee == ISqrtExp(cap, xv) IN Verdict(AbsV(yy - ee), ISqrtTol(cap, kk, ee))
      [] op = "gold" ->
           LET nn == NAt(rec, ii) IN
           IF ~GoldDom(cap, nn, xv) THEN Skip
           ELSE IF Has(rec, "w") /\ ~NewtonInitJudged(cap, xv, rec.w[ii]) THEN Res("slow_init", 0, 0)
           ELSE LET ee == DivExp(cap, nn, xv)  dv == AbsV(yy - ee) IN
                IF cap >= 10 /\ kk = 5 /\ ee >= 256 /\ ~GoldAuthors(ee, yy) THEN Res("value", dv, ee \div 100)
                ELSE Verdict(dv, GoldTol(cap, kk, ee))
      [] op = "fixmul" ->
           \* x * n / 2^p rounded to the grid: less than one unit away
           LET nn == NAt(rec, ii) IN Verdict(AbsV(yy * (2 ^ cap) - xv * nn) \div (2 ^ cap), 0)
      [] op \in {"sigmoid", "gelu"} ->
           IF ~PwlDom(op, cap, xv) THEN Skip ELSE Verdict(BrDev(yy, tab.lo[ii]), PwlTol(op, cap, rec.lb))
      [] op = "exp" ->
           IF ~PwlDom(op, cap, xv) THEN Skip ELSE Verdict(BrDev(yy, tab.lo[ii]), ExpTol(tab.lo[ii]))
      [] op = "taylor" ->
           LET lo == tab.lo[ii] IN
           IF ~TaylorDom(cap, xv, lo) THEN Skip
           ELSE LET dv == BrDev(yy, lo)  tt == TaylorTol(cap, kk, xv, lo) IN
                IF dv > tt THEN Res(IF IsCutoff(rec, xv, yy, lo) THEN "cutoff" ELSE "value", dv, tt)
                ELSE IF cap = 10 /\ kk >= 5 /\ lo >= 256 /\ AbsV(xv) <= 10 * (2 ^ cap) /\ ~TaylorAuthors(lo, yy) /\ ~TaylorAuthors(lo + 1, yy)
                     THEN Res("value", dv, 0)
                ELSE Res("ok", dv, tt)
      [] op = "pwlsq" ->
           \* f(x) = x * x is exact: chord error (bucket width)^2 / 4 plus rounding
           LET dvs == PwlDivisor(cap, rec.lb, rec.L, rec.R) IN
           IF xv < rec.L * (2 ^ cap) \/ xv > rec.R * (2 ^ cap) THEN Skip
           ELSE Verdict(AbsV(yy * (2 ^ cap) - xv * xv) \div (2 ^ cap), (dvs * dvs) \div (4 * (2 ^ cap)) + 1 + PwlRound)

\* does the plaintext output equal the transcribed algorithm (Approx part 2)?  A difference is not a violation of the
\* property (the model is out of date, or the code changed within the tolerance): it is counted.
ModelInt(rec, ii) ==
    LET op == rec.op  cap == rec.p  kk == rec.k  xv == XAt(rec, ii)  yy == rec.y[ii] IN
    CASE op = "newton" /\ cap <= 14 -> yy = (IF Has(rec, "w") THEN NewtonIter(cap, kk, xv, rec.w[ii]) ELSE NewtonAlg(cap, kk, xv))
      [] op = "isqrt" /\ cap <= 10 -> yy = (IF Has(rec, "w") THEN ISqrtIter(cap, kk, xv, rec.w[ii]) ELSE ISqrtAlg(cap, kk, xv))
      [] op = "gold" /\ cap <= 9 -> yy = (IF Has(rec, "w") THEN GoldAlgW(cap, kk, NAt(rec, ii), xv, rec.w[ii]) ELSE GoldAlg(cap, kk, NAt(rec, ii), xv))
      [] op = "fixmul" -> yy = TDiv(xv * NAt(rec, ii), 2 ^ cap)
      [] op \in PwlOps -> yy = TDiv(PwlLine(xv, PwlSegPlain(xv, cap, PLb(rec), PLft(rec), PRgt(rec)), rec.al, rec.be), 2 ^ cap)
      [] OTHER -> TRUE
PwlSqTabOK(rec) ==
    LET xs == PwlXs(rec.p, rec.lb, rec.L, rec.R)  ys == PwlSqYs(rec.p, rec.lb, rec.L, rec.R)
        al == PwlAlpha(xs, ys, rec.p, rec.lb, rec.fl = 1, rec.fr = 1) IN
    rec.al = al /\ rec.be = PwlBeta(xs, ys, al, rec.p, rec.lb, rec.fl = 1, rec.fr = 1)

(*--------------------------- plaintext, limbs ----------------------------*)
PlainW(rec, tab, ii) ==
    LET op == rec.op  cap == rec.p  kk == rec.k  xv == XAt(rec, ii)  yy == rec.y[ii] IN
    CASE op = "newton" ->
           IF ~NewtonDom(cap, xv) \/ NewtonRel(kk)[1] # 0 THEN Skip
           ELSE IF Has(rec, "w") /\ ~(WLeq(WPow2(cap - 1), WMulNat(WNat(xv), rec.w[ii]))
                                      /\ WLeq(WMulNat(WNat(xv), rec.w[ii]), WMulSmall(WPow2(cap - 1), 3))) THEN Res("slow_init", 0, 0)
           ELSE Res(IF RecipWithinW(cap, xv, yy, NewtonAbs) THEN "ok" ELSE "value", 0, NewtonAbs)
      [] op = "isqrt" ->
           IF ~(1 <= xv /\ xv < 2097152) \/ ISqrtRel(kk)[1] # 0 \/ Has(rec, "w") THEN Skip
           ELSE Res(IF ISqrtWithinW(cap, xv, yy, ISqrtAbs) THEN "ok" ELSE "value", 0, ISqrtAbs)
      [] op = "gold" ->
           LET nn == NAt(rec, ii)  rl == NewtonRel(kk - 1) IN
           IF ~(1 <= xv /\ 1 <= nn /\ xv < 2 ^ (cap - 1) /\ nn < 2 ^ (cap - 1)) \/ Has(rec, "w") \/ kk < 4 THEN Skip
           ELSE LET tw == IF rl[1] = 0 THEN GoldTolW(cap, kk, yy)
                          ELSE WAdd(GoldTolW(cap, kk, yy), WAdd(WShr(yy, 2 ^ (kk - 1)), WNat(1))) IN
                Res(IF ~WNeg(yy) /\ DivWithinW(cap, nn, xv, yy, tw) THEN "ok" ELSE "value", 0, 0)
      [] op = "fixmul" ->
           LET lv == WMulInt(WInt(xv), NAt(rec, ii))  sc == WShl(yy, cap) IN
           Res(IF WLess(WSub(lv, sc), WPow2(cap)) /\ WLess(WSub(sc, lv), WPow2(cap)) THEN "ok" ELSE "value", 0, 0)
      [] op \in {"sigmoid", "gelu"} ->
           IF ~PwlDom(op, cap, xv) THEN Skip
           ELSE Res(IF BrCloseW(yy, tab.lo[ii], PwlTol(op, cap, rec.lb)) THEN "ok" ELSE "value", BrDevW(yy, tab.lo[ii]), PwlTol(op, cap, rec.lb))
      [] op = "exp" ->
           IF ~PwlDom(op, cap, xv) THEN Skip
           ELSE Res(IF ExpCloseW(yy, tab.lo[ii]) THEN "ok" ELSE "value", BrDevW(yy, tab.lo[ii]), 0)
      [] OTHER -> Skip
ModelW(rec, ii) ==
    IF rec.op \in PwlOps
    THEN PwlPlainW(rec.y[ii], XAt(rec, ii), PwlSegPlain(XAt(rec, ii), rec.p, PLb(rec), PLft(rec), PRgt(rec)), rec.al, rec.be, rec.p)
    ELSE TRUE

(*--------------------------- compiled ------------------------------------*)
\* piecewise-linear: explained by the containing segment (bump 0) or the next one (bump 1)?
PwlCompClass(rec, ii, close) ==
    LET xv == XAt(rec, ii)  yc == rec.yc[ii]
        s0 == PwlSegComp(xv, rec.p, PLb(rec), PLft(rec), PRgt(rec), 0)
        s1 == PwlSegComp(xv, rec.p, PLb(rec), PLft(rec), PRgt(rec), 1)
        e0 == IF IsW(rec) THEN PwlExplainedW(yc, xv, s0, rec.al, rec.be, rec.p) ELSE PwlExplained(yc, xv, s0, rec.al, rec.be, rec.p)
        e1 == IF IsW(rec) THEN PwlExplainedW(yc, xv, s1, rec.al, rec.be, rec.p) ELSE PwlExplained(yc, xv, s1, rec.al, rec.be, rec.p)
    IN IF ~e0 /\ ~e1 THEN "compiled_unexplained"
       ELSE IF ~e0 /\ ~close THEN "compiled_adjacent_bucket"
       ELSE "ok"

CompInt(rec, tab, ii, pl) ==
    LET op == rec.op  cap == rec.p  kk == rec.k  dv == AbsV(rec.yc[ii] - rec.y[ii]) IN
    IF pl.cls \in {"skip", "slow_init"} THEN Skip
    ELSE CASE op \in {"newton", "isqrt"} -> Res(IF dv <= NewtonCAllow THEN "ok" ELSE "compiled_value", dv, NewtonCAllow)
           [] op = "gold" -> LET al == GoldCAllow(cap, kk, DivExp(cap, NAt(rec, ii), XAt(rec, ii))) IN
                             Res(IF dv <= al THEN "ok" ELSE "compiled_value", dv, al)
           [] op = "taylor" -> LET al == TaylorCAllow(cap, kk, tab.lo[ii]) IN Res(IF dv <= al THEN "ok" ELSE "compiled_value", dv, al)
           [] op = "fixmul" -> Res(IF dv <= FixMulCAllow THEN "ok" ELSE "compiled_value", dv, FixMulCAllow)
           [] op \in PwlOps -> Res(PwlCompClass(rec, ii, dv <= PwlCAllow), dv, PwlCAllow)
CompW(rec, tab, ii, pl) ==
    LET op == rec.op  cap == rec.p  kk == rec.k  yc == rec.yc[ii]  yy == rec.y[ii] IN
    IF pl.cls \in {"skip", "slow_init"} THEN Skip
    ELSE CASE op \in {"newton", "isqrt"} -> Res(IF WithinW(yc, yy, WNat(NewtonCAllow)) THEN "ok" ELSE "compiled_value", 0, NewtonCAllow)
           [] op = "gold" -> Res(IF WithinW(yc, yy, WAdd(WNat(kk), WMulNat(WAdd(WShr(yy, cap), WNat(2)), kk))) THEN "ok" ELSE "compiled_value", 0, 0)
           [] op = "fixmul" -> Res(IF WithinW(yc, yy, WNat(FixMulCAllow)) THEN "ok" ELSE "compiled_value", 0, FixMulCAllow)
           [] op \in PwlOps -> Res(PwlCompClass(rec, ii, WithinW(yc, yy, WNat(PwlCAllow))), WSmallAbs(WSub(yc, yy)), PwlCAllow)
           [] OTHER -> Skip

(*--------------------------- one record ----------------------------------*)
Report(rec, cls, idx, cnt) == PrintT(<< "BAD", ToJson([id |-> rec.id, class |-> cls, idx |-> idx, cnt |-> cnt]) >>)
ReportAll(rec, res, classes) ==
    \A cl \in classes :
        LET hit == {ii \in DOMAIN res : res[ii].cls = cl} IN
        IF hit = {} THEN TRUE ELSE Report(rec, cl, CHOOSE ii \in hit : \A jj \in hit : ii <= jj, Cardinality(hit))

RECURSIVE ArgMax(_, _, _)
ArgMax(res, ii, best) ==
    IF ii > Len(res) THEN best
    ELSE ArgMax(res, ii + 1, IF res[ii].cls \notin {"skip", "slow_init"} /\ (best = 0 \/ res[ii].dev > res[best].dev) THEN ii ELSE best)

Judge(rec, tab) ==
    LET nn == rec.len
        plain == IF rec.out # "ok" THEN << >>
                 ELSE [ii \in 1..nn |-> IF IsW(rec) THEN PlainW(rec, tab, ii) ELSE PlainInt(rec, tab, ii)]
        \* an element inside the documented domain (used when the operation failed as a whole)
        indom == \E ii \in 1..nn : (IF IsW(rec) THEN PlainW([rec EXCEPT !.y = [jj \in 1..nn |-> WNat(0)]], tab, ii)
                                    ELSE PlainInt([rec EXCEPT !.y = [jj \in 1..nn |-> 0]], tab, ii)).cls \notin {"skip", "slow_init"}
    IN
    IF tab.id # rec.id THEN Report(rec, "table", 0, 0)
    ELSE IF rec.out # "ok" THEN (IF indom THEN Report(rec, "error", 0, 0) ELSE TRUE)
    ELSE IF Len(rec.y) # nn THEN Report(rec, "shape", 0, 0)
    ELSE
      LET pres == TLCEval(plain)
          hasc == Has(rec, "yc")
          cres == IF hasc /\ rec.cout = "ok" /\ Len(rec.yc) = nn
                  THEN TLCEval([ii \in 1..nn |-> IF IsW(rec) THEN CompW(rec, tab, ii, pres[ii]) ELSE CompInt(rec, tab, ii, pres[ii])])
                  ELSE << >>
          judged == Cardinality({ii \in 1..nn : pres[ii].cls \notin {"skip", "slow_init"}})
          slow == Cardinality({ii \in 1..nn : pres[ii].cls = "slow_init"})
          mm == Cardinality({ii \in 1..nn : pres[ii].cls \notin {"skip", "slow_init"}
                                            /\ ~(IF IsW(rec) THEN ModelW(rec, ii) ELSE ModelInt(rec, ii))})
                + (IF rec.op = "pwlsq" /\ ~PwlSqTabOK(rec) THEN 1 ELSE 0)
          pm == ArgMax(pres, 1, 0)
          cm == IF cres = << >> THEN 0 ELSE ArgMax(cres, 1, 0)
      IN
      /\ ReportAll(rec, pres, {"value", "cutoff"})
      /\ IF hasc /\ judged > 0 /\ (rec.cout # "ok" \/ Len(rec.yc) # nn) THEN Report(rec, "compiled_error", 0, 0) ELSE TRUE
      /\ ReportAll(rec, cres, {"compiled_value", "compiled_unexplained", "compiled_adjacent_bucket"})
      /\ PrintT(<< "STAT", ToJson([id |-> rec.id, judged |-> judged, slow |-> slow, mm |-> mm,
                                   dev |-> IF pm = 0 THEN 0 ELSE pres[pm].dev, tol |-> IF pm = 0 THEN 0 ELSE pres[pm].tol, at |-> pm,
                                   cdev |-> IF cm = 0 THEN 0 ELSE cres[cm].dev, cat |-> cm]) >>)

Judged == ph = 1 => Judge(Recs[lno], Tabs[lno])
=============================================================================
