----------------------------- MODULE PrefixSums -----------------------------
(***************************************************************************)
(* The three prefix-sum algorithms and log_depth_sum of                    *)
(* ciphercore-base/src/inline/data_structures.rs, transcribed loop by loop *)
(* (one step of the state machine = one execution of an innermost loop     *)
(* body; indices are the 0-based indices of the Rust code), and the        *)
(* selection rule of inline_common.rs::pick_prefix_sum_algorithm.          *)
(*                                                                         *)
(* Items are elements of the FREE MONOID over the positions: item i is the *)
(* one-letter word <<i>> and combine is concatenation.  An algorithm that  *)
(* is correct here - result i is exactly the word 0 1 ... i - is correct   *)
(* for every associative combine, and for nothing less: an item used       *)
(* twice, dropped, or combined in the wrong order gives a different word.  *)
(*                                                                         *)
(* The inliners call these with                                            *)
(*   associative body : items = <<initial state, input 0 .. input n-1>>    *)
(*                      (n+1 items), algorithm picked by n                 *)
(*   small/one-bit    : items = the n transition mappings, picked by n     *)
(*   empty output     : log_depth_sum over the same items.                 *)
(* Every combine is one inlined copy of the body (associative) or one      *)
(* Matmul / one bit-combiner (small state); Count* below give the number   *)
(* of combines in closed form, TLC checks them against the transcription,  *)
(* and C07 compares them with the inlined graphs the real code produces    *)
(* (which is how the check knows which strategy ran).                      *)
(***************************************************************************)
EXTENDS PrefixSumsRule, FiniteSets, TLC   \* PrefixSumsRule: Pick, Count, BlockSize

CONSTANT Lengths        \* set of item counts explored

Algs == {"lds", "ascent", "sqrt", "segtree"}

VARIABLES alg,      \* algorithm being run
          len,      \* number of items
          arr,      \* combined_items (lds: the current layer)
          aux,      \* lds: new_combined_items
          lay,      \* segment tree: layers
          ii,       \* loop index i
          jj,       \* loop index j / layer index
          dep,      \* binary ascent: depth; sqrt: block_size
          ph,       \* phase (program counter)
          cnt,      \* number of combine calls so far
          res       \* result once ph = "done"

vars == <<alg, len, arr, aux, lay, ii, jj, dep, ph, cnt, res>>

\* ------------------------------------------------------------ free monoid
Items(n) == [k \in 1..n |-> <<k - 1>>]
Combine(a, b) == a \o b
Word(lo, hi) == [k \in 1..(hi - lo + 1) |-> lo + k - 1]      \* the word lo lo+1 .. hi
At(s, i) == s[i + 1]                                        \* 0-based read
Put(s, i, v) == [s EXCEPT ![i + 1] = v]                     \* 0-based write
Max2(a, b) == IF a > b THEN a ELSE b

\* ------------------------------------------------------------ the algorithms
Init ==
  /\ alg \in Algs
  /\ len \in Lengths
  /\ arr = Items(len)
  /\ aux = <<>>
  /\ lay = <<Items(len)>>
  /\ ii = 0 /\ jj = 0
  /\ dep = IF alg = "sqrt" THEN BlockSize(len) ELSE 1
  /\ cnt = 0
  /\ res = <<>>
  /\ ph = IF len = 0 THEN "empty" ELSE "outer"

\* `if items.is_empty()`: Err for log_depth_sum, Ok(vec![]) for the prefix sums
Empty ==
  /\ ph = "empty"
  /\ ph' = "done"
  /\ res' = IF alg = "lds" THEN "err" ELSE <<>>
  /\ UNCHANGED <<alg, len, arr, aux, lay, ii, jj, dep, cnt>>

(* log_depth_sum, data_structures.rs:10-33 *)
LdsOuter ==
  /\ alg = "lds" /\ ph = "outer"
  /\ IF Len(arr) > 1
     THEN /\ aux' = <<>> /\ ii' = 0 /\ ph' = "inner" /\ UNCHANGED res
     ELSE /\ ph' = "done" /\ res' = At(arr, 0) /\ UNCHANGED <<aux, ii>>
  /\ UNCHANGED <<alg, len, arr, lay, jj, dep, cnt>>
LdsInner ==
  /\ alg = "lds" /\ ph = "inner"
  /\ IF ii < Len(arr)                               \* for i in (0..len).step_by(2)
     THEN LET j == ii + 1 IN
          /\ IF j >= Len(arr)
             THEN aux' = Append(aux, At(arr, ii)) /\ UNCHANGED cnt
             ELSE aux' = Append(aux, Combine(At(arr, ii), At(arr, j))) /\ cnt' = cnt + 1
          /\ ii' = ii + 2
          /\ UNCHANGED <<arr, ph>>
     ELSE /\ arr' = aux /\ ph' = "outer" /\ UNCHANGED <<aux, ii, cnt>>
  /\ UNCHANGED <<alg, len, lay, jj, dep, res>>

(* prefix_sums_binary_ascent, data_structures.rs:40-58 *)
AscOuter ==
  /\ alg = "ascent" /\ ph = "outer"
  /\ IF dep < Len(arr)                               \* while depth < len
     THEN /\ ii' = Len(arr) - 1 /\ ph' = "inner" /\ UNCHANGED res     \* (depth..len).rev()
     ELSE /\ ph' = "done" /\ res' = arr /\ UNCHANGED ii
  /\ UNCHANGED <<alg, len, arr, aux, lay, jj, dep, cnt>>
AscInner ==
  /\ alg = "ascent" /\ ph = "inner"
  /\ IF ii >= dep
     THEN /\ arr' = Put(arr, ii, Combine(At(arr, ii - dep), At(arr, ii)))
          /\ cnt' = cnt + 1
          /\ ii' = ii - 1
          /\ UNCHANGED <<dep, ph>>
     ELSE /\ dep' = 2 * dep /\ ph' = "outer" /\ UNCHANGED <<arr, cnt, ii>>
  /\ UNCHANGED <<alg, len, aux, lay, jj, res>>

(* prefix_sums_sqrt_trick, data_structures.rs:65-90; dep = block_size *)
SqrtOuter ==       \* first loop: for i in 0..len
  /\ alg = "sqrt" /\ ph = "outer"
  /\ IF ii < Len(arr)
     THEN /\ IF ii % dep # 0
             THEN arr' = Put(arr, ii, Combine(At(arr, ii - 1), At(arr, ii))) /\ cnt' = cnt + 1
             ELSE UNCHANGED <<arr, cnt>>
          /\ ii' = ii + 1 /\ UNCHANGED ph
     ELSE /\ ii' = dep /\ ph' = "inner" /\ UNCHANGED <<arr, cnt>>
  /\ UNCHANGED <<alg, len, aux, lay, jj, dep, res>>
SqrtInner ==       \* second loop: for i in block_size..len
  /\ alg = "sqrt" /\ ph = "inner"
  /\ IF ii < Len(arr)
     THEN /\ arr' = Put(arr, ii, Combine(At(arr, ii - (ii % dep) - 1), At(arr, ii)))
          /\ cnt' = cnt + 1
          /\ ii' = ii + 1
          /\ UNCHANGED <<ph, res>>
     ELSE /\ ph' = "done" /\ res' = arr /\ UNCHANGED <<arr, cnt, ii>>
  /\ UNCHANGED <<alg, len, aux, lay, jj, dep>>

(* prefix_sums_segment_tree, data_structures.rs:97-134; jj = `layer` (up) / `i` (down), ii = `i` (up) / `j` (down) *)
SegUpOuter ==
  /\ alg = "segtree" /\ ph = "outer"
  /\ IF Len(At(lay, jj)) > 1                         \* while layers[layer].len() > 1
     THEN /\ aux' = <<>> /\ ii' = 0 /\ ph' = "inner" /\ UNCHANGED jj
     ELSE \* for i in (0..layers.len() - 1).rev()
          /\ IF Len(lay) - 1 > 0
             THEN jj' = Len(lay) - 2 /\ ii' = 1 /\ ph' = "down"
             ELSE jj' = 0 /\ ii' = 0 /\ ph' = "finish"
          /\ UNCHANGED aux
  /\ UNCHANGED <<alg, len, arr, lay, dep, cnt, res>>
SegUpInner ==
  /\ alg = "segtree" /\ ph = "inner"
  /\ LET cur == At(lay, jj) IN
     IF ii < Len(cur)                                \* for i in (0..len).step_by(2)
     THEN /\ IF ii + 1 < Len(cur)
             THEN aux' = Append(aux, Combine(At(cur, ii), At(cur, ii + 1))) /\ cnt' = cnt + 1
             ELSE aux' = Append(aux, At(cur, ii)) /\ UNCHANGED cnt
          /\ ii' = ii + 2
          /\ UNCHANGED <<lay, jj, ph>>
     ELSE /\ jj' = jj + 1 /\ lay' = Append(lay, aux) /\ ph' = "outer" /\ UNCHANGED <<aux, ii, cnt>>
  /\ UNCHANGED <<alg, len, arr, dep, res>>
SegDown ==
  /\ alg = "segtree" /\ ph = "down"
  /\ LET cur == At(lay, jj)  up == At(lay, jj + 1) IN
     IF ii < Len(cur)                                \* for j in 1..layers[i].len()
     THEN /\ IF ii % 2 = 1
             THEN lay' = Put(lay, jj, Put(cur, ii, At(up, ii \div 2))) /\ UNCHANGED cnt
             ELSE lay' = Put(lay, jj, Put(cur, ii, Combine(At(up, (ii - 1) \div 2), At(cur, ii))))
                  /\ cnt' = cnt + 1
          /\ ii' = ii + 1 /\ UNCHANGED <<jj, ph>>
     ELSE /\ IF jj > 0 THEN jj' = jj - 1 /\ ii' = 1 /\ UNCHANGED ph
                       ELSE ph' = "finish" /\ UNCHANGED <<ii, jj>>
          /\ UNCHANGED <<lay, cnt>>
  /\ UNCHANGED <<alg, len, arr, aux, dep, res>>
SegFinish ==
  /\ alg = "segtree" /\ ph = "finish"
  /\ ph' = "done" /\ res' = At(lay, 0)
  /\ UNCHANGED <<alg, len, arr, aux, lay, ii, jj, dep, cnt>>

Next == Empty \/ LdsOuter \/ LdsInner \/ AscOuter \/ AscInner \/ SqrtOuter \/ SqrtInner
        \/ SegUpOuter \/ SegUpInner \/ SegDown \/ SegFinish

Spec == Init /\ [][Next]_vars
FairSpec == Spec /\ WF_vars(Next)

\* ------------------------------------------------------------ properties
\* "result i = items 0..i in order, each exactly once"
PrefixCorrect(r, n) == Len(r) = n /\ \A i \in 0..(n - 1) : At(r, i) = Word(0, i)

Correct ==
  ph = "done" =>
    /\ IF alg = "lds" THEN (IF len = 0 THEN res = "err" ELSE res = Word(0, len - 1))
                      ELSE PrefixCorrect(res, len)
    /\ cnt = Count(alg, len)

\* the loop invariants written as comments in the Rust code
AscentLoopInv ==   \* combined_items[i] = sum(items[max(i - depth + 1, 0) : i + 1])
  (alg = "ascent" /\ ph = "outer") =>
     \A i \in 0..(len - 1) : At(arr, i) = Word(Max2(i - dep + 1, 0), i)
SqrtLoopInv ==     \* combined_items[i] = sum(items[i - i % block_size : i + 1])
  (alg = "sqrt" /\ ph = "inner" /\ ii = dep) =>
     \A i \in 0..(len - 1) : At(arr, i) = Word(i - (i % dep), i)
SegTreeUpInv ==    \* every layer partitions 0..len-1 into consecutive blocks, in order
  (alg = "segtree" /\ ph = "outer") =>
     \A k \in 1..Len(lay) :
        LET L == lay[k] IN
        /\ L[1][1] = 0 /\ L[Len(L)][Len(L[Len(L)])] = len - 1
        /\ \A i \in 1..Len(L) : L[i] = Word(L[i][1], L[i][1] + Len(L[i]) - 1)
        /\ \A i \in 1..(Len(L) - 1) : L[i + 1][1] = L[i][1] + Len(L[i])

\* whatever the selection rule picks is a correct algorithm for the list it is applied to
\* (n+1 items for the associative strategy, n for the small-state strategy); checked via Correct
\* for every algorithm and every length, the rule itself is bound to the code by check C07.
Terminates == <>(ph = "done")
=============================================================================
