INIT TInit
NEXT TNext
INVARIANTS TraceOK
POSTCONDITION Consumed
CHECK_DEADLOCK FALSE
