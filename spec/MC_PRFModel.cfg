\* C15: all histories of 4 PRF calls (2 keys x 2 counters x 2 types, 3 evaluator instances) + fixed histories
CONSTANT HistLen = 4
CONSTANT GenLevel = 1
SPECIFICATION PSpec
INVARIANT TableIsHistoryFree
INVARIANT EmitHist
CHECK_DEADLOCK FALSE
