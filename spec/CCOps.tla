-------------------------------- MODULE CCOps --------------------------------
(***************************************************************************)
(* Reference semantics of the primitive operations, written from the doc   *)
(* comments of graphs.rs (and the NumPy/ONNX rules they cite), NOT from    *)
(* the evaluator.  An operation is a record  [op |-> name, params...]      *)
(* (the JSON form exported by the harness).                                *)
(*                                                                         *)
(* Semantics is split in two so that TLC can interpret imported graphs     *)
(* fast:  Plan(rec, ats, ot)  does all index arithmetic that depends only  *)
(* on types (ats = argument types, ot = result type);  Exec(plan, args)    *)
(* applies it to argument values.   OpEval = Exec \circ Plan.              *)
(***************************************************************************)
EXTENDS CCValues

AddM(a, b, m) == (a + b) % m
SubM(a, b, m) == (a - b + m) % m
\* a, b < 2^15 so the product fits TLC's 32-bit integers
MulM(a, b, m) == (a * b) % m

RECURSIVE SumM(_, _)
SumM(s, m) == IF s = <<>> THEN 0 ELSE (Head(s) + SumM(Tail(s), m)) % m

Range0(n) == [i \in 1..n |-> i - 1]

\* bit j (0 = least significant) of x
BitOf(a, j) == (a \div Pow2(j)) % 2

---------------------------------------------------------------------------
(* Slices (slices.rs, documented as NumPy basic slicing restricted to      *)
(* in-range, non-empty selections).                                        *)
NumEllipsis(sl) == Cardinality({i \in 1..Len(sl) : sl[i].e = "e"})

FullSub == [e |-> "s", hb |-> FALSE, b |-> 0, he |-> FALSE, en |-> 0, hs |-> FALSE, s |-> 1]

\* replace the ellipsis by as many full sub-arrays as needed
RECURSIVE CleanSlice(_, _, _)
CleanSlice(sl, rank, total) ==
  IF sl = <<>> THEN <<>>
  ELSE IF Head(sl).e = "e"
       THEN RepeatSeq(FullSub, rank - total + 1) \o CleanSlice(Tail(sl), rank, total)
       ELSE <<Head(sl)>> \o CleanSlice(Tail(sl), rank, total)

\* (begin, end, step) of a sub-array element on a dimension of size d
SubStep(e) == IF e.hs THEN e.s ELSE 1
SubBegin(e, d) == LET st == SubStep(e)
                      b0 == IF e.hb THEN e.b ELSE (IF st > 0 THEN 0 ELSE d - 1)
                  IN IF b0 < 0 THEN b0 + d ELSE b0
SubEnd(e, d) == LET st == SubStep(e)
                IN IF e.he THEN (IF e.en >= 0 THEN e.en ELSE e.en + d)
                   ELSE (IF st > 0 THEN d ELSE -1)
\* number of selected positions: ceil((end-begin)/step) when it is positive
SubCount(e, d) ==
  LET b == SubBegin(e, d)  en == SubEnd(e, d)  st == SubStep(e)
  IN IF st > 0 THEN (IF en > b THEN (en - b + st - 1) \div st ELSE 0)
     ELSE (IF en < b THEN (b - en + (-st) - 1) \div (-st) ELSE 0)

\* The slice is accepted on shape sh (at most one ellipsis, not longer than the rank, every
\* selected position in range, no empty selection, step # 0).
SliceOK(sl, sh) ==
  /\ NumEllipsis(sl) <= 1
  /\ (NumEllipsis(sl) = 1 => Len(sh) - Len(sl) + 1 >= 0)
  /\ LET cs == CleanSlice(sl, Len(sh), Len(sl))
     IN /\ Len(cs) <= Len(sh)
        /\ \A i \in 1..Len(cs) :
             IF cs[i].e = "i"
             THEN LET r == IF cs[i].i < 0 THEN cs[i].i + sh[i] ELSE cs[i].i IN r >= 0 /\ r < sh[i]
             ELSE /\ SubStep(cs[i]) # 0
                  /\ SubCount(cs[i], sh[i]) > 0
                  /\ LET b == SubBegin(cs[i], sh[i])
                         last == b + (SubCount(cs[i], sh[i]) - 1) * SubStep(cs[i])
                     IN b >= 0 /\ b < sh[i] /\ last >= 0 /\ last < sh[i]

RECURSIVE SliceShapeR(_, _, _)
SliceShapeR(cs, sh, i) ==
  IF i > Len(sh) THEN <<>>
  ELSE IF i > Len(cs) THEN <<sh[i]>> \o SliceShapeR(cs, sh, i + 1)
  ELSE IF cs[i].e = "i" THEN SliceShapeR(cs, sh, i + 1)
  ELSE <<SubCount(cs[i], sh[i])>> \o SliceShapeR(cs, sh, i + 1)
SliceShape(sl, sh) == SliceShapeR(CleanSlice(sl, Len(sh), Len(sl)), sh, 1)

\* source multi-index in the sliced array for result multi-index ridx
RECURSIVE SliceSrcR(_, _, _, _, _)
SliceSrcR(cs, sh, ridx, i, j) ==
  IF i > Len(sh) THEN <<>>
  ELSE IF i > Len(cs) THEN <<ridx[j]>> \o SliceSrcR(cs, sh, ridx, i + 1, j + 1)
  ELSE IF cs[i].e = "i"
       THEN <<(IF cs[i].i < 0 THEN cs[i].i + sh[i] ELSE cs[i].i)>> \o SliceSrcR(cs, sh, ridx, i + 1, j)
       ELSE <<SubBegin(cs[i], sh[i]) + SubStep(cs[i]) * ridx[j]>> \o SliceSrcR(cs, sh, ridx, i + 1, j + 1)

---------------------------------------------------------------------------
(* Plans *)

Gather1(src) == [p |-> "gather", src |-> src]   \* src: sequence of <<argument, position>> (1-based)

\* positions of the argument sh summed into each result element when summing over `axes` (0-based axes)
SumGroups(sh, axes) ==
  LET keep == SelectSeq(Range0(Len(sh)), LAMBDA a : \A k \in 1..Len(axes) : axes[k] # a)
      rsh == [i \in 1..Len(keep) |-> sh[keep[i] + 1]]
      n == Prod(sh)
      keyOf(pos) == LET mi == Unravel(pos - 1, sh) IN Ravel([i \in 1..Len(keep) |-> mi[keep[i] + 1]], rsh)
  IN [r \in 1..Prod(rsh) |-> SelectSeq([q \in 1..n |-> q], LAMBDA q : keyOf(q) = r - 1)]

\* positions summed into each element of a cumulative sum along `axis`
CumGroups(sh, axis) ==
  LET n == Prod(sh)
  IN [r \in 1..n |->
        LET mr == Unravel(r - 1, sh)
        IN SelectSeq([q \in 1..n |-> q],
             LAMBDA q : LET mq == Unravel(q - 1, sh)
                        IN /\ mq[axis + 1] <= mr[axis + 1]
                           /\ \A d \in 1..Len(sh) : d # axis + 1 => mq[d] = mr[d])]

\* numpy.matmul on shapes s0, s1 (rank-1 operands are promoted and the added dimension removed).
\* Also used for Gemm: the ONNX rules cited by Graph::gemm speak of 2-D matrices only; batch dimensions
\* (broadcast like matmul) follow the acceptance rule of type_inference.rs (CCTyping!GemmType).
MatmulPlan(s0in, s1in, tr0, tr1) ==
  LET p0 == Len(s0in) = 1
      p1 == Len(s1in) = 1
      a0 == IF p0 THEN <<1>> \o s0in ELSE s0in          \* promoted, untransposed
      a1 == IF p1 THEN s1in \o <<1>> ELSE s1in
      r0 == Len(a0)  r1 == Len(a1)
      \* logical (after optional transposition of the two last axes)
      m == IF tr0 THEN a0[r0] ELSE a0[r0 - 1]
      k == IF tr0 THEN a0[r0 - 1] ELSE a0[r0]
      n == IF tr1 THEN a1[r1 - 1] ELSE a1[r1]
      b0 == SubSeq(a0, 1, r0 - 2)
      b1 == SubSeq(a1, 1, r1 - 2)
      bs == BroadcastShape(b0, b1)
      full == bs \o <<m, n>>
      off0 == Len(bs) - Len(b0)
      off1 == Len(bs) - Len(b1)
      posA(bi, i, kk) == 1 + Ravel([d \in 1..r0 |->
                              IF d <= r0 - 2 THEN (IF b0[d] = 1 THEN 0 ELSE bi[d + off0])
                              ELSE IF d = r0 - 1 THEN (IF tr0 THEN kk ELSE i)
                              ELSE (IF tr0 THEN i ELSE kk)], a0)
      posB(bi, kk, j) == 1 + Ravel([d \in 1..r1 |->
                              IF d <= r1 - 2 THEN (IF b1[d] = 1 THEN 0 ELSE bi[d + off1])
                              ELSE IF d = r1 - 1 THEN (IF tr1 THEN j ELSE kk)
                              ELSE (IF tr1 THEN kk ELSE j)], a1)
  IN [p |-> "contract",
      ia |-> [o \in 1..Prod(full) |-> LET mi == Unravel(o - 1, full)
                                      IN [kk \in 1..k |-> posA(mi, mi[Len(full) - 1], kk - 1)]],
      ib |-> [o \in 1..Prod(full) |-> LET mi == Unravel(o - 1, full)
                                      IN [kk \in 1..k |-> posB(mi, kk - 1, mi[Len(full)])]]]

\* numpy.dot: scalars multiply; 1-D x 1-D inner product; N-D x 1-D sum over last axis of a;
\* N-D x M-D sum over last axis of a and second-to-last of b: out[i..., j...] (j without axis r1-1)
DotPlan(t0, t1) ==
  IF IsScalarT(t0) \/ IsScalarT(t1)
  THEN LET osh == IF IsScalarT(t0) THEN ShapeOf(t1) ELSE ShapeOf(t0)
       IN [p |-> "ew", f |-> "mul", m1 |-> BMap(ShapeOf(t0), osh), m2 |-> BMap(ShapeOf(t1), osh)]
  ELSE
  LET s0 == t0.sh  s1 == t1.sh  r0 == Len(s0)  r1 == Len(s1)
      k == s0[r0]
      lead == SubSeq(s0, 1, r0 - 1)
      tailB == IF r1 = 1 THEN <<>> ELSE SubSeq(s1, 1, r1 - 2) \o <<s1[r1]>>
      full == lead \o tailB
      n == Prod(full)
      posA(mi, kk) == 1 + Ravel([d \in 1..r0 |-> IF d < r0 THEN mi[d] ELSE kk], s0)
      posB(mi, kk) == IF r1 = 1 THEN 1 + kk
                      ELSE 1 + Ravel([d \in 1..r1 |->
                                 IF d <= r1 - 2 THEN mi[(r0 - 1) + d]
                                 ELSE IF d = r1 - 1 THEN kk
                                 ELSE mi[(r0 - 1) + (r1 - 1)]], s1)
  IN [p |-> "contract",
      ia |-> [o \in 1..n |-> LET mi == Unravel(o - 1, full) IN [kk \in 1..k |-> posA(mi, kk - 1)]],
      ib |-> [o \in 1..n |-> LET mi == Unravel(o - 1, full) IN [kk \in 1..k |-> posB(mi, kk - 1)]]]

\* Stack: arguments broadcast to a common inner shape, laid out in row-major order of the outer shape
StackPlan(ats, ot, outer) ==
  LET inner == SubSeq(ot.sh, Len(outer) + 1, Len(ot.sh))
      isz == Prod(inner)
      maps == [a \in 1..Len(ats) |-> BMap(ShapeOf(ats[a]), inner)]
  IN Gather1([o \in 1..Prod(ot.sh) |-> LET a == ((o - 1) \div isz) + 1
                                            q == ((o - 1) % isz) + 1
                                        IN <<a, maps[a][q]>>])

ConcatPlan(ats, ot, axis) ==
  LET osh == ot.sh
      lens == [a \in 1..Len(ats) |-> ats[a].sh[axis + 1]]
      \* which argument and which offset along the axis supplies coordinate c
      RECURSIVE Locate(_, _)
      Locate(c, a) == IF c < lens[a] THEN <<a, c>> ELSE Locate(c - lens[a], a + 1)
  IN Gather1([o \in 1..Prod(osh) |->
        LET mi == Unravel(o - 1, osh)
            lc == Locate(mi[axis + 1], 1)
            a == lc[1]
        IN <<a, 1 + Ravel([d \in 1..Len(osh) |-> IF d = axis + 1 THEN lc[2] ELSE mi[d]], ats[a].sh)>>])

Unsupported(why) == [p |-> "unsupported", why |-> why]

PlanRaw(rec, ats, ot) ==
  LET op == rec.op IN
  CASE op = "Zeros" -> [p |-> "const", v |-> ZeroOf(ot)]
    [] op = "Ones" -> [p |-> "const", v |-> OneOf(ot)]
    [] op = "Constant" -> [p |-> "const", v |-> ReduceTo(rec.v, ot)]
    [] op \in {"NOP", "Print"} -> [p |-> "arg", i |-> 1]
    [] op = "Assert" -> [p |-> "arg", i |-> 2]
    [] op \in {"Add", "Subtract", "Multiply"} ->
         LET osh == ShapeOf(ot) IN
         [p |-> "ew", f |-> (CASE op = "Add" -> "add" [] op = "Subtract" -> "sub" [] OTHER -> "mul"),
          m1 |-> BMap(ShapeOf(ats[1]), osh), m2 |-> BMap(ShapeOf(ats[2]), osh)]
    [] op = "MixedMultiply" ->
         LET osh == ShapeOf(ot) IN
         [p |-> "ew", f |-> "mul", m1 |-> BMap(ShapeOf(ats[1]), osh), m2 |-> BMap(ShapeOf(ats[2]), osh)]
    [] op = "Dot" -> DotPlan(ats[1], ats[2])
    [] op = "Matmul" -> MatmulPlan(ats[1].sh, ats[2].sh, FALSE, FALSE)
    [] op = "Gemm" -> MatmulPlan(ats[1].sh, ats[2].sh, rec.ta, rec.tb)
    [] op = "Sum" -> [p |-> "reduce", grp |-> SumGroups(ats[1].sh, rec.axes)]
    [] op = "CumSum" -> [p |-> "reduce", grp |-> CumGroups(ats[1].sh, rec.axis)]
    [] op = "PermuteAxes" ->
         LET ish == ats[1].sh  osh == ot.sh IN
         Gather1([o \in 1..Prod(osh) |->
            LET mo == Unravel(o - 1, osh)
            \* result axis i is input axis perm[i]
            IN <<1, 1 + SumSeq([i \in 1..Len(osh) |-> mo[i] * Strides(ish)[rec.perm[i] + 1]])>>])
    [] op = "Get" ->
         LET ish == ats[1].sh
             rest == SubSeq(ish, Len(rec.index) + 1, Len(ish))
             base == Ravel(rec.index \o [d \in 1..Len(rest) |-> 0], ish)
         IN Gather1([o \in 1..Prod(rest) |-> <<1, base + o>>])
    [] op = "GetSlice" ->
         LET ish == ats[1].sh
             cs == CleanSlice(rec.slice, Len(ish), Len(rec.slice))
             osh == SliceShape(rec.slice, ish)
         IN Gather1([o \in 1..Prod(osh) |->
              <<1, 1 + Ravel(SliceSrcR(cs, ish, Unravel(o - 1, osh), 1, 1), ish)>>])
    [] op = "Reshape" -> [p |-> "reshape", from |-> ats[1], to |-> ot]
    [] op = "Stack" -> StackPlan(ats, ot, rec.sh)
    [] op = "Concatenate" -> ConcatPlan(ats, ot, rec.axis)
    [] op = "A2B" -> IF IsExact(ats[1].st) THEN [p |-> "a2b", w |-> BitsOf(ats[1].st)]
                     ELSE Unsupported("A2B outside the exact ring")
    [] op = "B2A" -> IF IsExact(rec.st) THEN [p |-> "b2a", w |-> BitsOf(rec.st)]
                     ELSE Unsupported("B2A outside the exact ring")
    [] op = "Truncate" ->
         IF IsExact(ats[1].st) /\ rec.scale > 0
         THEN [p |-> "trunc", scale |-> rec.scale, signed |-> IsSigned(ats[1].st), m |-> Modulus(ats[1].st)]
         ELSE Unsupported("Truncate outside the exact ring")
    [] op \in {"CreateTuple", "CreateNamedTuple", "CreateVector"} -> [p |-> "tuple"]
    [] op = "TupleGet" -> [p |-> "tget", i |-> rec.i + 1]
    [] op = "NamedTupleGet" ->
         [p |-> "tget", i |-> CHOOSE i \in 1..Len(ats[1].nm) : ats[1].nm[i] = rec.key]
    [] op = "VectorGet" -> IF IsExact(ats[2].st) \/ ats[1].n <= Modulus(ats[2].st)
                           THEN [p |-> "vget", n |-> ats[1].n]
                           ELSE Unsupported("VectorGet index outside the exact ring")
    [] op = "Zip" -> [p |-> "zip", n |-> ot.n]
    [] op = "Repeat" -> [p |-> "repeat", n |-> rec.n]
    [] op = "ArrayToVector" -> [p |-> "a2v", n |-> ats[1].sh[1], row |-> Prod(Tail(ats[1].sh))]
    [] op = "VectorToArray" -> [p |-> "v2a"]
    [] op = "Gather" ->
         LET ish == ats[1].sh  ax == rec.axis + 1
         IN [p |-> "gatherdyn", outer |-> Prod(SubSeq(ish, 1, ax - 1)), dim |-> ish[ax],
             row |-> Prod(SubSeq(ish, ax + 1, Len(ish))), cnt |-> NumEl(ats[2])]
    [] op = "ApplyPermutation" ->
         [p |-> "applyperm", inv |-> rec.inv, n |-> ats[1].sh[1], row |-> Prod(Tail(ats[1].sh))]
    [] op = "InversePermutation" -> [p |-> "invperm", n |-> NumEl(ats[1])]
    \* SegmentCumSum (Graph::segment_cumsum): out[0] = first row, out[i] = A[i-1] + B[i-1] * out[i-1]
    [] op = "SegmentCumSum" -> [p |-> "segcum", n |-> ats[1].sh[1], row |-> Prod(Tail(ats[1].sh))]
    [] OTHER -> Unsupported(op)

\* plans are tables: force TLC to compute them eagerly (TLCEval), they are reused for every evaluation
Plan(rec, ats, ot) == TLCEval(PlanRaw(rec, ats, ot))

---------------------------------------------------------------------------
(* Execution *)

\* v / d rounded towards zero on the signed reading of residue v modulo m.
\* Graph::truncate only says "divides ... by a positive constant"; the rounding of negative numbers
\* (towards zero) is the evaluator's behaviour, taken as the definition (DESIGN.md C10).
TruncSigned(v, d, m) ==
  LET s == IF v >= m \div 2 THEN v - m ELSE v
      q == IF s >= 0 THEN s \div d ELSE -((-s) \div d)
  IN (q + m) % m

ExecEw(pl, x1, x2, m) ==
  CASE pl.f = "add" -> [o \in 1..Len(pl.m1) |-> AddM(x1[pl.m1[o]], x2[pl.m2[o]], m)]
    [] pl.f = "sub" -> [o \in 1..Len(pl.m1) |-> SubM(x1[pl.m1[o]], x2[pl.m2[o]], m)]
    [] pl.f = "mul" -> [o \in 1..Len(pl.m1) |-> MulM(x1[pl.m1[o]], x2[pl.m2[o]], m)]

ExecContract(pl, x1, x2, m) ==
  [o \in 1..Len(pl.ia) |->
     SumM([kk \in 1..Len(pl.ia[o]) |-> MulM(x1[pl.ia[o][kk]], x2[pl.ib[o][kk]], m)], m)]

ExecReduce(pl, x1, m) ==
  [o \in 1..Len(pl.grp) |-> SumM([q \in 1..Len(pl.grp[o]) |-> x1[pl.grp[o][q]]], m)]

ExecA2B(pl, x1) ==
  [o \in 1..(Len(x1) * pl.w) |-> BitOf(x1[((o - 1) \div pl.w) + 1], (o - 1) % pl.w)]

ExecB2A(pl, x1) ==
  [o \in 1..(Len(x1) \div pl.w) |-> SumSeq([j \in 1..pl.w |-> x1[(o - 1) * pl.w + j] * Pow2(j - 1)])]

ExecTrunc(pl, x1) ==
  [o \in 1..Len(x1) |-> IF pl.signed THEN TruncSigned(x1[o], pl.scale, pl.m) ELSE x1[o] \div pl.scale]

RECURSIVE CatSeqs(_)
CatSeqs(s) == IF s = <<>> THEN <<>> ELSE Head(s) \o CatSeqs(Tail(s))

IsPermSeq(pm, n) == /\ \A i \in 1..n : pm[i] < n
                    /\ \A i, j \in 1..n : i # j => pm[i] # pm[j]
\* inverse: result[pm[i]] = i
InvPermSeq(pm, n) == [j \in 1..n |-> (CHOOSE i \in 1..n : pm[i] = j - 1) - 1]

ExecGatherDyn(pl, x1, ix) ==
  IF \E i \in 1..Len(ix) : ix[i] >= pl.dim THEN "error"
  ELSE [o \in 1..(pl.outer * pl.cnt * pl.row) |->
          LET r == (o - 1) % pl.row
              c == ((o - 1) \div pl.row) % pl.cnt
              u == (o - 1) \div (pl.row * pl.cnt)
          IN x1[(u * pl.dim + ix[c + 1]) * pl.row + r + 1]]

\* Graph::apply_permutation does not document the direction; as in the evaluator, out[i] = a[p[i]]
\* (a Gather along axis 0) and, with the inverse flag, out[p[i]] = a[i].
ExecApplyPerm(pl, x1, pm) ==
  IF ~IsPermSeq(pm, pl.n) THEN "error"
  ELSE LET eff == IF pl.inv THEN InvPermSeq(pm, pl.n) ELSE pm
       IN [o \in 1..(pl.n * pl.row) |-> x1[eff[((o - 1) \div pl.row) + 1] * pl.row + ((o - 1) % pl.row) + 1]]

\* acc = the first i rows of the result (flat), i >= 1
RECURSIVE SegCumAcc(_, _, _, _, _, _)
SegCumAcc(pl, aa, bb, acc, i, m) ==
  IF i > pl.n THEN acc
  ELSE SegCumAcc(pl, aa, bb,
                 acc \o [c \in 1..pl.row |-> (aa[(i - 1) * pl.row + c] + bb[i] * acc[(i - 1) * pl.row + c]) % m],
                 i + 1, m)

\* Runtime errors: TLC cannot compare a sequence with the string "error", so whether Exec yields "error"
\* is also available as a predicate (index out of range, invalid permutation, failed assertion).
ExecErr(pl, args) ==
  LET k == pl.p IN
  CASE k = "vget" -> args[2][1] >= pl.n
    [] k = "gatherdyn" -> \E i \in 1..Len(args[2]) : args[2][i] >= pl.dim
    [] k = "applyperm" -> ~IsPermSeq(args[2], pl.n)
    [] k = "invperm" -> ~IsPermSeq(args[1], pl.n)
    \* only Assert has the plan "arg 2": the condition bit is argument 1
    [] k = "arg" -> pl.i = 2 /\ args[1][1] = 0
    [] OTHER -> FALSE

ExecRaw(pl, args, ot) ==
  LET k == pl.p IN
  CASE k = "const" -> pl.v
    [] k = "arg" -> args[pl.i]
    [] k = "gather" -> [o \in 1..Len(pl.src) |-> args[pl.src[o][1]][pl.src[o][2]]]
    [] k = "ew" -> ExecEw(pl, args[1], args[2], Modulus(ot.st))
    [] k = "contract" -> ExecContract(pl, args[1], args[2], Modulus(ot.st))
    [] k = "reduce" -> ExecReduce(pl, args[1], Modulus(ot.st))
    [] k = "reshape" -> Unflatten(FlattenV(args[1], pl.from), pl.to, 1)
    [] k = "a2b" -> ExecA2B(pl, args[1])
    [] k = "b2a" -> ExecB2A(pl, args[1])
    [] k = "trunc" -> ExecTrunc(pl, args[1])
    [] k = "tuple" -> args
    [] k = "tget" -> args[1][pl.i]
    [] k = "vget" -> IF args[2][1] < pl.n THEN args[1][args[2][1] + 1] ELSE "error"
    [] k = "zip" -> [i \in 1..pl.n |-> [c \in 1..Len(args) |-> args[c][i]]]
    [] k = "repeat" -> [i \in 1..pl.n |-> args[1]]
    [] k = "a2v" -> [i \in 1..pl.n |-> SubSeq(args[1], (i - 1) * pl.row + 1, i * pl.row)]
    [] k = "v2a" -> CatSeqs(args[1])
    [] k = "gatherdyn" -> ExecGatherDyn(pl, args[1], args[2])
    [] k = "applyperm" -> ExecApplyPerm(pl, args[1], args[2])
    [] k = "invperm" -> IF IsPermSeq(args[1], pl.n) THEN InvPermSeq(args[1], pl.n) ELSE "error"
    [] k = "segcum" -> SegCumAcc(pl, args[1], args[2], args[3], 1, Modulus(ot.st))

\* TLCEval (= identity) makes TLC compute the value now; without it TLC keeps function
\* constructors as closures and re-evaluates whole dependency chains at every element access.
Exec(pl, args, ot) == TLCEval(ExecRaw(pl, args, ot))

OpEval(rec, ats, args, ot) == Exec(Plan(rec, ats, ot), args, ot)
=============================================================================
