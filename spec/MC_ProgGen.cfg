SPECIFICATION GSpec
CONSTANTS
  RingBits = 1
  MaxNodes = 4
  MaxInputs = 2
  MaxDead = 0
  InTypes <- BitTypes
  BinOps <- ArithOps
  UnOps <- SumUn
INVARIANT Emit
INVARIANT CtxTyped
CHECK_DEADLOCK FALSE
