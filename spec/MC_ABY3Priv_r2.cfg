\* Privacy (C03): exact equality of view distributions, ring Z_4 image
CONSTANTS
  RingBits = 2
  Mode = "three"
  Sample = FALSE
  Runs = 1
  ExhaustInputs = FALSE
  ViewRoots = TRUE
SPECIFICATION PSpec
INVARIANT Private
CHECK_DEADLOCK FALSE
