-------------------------------- MODULE CCEval --------------------------------
(***************************************************************************)
(* Evaluation of a CipherCore graph given as a sequence of node records    *)
(*   [id, op, params.., deps, sends, ty, out]                              *)
(* (1-based ids, dependencies are ids of earlier nodes) -- the form in     *)
(* which the conformance harness exports the graphs produced by the real   *)
(* compiler, inliner and optimiser.                                        *)
(*                                                                         *)
(* Randomness is explicit: a Random node evaluates to an opaque token      *)
(* [rnd |-> node, by |-> party]; a PRF node reads the oracle entry         *)
(* <<key token, iv, output type>> -- the idealisation of the PRF as a      *)
(* random function of (key, counter, type) (random.rs, property C03/C15).  *)
(***************************************************************************)
EXTENDS CCOps

ArgTypes(G, n) == [i \in 1..Len(G[n].deps) |-> G[G[n].deps[i]].ty]

PlanOf(G, n) == Plan(G[n], ArgTypes(G, n), G[n].ty)

IsInput(r) == r.op = "Input"
IsRandom(r) == r.op = "Random"
IsPRF(r) == r.op \in {"PRF", "PermutationFromPRF"}

InputNodes(G) == SelectSeq([i \in 1..Len(G) |-> i], LAMBDA i : IsInput(G[i]))
OutNode(G) == CHOOSE i \in 1..Len(G) : G[i].out

\* all permutations of 0..n-1 as sequences (values of PermutationFromPRF)
RECURSIVE Perms(_)
Perms(S) == IF S = {} THEN {<<>>} ELSE UNION {{<<e>> \o p : p \in Perms(S \ {e})} : e \in S}

\* the sample space of one oracle entry
PRFDomain(r) == IF r.op = "PRF" THEN AllValues(r.t) ELSE Perms(0..(r.n - 1))

\* the oracle entry read by a PRF node given the key value it sees
Entry(r, key) == <<key, r.iv, r.ty>>

\* operations this interpreter gives a meaning to (anything else makes a graph "unsupported":
\* it is skipped and counted by the check, never passed)
SupportedNode(G, n) ==
  \/ IsInput(G[n]) \/ IsRandom(G[n]) \/ IsPRF(G[n])
  \/ PlanOf(G, n).p # "unsupported"

Supported(G) == \A n \in 1..Len(G) : SupportedNode(G, n)

---------------------------------------------------------------------------
(* Plain (single store) evaluation of a graph without randomness: the      *)
(* reference meaning of a source graph.                                    *)
(* (Parameter names deliberately differ from the variable names of the     *)
(* modules that extend this one: TLC stops caching a constant definition   *)
(* whose operators have a parameter named like a variable.)                *)
RECURSIVE EvalFrom(_, _, _, _, _)
EvalFrom(G, plans, n, vals, ins) ==
  IF n > Len(G) THEN vals
  ELSE LET r == G[n]
           v == IF IsInput(r)
                THEN ins[CHOOSE k \in 1..Len(InputNodes(G)) : InputNodes(G)[k] = n]
                ELSE Exec(plans[n], [i \in 1..Len(r.deps) |-> vals[r.deps[i]]], r.ty)
       IN EvalFrom(G, plans, n + 1, Append(vals, v), ins)

Plans(G) == TLCEval([n \in 1..Len(G) |-> IF IsInput(G[n]) \/ IsRandom(G[n]) \/ IsPRF(G[n])
                                         THEN [p |-> "special"] ELSE PlanOf(G, n)])

EvalPlain(G, plans, ins) == EvalFrom(G, plans, 1, <<>>, ins)[OutNode(G)]
=============================================================================
