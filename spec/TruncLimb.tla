------------------------------ MODULE TruncLimb ------------------------------
(***************************************************************************)
(* C05 at the real widths (16 .. 128 bits): validation of three-party and   *)
(* one-store executions of compiled Truncate programs performed by the      *)
(* conformance harness with the REAL evaluator (harness/src/party3.rs, the  *)
(* runtime of spec/ABY3Run.tla).                                            *)
(*                                                                          *)
(* The outcome relation is the one of ABY3Run!TruncOutcomeOK, restated      *)
(* without division so that it can be evaluated on base-256 limbs (TLC      *)
(* integers are 32 bit).  With A the signed reading of the plaintext value, *)
(* O a reading of the protocol's residue and S the scale:                   *)
(*   2^k :  O \in {floor(A/S), floor(A/S)+1}   <=>   -S <= A - S*O < S      *)
(*   general divisor: exists k, j, e in {-1,0,1} with Ak = A + k*M,         *)
(*          T = O + j*M - e,  R = Ak - S*T  and                             *)
(*          (Ak >= 0 /\ 0 <= R < S) \/ (Ak < 0 /\ -S < R <= 0)              *)
(*          i.e. T = TruncDiv(Ak, S) and the residue is within one unit of  *)
(*          it; k # 0 is the documented wrap-around of the additive shares. *)
(* LemmaSpec (MC_Trunc3Lemma.cfg) model-checks that the limb relation       *)
(* coincides with the integer relation of ABY3Run at width 8 for every      *)
(* (value, residue, scale, signedness).                                     *)
(*                                                                          *)
(* The wrap-around has probability about |A|/M: for |A| < 2^(w-40) it is    *)
(* treated as impossible (k = 0 only), which is how a protocol that wraps   *)
(* systematically is told from the documented rare event.                   *)
(***************************************************************************)
EXTENDS BigMod

\* ---------------------------------------------------------------- limb helpers (two's complement, ll limbs)
SExt(aa, ll) == TLCEval([ii \in 1..ll |-> IF ii <= Len(aa) THEN aa[ii] ELSE IF aa[Len(aa)] >= 128 THEN 255 ELSE 0])
Ext(aa, sgn, ll) == IF sgn THEN SExt(aa, ll) ELSE TLCEval(LPad(aa, ll))
IsNeg(aa) == aa[Len(aa)] >= 128
\* signed comparison
SLess(aa, bb) == IF IsNeg(aa) # IsNeg(bb) THEN IsNeg(aa) ELSE LLess(aa, bb)
SLeq(aa, bb) == aa = bb \/ SLess(aa, bb)
\* 2^ee as ll limbs
LPow2(ee, ll) == TLCEval([ii \in 1..ll |-> IF ii = (ee \div 8) + 1 THEN Pow2Tab[(ee % 8) + 1] ELSE 0])
WorkLen(ww) == 2 * NLimbs(ww) + 1

InRange(A, ww, sgn, ll) ==
  IF sgn THEN /\ SLeq(LNeg(LPow2(ww - 2, ll)), A) /\ SLess(A, LPow2(ww - 2, ll))
  ELSE /\ ~IsNeg(A) /\ SLess(A, LPow2(ww - 1, ll))

Pow2OK(A, O, S, ll) ==
  LET D == LSub(A, LMul(S, O, ll))
  IN /\ SLeq(LNeg(S), D) /\ SLess(D, S)

Small(A, ww, ll) == ww >= 48 /\ SLess(LNeg(LPow2(ww - 40, ll)), A) /\ SLess(A, LPow2(ww - 40, ll))

GeneralOK(A, O, S, ww, ll, strict) ==
  LET M == LPow2(ww, ll)
      Shift(vv, kk) == IF kk = 0 THEN vv ELSE IF kk = 1 THEN LAdd(vv, M) ELSE LSub(vv, M)
      One == LOne(ll)
      Z == LZero(ll)
      NS == LNeg(S)
  IN \E jj \in {-1, 0, 1} : \E ee \in {-1, 0, 1} :
        LET T0 == Shift(O, jj)
            T == IF ee = 0 THEN T0 ELSE IF ee = 1 THEN LSub(T0, One) ELSE LAdd(T0, One)
            P == LMul(S, T, ll)
        IN \E kk \in (IF strict THEN {0} ELSE {-1, 0, 1}) :
             LET Ak == Shift(A, kk)
                 R == LSub(Ak, P)
             IN IF IsNeg(Ak) THEN SLess(NS, R) /\ SLeq(R, Z)
                ELSE SLeq(Z, R) /\ SLess(R, S)

\* a: limbs of the plaintext value (NLimbs(ww) limbs), o: limbs of the residue produced, s: limbs of the scale
ElemOK(a, o, s, ww, sgn, pow2) ==
  LET ll == WorkLen(ww)
      A == Ext(a, sgn, ll)
      O == Ext(o, sgn, ll)
      S == TLCEval(LPad(s, ll))
  IN IF pow2 THEN InRange(A, ww, sgn, ll) => Pow2OK(A, O, S, ll)
     ELSE GeneralOK(A, O, S, ww, ll, Small(A, ww, ll))

=============================================================================
