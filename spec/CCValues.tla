------------------------------- MODULE CCValues -------------------------------
(***************************************************************************)
(* CipherCore values (data_values.rs) as seen through their type:          *)
(*   scalar / array  : the flat row-major sequence of residues, one per    *)
(*                     element, each in 0 .. Modulus(st)-1 (two's          *)
(*                     complement residue for signed types);               *)
(*   tuple / named tuple / vector : the sequence of component values.      *)
(* Index arithmetic (row-major strides, NumPy broadcasting) lives here.    *)
(* Flat positions are 0-based numbers; sequences are 1-based, so element   *)
(* i of v is v[i+1].                                                       *)
(***************************************************************************)
EXTENDS CCTypes

RECURSIVE SumSeq(_)
SumSeq(s) == IF s = <<>> THEN 0 ELSE Head(s) + SumSeq(Tail(s))

\* row-major strides of a shape
Strides(sh) == [d \in 1..Len(sh) |-> Prod(SubSeq(sh, d + 1, Len(sh)))]

\* flat position -> multi-index (sequence of 0-based coordinates)
Unravel(i, sh) == LET st == Strides(sh) IN [d \in 1..Len(sh) |-> (i \div st[d]) % sh[d]]

\* multi-index -> flat position
Ravel(idx, sh) == LET st == Strides(sh) IN SumSeq([d \in 1..Len(sh) |-> idx[d] * st[d]])

\* NumPy broadcasting of two shapes (broadcast.rs); "err" if incompatible
BroadcastOK(s1, s2) ==
  LET n == Max2(Len(s1), Len(s2))
      a(i) == IF i > n - Len(s1) THEN s1[i - (n - Len(s1))] ELSE 1
      b(i) == IF i > n - Len(s2) THEN s2[i - (n - Len(s2))] ELSE 1
  IN \A i \in 1..n : ~(a(i) > 1 /\ b(i) > 1 /\ a(i) # b(i))

BroadcastShape(s1, s2) ==
  LET n == Max2(Len(s1), Len(s2))
      a(i) == IF i > n - Len(s1) THEN s1[i - (n - Len(s1))] ELSE 1
      b(i) == IF i > n - Len(s2) THEN s2[i - (n - Len(s2))] ELSE 1
  IN [i \in 1..n |-> Max2(a(i), b(i))]

\* For every flat position of the broadcast result (1-based), the 1-based flat position in an
\* operand of shape `ish` that supplies it (size-1 dimensions and missing leading dimensions repeat).
BMap(ish, osh) ==
  LET off == Len(osh) - Len(ish)
  IN [i \in 1..Prod(osh) |->
        LET oi == Unravel(i - 1, osh)
            ii == [d \in 1..Len(ish) |-> IF ish[d] = 1 THEN 0 ELSE oi[d + off]]
        IN 1 + Ravel(ii, ish)]

---------------------------------------------------------------------------
\* The set of all values of a type (used for inputs, junk and idealised PRF outputs).
RECURSIVE AllValues(_)
RECURSIVE AllSeqs(_)
\* all sequences <<v1,...,vn>> with vi \in AllValues(ts[i])
AllSeqs(ts) ==
  IF ts = <<>> THEN {<<>>}
  ELSE LET rest == AllSeqs(Tail(ts)) IN {<<h>> \o r : h \in AllValues(Head(ts)), r \in rest}
AllValues(t) ==
  CASE t.k \in {"s", "a"} -> [1..NumEl(t) -> 0..(Modulus(t.st) - 1)]
    [] OTHER -> AllSeqs(Components(t))

\* value v is a well-formed value of type t (shape and encoding): data_values.rs check_type
RECURSIVE HasType(_, _)
HasType(v, t) ==
  CASE t.k \in {"s", "a"} -> /\ Len(v) = NumEl(t)
                             /\ \A i \in 1..Len(v) : v[i] \in 0..(Modulus(t.st) - 1)
    [] OTHER -> LET cs == Components(t)
                IN Len(v) = Len(cs) /\ \A i \in 1..Len(cs) : HasType(v[i], cs[i])

RECURSIVE ZeroOf(_)
ZeroOf(t) ==
  CASE t.k \in {"s", "a"} -> [i \in 1..NumEl(t) |-> 0]
    [] OTHER -> LET cs == Components(t) IN [i \in 1..Len(cs) |-> ZeroOf(cs[i])]

RECURSIVE OneOf(_)
OneOf(t) ==
  CASE t.k \in {"s", "a"} -> [i \in 1..NumEl(t) |-> 1 % Modulus(t.st)]
    [] OTHER -> LET cs == Components(t) IN [i \in 1..Len(cs) |-> OneOf(cs[i])]

\* reduce an exported constant (residues modulo 2^16 or less) into the ring of its type
RECURSIVE ReduceTo(_, _)
ReduceTo(v, t) ==
  CASE t.k \in {"s", "a"} -> [i \in 1..Len(v) |-> v[i] % Modulus(t.st)]
    [] OTHER -> LET cs == Components(t) IN [i \in 1..Len(cs) |-> ReduceTo(v[i], cs[i])]

\* leaves of a value in depth-first order, with their types  (type_inference.rs flatten_type)
RECURSIVE FlattenT(_)
RECURSIVE FlattenTs(_)
FlattenTs(ts) == IF ts = <<>> THEN <<>> ELSE FlattenT(Head(ts)) \o FlattenTs(Tail(ts))
FlattenT(t) == IF t.k \in {"s", "a"} THEN <<t>> ELSE FlattenTs(Components(t))

RECURSIVE FlattenV(_, _)
RECURSIVE FlattenVs(_, _)
FlattenVs(vs, ts) == IF ts = <<>> THEN <<>> ELSE FlattenV(Head(vs), Head(ts)) \o FlattenVs(Tail(vs), Tail(ts))
FlattenV(v, t) == IF t.k \in {"s", "a"} THEN <<v>> ELSE FlattenVs(v, Components(t))

\* number of leaves of a type
RECURSIVE NumLeaves(_)
RECURSIVE NumLeavesS(_)
NumLeavesS(ts) == IF ts = <<>> THEN 0 ELSE NumLeaves(Head(ts)) + NumLeavesS(Tail(ts))
NumLeaves(t) == IF t.k \in {"s", "a"} THEN 1 ELSE NumLeavesS(Components(t))

\* rebuild a value of type t from a sequence of leaves starting at position pos (1-based)
RECURSIVE Unflatten(_, _, _)
RECURSIVE UnflattenS(_, _, _)
UnflattenS(leaves, ts, pos) ==
  IF ts = <<>> THEN <<>>
  ELSE <<Unflatten(leaves, Head(ts), pos)>> \o UnflattenS(leaves, Tail(ts), pos + NumLeaves(Head(ts)))
Unflatten(leaves, t, pos) ==
  IF t.k \in {"s", "a"} THEN leaves[pos] ELSE UnflattenS(leaves, Components(t), pos)
=============================================================================
