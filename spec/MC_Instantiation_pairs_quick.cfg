\* Instantiation: the pass model on every pair (quick tier: fixed order above closure size 3) of root instantiations of the dump
CONSTANTS
  SeedSize = 2
  AnyOrderUpTo = 3
SPECIFICATION PSpec
INVARIANT FailsOnlyOnClash
INVARIANT ClashAlwaysFails
INVARIANT AllReplaced
INVARIANT DepsFirst
INVARIANT Bijection
INVARIANT ReportErr
CHECK_DEADLOCK TRUE
