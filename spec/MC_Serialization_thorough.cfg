CONSTANTS
  Features = {"core", "names", "annot", "rollback", "foreign"}
  Tier = "thorough"
INIT Init
NEXT Next
VIEW View
INVARIANTS RoundTrip CorruptionsSafe NumCorruptions PrintPath
CHECK_DEADLOCK FALSE
