------------------------------ MODULE ApproxIO ------------------------------
(* Data of C20 as plain definitions (evaluated exactly once):                                        *)
(*   IOEnv.TRACE  records written by the harness binary `approx` (one JSON object per line),         *)
(*   IOEnv.TABLE  one line per record, same order: {"id":..} plus, for the transcendental functions, *)
(*                "lo": per input the integer lo with  lo <= f(x) * 2^p <= lo + 1  (checks/c20.py,   *)
(*                interval arithmetic).                                                              *)
EXTENDS Json, IOUtils
Recs == ndJsonDeserialize(IOEnv.TRACE)
Tabs == ndJsonDeserialize(IOEnv.TABLE)
=============================================================================
