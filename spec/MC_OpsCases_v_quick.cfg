SPECIFICATION Spec
CONSTANTS
  RingBits = 15
  STs = {"b","u8","i8","u16","i16","u32","i32","u64","i64","u128","i128"}
  K = 400
  KeepErr = FALSE
  Rank4 = TRUE
INVARIANT Sound
CHECK_DEADLOCK FALSE
