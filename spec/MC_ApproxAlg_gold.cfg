SPECIFICATION SpecGold
INVARIANT GoldInv
CHECK_DEADLOCK FALSE
