------------------------------- MODULE Inliner -------------------------------
(***************************************************************************)
(* Call frames with ephemeral bindings: the design of                      *)
(* inline_ops.rs:207-373 (recursively_inline_graph, inline_call,           *)
(* assign_input_nodes, unassign_nodes, InliningContext::{get_node,         *)
(* insert_node}) and of the simple Iterate inliner, over abstract graphs.   *)
(*                                                                         *)
(* The code keeps only TWO flat maps from nodes of the source context to   *)
(* nodes of the graph being produced:                                      *)
(*   perm  (context_mapping)            filled by the first copy of a node *)
(*   eph   (ephemeral_context_mapping)  used when the node is already in   *)
(*         perm; looked up first; a body's entries are removed when the    *)
(*         body returns (unassign_nodes).  Inserting an existing key into  *)
(*         either map panics (custom_ops.rs insert_node).                  *)
(* The specification of what they must implement is lexical scoping: the   *)
(* ghost variable `scope` gives every inlined copy (frame) its own map.    *)
(* Checked: the two flat maps always answer like the frame's own scope     *)
(* (ScopeOK), every copy of a body gets FRESH nodes - so a Random node of  *)
(* a body is instantiated once per copy - (Fresh, RandomPerCopy),          *)
(* bindings are removed on return (EphScoped, EphEmptyAtEnd), no panic,    *)
(* for Call-in-Iterate-in-Call nesting of depth 3, bodies called twice     *)
(* from one graph, iteration lengths 0..MaxLen, and bodies that were also  *)
(* processed as graphs of their own (called without inlining elsewhere).   *)
(***************************************************************************)
EXTENDS Integers, Sequences, FiniteSets, TLC

CONSTANT MaxLen

N(o, d) == [op |-> o, deps |-> d, callee |-> 0]
CallN(c, d) == [op |-> "call", deps |-> d, callee |-> c]
IterN(c, d) == [op |-> "iter", deps |-> d, callee |-> c]

\* a program = sequence of graphs, callees first, main last; the output node of a graph is its last node
Prog1 == <<
  \* 1: C(a, b) = op(a, b, random)
  << N("in", <<>>), N("in", <<>>), N("rnd", <<>>), N("op", <<1, 2, 3>>) >>,
  \* 2: B(state, item) = let t = Call C(state, item) in op(t, item)        (an Iterate body)
  << N("in", <<>>), N("in", <<>>), CallN(1, <<1, 2>>), N("op", <<3, 2>>) >>,
  \* 3: A(s0, items) = Iterate B(s0, items)
  << N("in", <<>>), N("in", <<>>), IterN(2, <<1, 2>>) >>,
  \* 4: main(s, items) = let r = Call A(s, items) in op(r, Call A(r, items))
  << N("in", <<>>), N("in", <<>>), CallN(3, <<1, 2>>), CallN(3, <<3, 2>>), N("op", <<3, 4>>) >> >>
Prog2 == <<
  \* 1: C(a) = op(a, random)
  << N("in", <<>>), N("rnd", <<>>), N("op", <<1, 2>>) >>,
  \* 2: B(state, item) = op(Call C(state), Call C(item))                    (same callee twice in one body)
  << N("in", <<>>), N("in", <<>>), CallN(1, <<1>>), CallN(1, <<2>>), N("op", <<3, 4>>) >>,
  \* 3: main(s, items) = op(Iterate B(s, items), Call C(s))
  << N("in", <<>>), N("in", <<>>), IterN(2, <<1, 2>>), CallN(1, <<1>>), N("op", <<3, 4>>) >> >>
Progs == <<Prog1, Prog2>>

VARIABLES prog,      \* the program being inlined
          ilen,      \* length of every Iterate input vector
          perm, eph, \* the two maps of InliningContext: <<graph, node>> -> new node
          outg,      \* the graph being produced: sequence of [src, fid, deps]
          stack,     \* frames of recursively_inline_graph: [g, pos, fid, itk, itst]
          scope,     \* ghost: fid -> (node index -> new node): the frame's own bindings
          frames,    \* ghost: fid -> graph
          maxd,      \* ghost: deepest stack seen
          panic, done
vars == <<prog, ilen, perm, eph, outg, stack, scope, frames, maxd, panic, done>>

GS == Progs[prog]
Main == Len(GS)
InputsOf(gi) == SelectSeq([q \in 1..Len(GS[gi]) |-> q], LAMBDA q : GS[gi][q].op = "in")
Top == stack[Len(stack)]
TopNode == GS[Top.g][Top.pos]
Old(f) == <<f.g, f.pos>>
EmptyFn == [q \in {} |-> 0]

GetNode(o) == IF o \in DOMAIN eph THEN eph[o] ELSE perm[o]      \* InliningContext::get_node
CanGet(o) == o \in DOMAIN eph \/ o \in DOMAIN perm
Fresh1 == Len(outg) + 1

\* InliningContext::insert_node on maps (pm, em)
InsPerm(pm, o, nw) == IF o \in DOMAIN pm THEN pm ELSE (o :> nw) @@ pm
InsEph(pm, em, o, nw) == IF o \in DOMAIN pm THEN (o :> nw) @@ em ELSE em
InsPanics(pm, em, o) == o \in DOMAIN pm /\ o \in DOMAIN em
RemoveGraph(em, gi) == [o \in {oo \in DOMAIN em : oo[1] # gi} |-> em[o]]   \* unassign_nodes

SetTop(f) == [stack EXCEPT ![Len(stack)] = f]
Bind(fid, idx, nw) == [scope EXCEPT ![fid] = (idx :> nw) @@ @]

Init ==
  /\ prog \in 1..Len(Progs)
  /\ ilen \in 0..MaxLen
  \* graphs that were already processed as graphs of their own (they are also called without inlining somewhere)
  /\ \E pre \in SUBSET (1..(Len(Progs[prog]) - 1)) :
       perm = [o \in {<<gi, q>> : gi \in pre, q \in 1..4} \cap
                     {<<gi, q>> \in (1..4) \X (1..4) : gi < Len(Progs[prog]) /\ q <= Len(Progs[prog][gi])}
               |-> 1000 * o[1] + o[2]]
  /\ eph = EmptyFn
  /\ outg = <<>>
  /\ stack = << [g |-> Len(Progs[prog]), pos |-> 1, fid |-> 1, itk |-> 0, itst |-> 0] >>
  /\ scope = <<EmptyFn>>
  /\ frames = <<Len(Progs[prog])>>
  /\ maxd = 1
  /\ panic = FALSE /\ done = FALSE

Running == ~done /\ ~panic /\ stack # <<>>

\* an Input already bound by the caller: `continue`
SkipBound ==
  /\ Running /\ Top.pos <= Len(GS[Top.g])
  /\ Old(Top) \in DOMAIN eph
  /\ IF TopNode.op = "in" THEN stack' = SetTop([Top EXCEPT !.pos = @ + 1]) /\ UNCHANGED panic
                          ELSE panic' = TRUE /\ UNCHANGED stack     \* "non-input node is already processed"
  /\ UNCHANGED <<prog, ilen, perm, eph, outg, scope, frames, maxd, done>>

\* a node that is copied (InlineMode::Noop for it)
CopyNode ==
  /\ Running /\ Top.pos <= Len(GS[Top.g])
  /\ Old(Top) \notin DOMAIN eph
  /\ TopNode.op \in {"in", "op", "rnd"}
  /\ LET deps == [q \in 1..Len(TopNode.deps) |-> <<Top.g, TopNode.deps[q]>>] IN
     IF \E q \in 1..Len(deps) : ~CanGet(deps[q]) THEN panic' = TRUE /\ UNCHANGED <<perm, eph, outg, stack, scope>>
     ELSE /\ outg' = Append(outg, [src |-> Old(Top), fid |-> Top.fid, deps |-> [q \in 1..Len(deps) |-> GetNode(deps[q])]])
          /\ perm' = InsPerm(perm, Old(Top), Fresh1)
          /\ eph' = InsEph(perm, eph, Old(Top), Fresh1)
          /\ scope' = Bind(Top.fid, Top.pos, Fresh1)
          /\ stack' = SetTop([Top EXCEPT !.pos = @ + 1])
          /\ UNCHANGED panic
  /\ UNCHANGED <<prog, ilen, frames, maxd, done>>

\* assign_input_nodes + entering recursively_inline_graph for `callee` with arguments args (new nodes)
Enter(callee, args, em, og, stk) ==
  LET ins == InputsOf(callee)
      fid == Len(frames) + 1 IN
  IF \E q \in 1..Len(ins) : <<callee, ins[q]>> \in DOMAIN em
  THEN panic' = TRUE /\ UNCHANGED <<eph, stack, scope, frames, maxd>> /\ outg' = og
  ELSE /\ eph' = [o \in {<<callee, ins[q]>> : q \in 1..Len(ins)} |-> args[CHOOSE q \in 1..Len(ins) : ins[q] = o[2]]] @@ em
       /\ stack' = Append(stk, [g |-> callee, pos |-> 1, fid |-> fid, itk |-> 0, itst |-> 0])
       /\ scope' = Append(scope, [idx \in {ins[q] : q \in 1..Len(ins)} |-> args[CHOOSE q \in 1..Len(ins) : ins[q] = idx]])
       /\ frames' = Append(frames, callee)
       /\ maxd' = IF Len(stk) + 1 > maxd THEN Len(stk) + 1 ELSE maxd
       /\ outg' = og
       /\ UNCHANGED panic

\* inline_call
EnterCall ==
  /\ Running /\ Top.pos <= Len(GS[Top.g])
  /\ Old(Top) \notin DOMAIN eph
  /\ TopNode.op = "call"
  /\ Enter(TopNode.callee, [q \in 1..Len(TopNode.deps) |-> GetNode(<<Top.g, TopNode.deps[q]>>)], eph, outg, stack)
  /\ UNCHANGED <<prog, ilen, perm, done>>

\* inline_iterate_simple: state := initial state; for every item: item node, bind, inline the body ...
IterStart ==
  /\ Running /\ Top.pos <= Len(GS[Top.g])
  /\ Old(Top) \notin DOMAIN eph
  /\ TopNode.op = "iter" /\ Top.itst = 0
  /\ stack' = SetTop([Top EXCEPT !.itst = GetNode(<<Top.g, TopNode.deps[1]>>)])
  /\ UNCHANGED <<prog, ilen, perm, eph, outg, scope, frames, maxd, panic, done>>
IterBody ==
  /\ Running /\ Top.pos <= Len(GS[Top.g])
  /\ TopNode.op = "iter" /\ Top.itst # 0 /\ Top.itk < ilen
  /\ LET item == [src |-> <<0, 0>>, fid |-> Top.fid, deps |-> <<GetNode(<<Top.g, TopNode.deps[2]>>)>>]   \* vector_get
     IN Enter(TopNode.callee, <<Top.itst, Fresh1>>, eph, Append(outg, item), stack)
  /\ UNCHANGED <<prog, ilen, perm, done>>
\* ... finally create_vector / create_tuple and insert_node(iterate node, result)
IterEnd ==
  /\ Running /\ Top.pos <= Len(GS[Top.g])
  /\ TopNode.op = "iter" /\ Top.itst # 0 /\ Top.itk = ilen
  /\ IF InsPanics(perm, eph, Old(Top)) THEN panic' = TRUE /\ UNCHANGED <<perm, eph, outg, stack, scope>>
     ELSE /\ outg' = Append(outg, [src |-> <<0, 0>>, fid |-> Top.fid, deps |-> <<Top.itst>>])
          /\ perm' = InsPerm(perm, Old(Top), Fresh1)
          /\ eph' = InsEph(perm, eph, Old(Top), Fresh1)
          /\ scope' = Bind(Top.fid, Top.pos, Fresh1)
          /\ stack' = SetTop([Top EXCEPT !.pos = @ + 1, !.itk = 0, !.itst = 0])
          /\ UNCHANGED panic
  /\ UNCHANGED <<prog, ilen, frames, maxd, done>>

\* end of recursively_inline_graph for a body: result := get_node(output); unassign_nodes; back in the caller
Return ==
  /\ Running /\ Len(stack) > 1 /\ Top.pos > Len(GS[Top.g])
  /\ LET res == GetNode(<<Top.g, Len(GS[Top.g])>>)
         em == RemoveGraph(eph, Top.g)
         caller == stack[Len(stack) - 1]
         cnode == GS[caller.g][caller.pos]
         below == SubSeq(stack, 1, Len(stack) - 2)
     IN IF cnode.op = "call"
        THEN IF InsPanics(perm, em, Old(caller)) THEN panic' = TRUE /\ UNCHANGED <<perm, eph, outg, stack, scope>>
             ELSE /\ perm' = InsPerm(perm, Old(caller), res)
                  /\ eph' = InsEph(perm, em, Old(caller), res)
                  /\ scope' = Bind(caller.fid, caller.pos, res)
                  /\ stack' = Append(below, [caller EXCEPT !.pos = @ + 1])
                  /\ UNCHANGED <<outg, panic>>
        ELSE \* Iterate: state := tuple_get(result, 0); outputs.push(tuple_get(result, 1))
             /\ outg' = outg \o << [src |-> <<0, 0>>, fid |-> caller.fid, deps |-> <<res>>],
                                   [src |-> <<0, 0>>, fid |-> caller.fid, deps |-> <<res>>] >>
             /\ eph' = em
             /\ stack' = Append(below, [caller EXCEPT !.itk = @ + 1, !.itst = Len(outg) + 1])
             /\ UNCHANGED <<perm, scope, panic>>
  /\ UNCHANGED <<prog, ilen, frames, maxd, done>>

Finish ==
  /\ Running /\ Len(stack) = 1 /\ Top.pos > Len(GS[Top.g])
  /\ done' = TRUE
  /\ UNCHANGED <<prog, ilen, perm, eph, outg, stack, scope, frames, maxd, panic>>

Next == SkipBound \/ CopyNode \/ EnterCall \/ IterStart \/ IterBody \/ IterEnd \/ Return \/ Finish
Spec == Init /\ [][Next]_vars /\ WF_vars(Next)

\* ------------------------------------------------------------------ properties
NoPanic == ~panic

\* the two flat maps answered every lookup exactly like the frame's own lexical scope
ScopeOK ==
  \A q \in 1..Len(outg) :
    outg[q].src[1] # 0 =>
      LET nd == GS[outg[q].src[1]][outg[q].src[2]] IN
      \A j \in 1..Len(nd.deps) : /\ nd.deps[j] \in DOMAIN scope[outg[q].fid]
                                 /\ outg[q].deps[j] = scope[outg[q].fid][nd.deps[j]]

\* every inlined copy of a body gets fresh nodes for everything but its bound inputs
Fresh ==
  \A f1, f2 \in 1..Len(frames) :
    (f1 # f2 /\ frames[f1] = frames[f2]) =>
      \A idx \in DOMAIN scope[f1] \cap DOMAIN scope[f2] :
         GS[frames[f1]][idx].op # "in" => scope[f1][idx] # scope[f2][idx]

\* ... hence one new Random node per finished copy of a body containing a Random node
RandomPerCopy ==
  done => \A gi \in 1..Len(GS) : \A idx \in 1..Len(GS[gi]) :
            GS[gi][idx].op = "rnd" =>
              Cardinality({q \in 1..Len(outg) : outg[q].src = <<gi, idx>>})
                = Cardinality({f \in 1..Len(frames) : frames[f] = gi})

\* ephemeral bindings exist only for graphs that are being inlined right now, and are gone at the end
EphScoped == \A o \in DOMAIN eph : \E q \in 1..Len(stack) : stack[q].g = o[1]
EphEmptyAtEnd == done => DOMAIN eph = {}

\* the nesting Call-in-Iterate-in-Call (depth 3 below main) is really exercised
DepthReached == (done /\ prog = 1 /\ ilen > 0) => maxd = 4
CopiesCount == (done /\ prog = 1) => Cardinality({f \in 1..Len(frames) : frames[f] = 1}) = 2 * ilen

Terminates == <>(done \/ panic)
=============================================================================
