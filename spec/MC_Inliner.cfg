\* Inliner: frames / ephemeral bindings, iteration lengths 0..MaxLen
CONSTANTS
  MaxLen = 3
SPECIFICATION Spec
INVARIANT NoPanic
INVARIANT ScopeOK
INVARIANT Fresh
INVARIANT RandomPerCopy
INVARIANT EphScoped
INVARIANT EphEmptyAtEnd
INVARIANT DepthReached
INVARIANT CopiesCount
PROPERTY Terminates
CHECK_DEADLOCK FALSE
