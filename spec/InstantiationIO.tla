-------------------------- MODULE InstantiationIO --------------------------
(* Data read from the code by `inline c08-dump` / `inline c08-run` (harness/src/bin/inline.rs):           *)
(*  C08Ops   one record per custom operation value: [ix, family, params, public, name = get_name(),       *)
(*           serde = serde form, eq = row of the pairwise `==` matrix]                                    *)
(*  C08Insts one record per instantiation (operation, argument types) reachable from the grid:            *)
(*           [ix, op, root, tkey, tdisp, ok, name = name the real pass gives it, deps = instantiations    *)
(*           its graph needs, closure_names]                                                              *)
(*  C08Runs  one record per generated context pushed through the real run_instantiation_pass.             *)
EXTENDS Json, IOUtils
C08Ops == ndJsonDeserialize(IOEnv.C08_OPS)
C08Insts == ndJsonDeserialize(IOEnv.C08_INSTS)
C08Runs == ndJsonDeserialize(IOEnv.C08_RUNS)
=============================================================================
