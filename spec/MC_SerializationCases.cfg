INIT RInit
NEXT RNext
INVARIANTS RecOK
CHECK_DEADLOCK FALSE
