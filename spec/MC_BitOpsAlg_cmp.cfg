SPECIFICATION Spec
INVARIANT CmpInv
CHECK_DEADLOCK FALSE
