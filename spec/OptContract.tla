------------------------------ MODULE OptContract ------------------------------
(***************************************************************************)
(* Contract of the graph optimiser (optimizer/*.rs, optimize_context) --   *)
(* properties C06 (meaning and interface are preserved) and C04 (nodes     *)
(* that draw randomness or evaluate a PRF are never folded, merged or      *)
(* duplicated, only dropped when dead).                                    *)
(*                                                                         *)
(* A case is what the REAL optimiser did to one fully inlined graph:       *)
(*   [before, after : sequences of node records,  map : sequence of        *)
(*    <<old id, new id>> (the old->new node mapping it returned),          *)
(*    evals : before / after-reload evaluations on seeded inputs]          *)
(* exported by the conformance harness (cc-conform optimize-cases).        *)
(*                                                                         *)
(* Randomness is replayed through the mapping: a Random node of `after`    *)
(* reads the draw of its preimage in `before`; PRF nodes read one oracle   *)
(* keyed by (key token, counter, type).                                    *)
(***************************************************************************)
EXTENDS CCEval, CCTyping, Json, IOUtils, FiniteSetsExt

CONSTANTS NSamples      \* number of (input, randomness) assignments tried per case

Cases == ndJsonDeserialize(IOEnv.CASES)
NC == Len(Cases)

VARIABLES ci,     \* case index
          done    \* FALSE initially, TRUE after the single step (invariants are evaluated by the workers)

ovars == <<ci, done>>

Before(c) == Cases[c].before
After(c) == Cases[c].after
MapOf(c) == Cases[c].map

\* graphs.rs Operation::is_randomizing
IsRnd(r) == r.op \in {"Random", "RandomPermutation", "CuckooToPermutation", "DecomposeSwitchingMap"}
IsPrfOp(r) == r.op \in {"PRF", "PermutationFromPRF"}
IsKeyType(t) == t.k = "a" /\ t.st = "b" /\ t.sh = <<128>>

\* preimages of a node of `after`
Pre(c, n) == {MapOf(c)[k][1] : k \in {kk \in 1..Len(MapOf(c)) : MapOf(c)[kk][2] = n}}
Mapped(c) == {MapOf(c)[k][1] : k \in 1..Len(MapOf(c))}
Image(c, o) == MapOf(c)[CHOOSE k \in 1..Len(MapOf(c)) : MapOf(c)[k][1] = o][2]

\* nodes the output of a graph depends on
RECURSIVE ReachFrom(_, _, _)
ReachFrom(G, n, acc) ==
  IF n = 0 THEN acc
  ELSE IF n \in acc THEN ReachFrom(G, n - 1, acc \cup {G[n].deps[k] : k \in 1..Len(G[n].deps)})
  ELSE ReachFrom(G, n - 1, acc)
Live(G) == IF Len(G) = 0 THEN {} ELSE ReachFrom(G, Len(G), {OutNode(G)})

\* Nodes whose VALUE the output certainly depends on, as far as structure tells: like Live, but the components of a
\* tuple / named tuple / vector / zip / array-to-vector node are not followed when the node is only reached through a
\* getter -- tuple_get(create_tuple(a, b), 0) needs a and not b, and the meta-operation pass rewrites it to a, after
\* which b (a PRF value, an annotated node) is rightly dropped although the output "depends" on it syntactically.
\* (An under-approximation: a component that the getter does select is not counted either; such a node is then covered
\* by the clauses on mapped nodes and by InvMeaning.)
ComponentGetters == {"TupleGet", "NamedTupleGet", "VectorGet"}
Containers == {"CreateTuple", "CreateNamedTuple", "CreateVector", "Zip", "ArrayToVector"}
RECURSIVE StrictReachFrom(_, _, _)
StrictReachFrom(G, n, acc) ==
  IF n = 0 THEN acc
  ELSE IF n \in acc
       THEN StrictReachFrom(G, n - 1, acc \cup {G[n].deps[k] : k \in {kk \in 1..Len(G[n].deps) :
                                  ~(G[n].op \in ComponentGetters /\ G[G[n].deps[kk]].op \in Containers)}})
       ELSE StrictReachFrom(G, n - 1, acc)
StrictLive(G) == IF Len(G) = 0 THEN {} ELSE StrictReachFrom(G, Len(G), {OutNode(G)})

---------------------------------------------------------------------------
(* C04: freshness of randomness through the optimiser *)

\* the randomising / PRF preimage of a randomising / PRF node of `after`
RandPre(c, n) == {o \in Pre(c, n) : IsRnd(Before(c)[o]) \/ IsPrfOp(Before(c)[o])}

Fresh(c) ==
  LET B == Before(c)  A == After(c) IN
  \* no randomising / PRF node becomes anything else (a constant in particular), none is merged with another
  /\ \A o \in Mapped(c) : (IsRnd(B[o]) \/ IsPrfOp(B[o])) =>
        LET n == Image(c, o) IN
        /\ A[n].op = B[o].op
        /\ (IsPrfOp(B[o]) => A[n].iv = B[o].iv /\ A[n].ty = B[o].ty)
        /\ \A o2 \in Mapped(c) : (o2 # o /\ (IsRnd(B[o2]) \/ IsPrfOp(B[o2]))) => Image(c, o2) # n
  \* every randomising / PRF node of `after` comes from exactly one such node of `before` (no duplication, no invention)
  /\ \A n \in 1..Len(A) : (IsRnd(A[n]) \/ IsPrfOp(A[n])) => Cardinality(RandPre(c, n)) = 1
  \* one may be dropped only if the output does not depend on it
  /\ \A o \in StrictLive(B) : (IsRnd(B[o]) \/ IsPrfOp(B[o])) => o \in Mapped(c)
  \* PRF counters stay pairwise distinct if they were
  /\ (\A a, b \in 1..Len(B) : (a # b /\ IsPrfOp(B[a]) /\ IsPrfOp(B[b])) => B[a].iv # B[b].iv)
       => (\A a, b \in 1..Len(A) : (a # b /\ IsPrfOp(A[a]) /\ IsPrfOp(A[b])) => A[a].iv # A[b].iv)

---------------------------------------------------------------------------
(* C06 (ii)-(iv): interface, send markers, recorded types *)

Interface(c) ==
  LET B == Before(c)  A == After(c)
      ib == InputNodes(B)  ia == InputNodes(A)
  IN /\ Len(ib) = Len(ia)
     /\ \A k \in 1..Len(ib) : /\ A[ia[k]].ty = B[ib[k]].ty
                              /\ A[ia[k]].name = B[ib[k]].name
                              /\ ib[k] \in Mapped(c) /\ Image(c, ib[k]) = ia[k]
     /\ OutNode(B) \in Mapped(c) /\ Image(c, OutNode(B)) = OutNode(A)
     /\ A[OutNode(A)].ty = B[OutNode(B)].ty

SendSet(r) == {r.sends[k] : k \in 1..Len(r.sends)}

\* every send marker of a live node survives on the node that carries the same value;
\* no send marker appears on a node none of whose preimages carried it
Sends(c) ==
  LET B == Before(c)  A == After(c) IN
  /\ \A o \in StrictLive(B) \cup Mapped(c) : SendSet(B[o]) # {} => (o \in Mapped(c) /\ SendSet(B[o]) \subseteq SendSet(A[Image(c, o)]))
  /\ \A n \in 1..Len(A) : \A s \in SendSet(A[n]) : \E o \in Pre(c, n) : s \in SendSet(B[o])

\* the recorded type of every node equals the type re-inferred after a serde round trip, and equals OpType
TypesOK(c) ==
  LET A == After(c) IN
  \A n \in 1..Len(A) :
     /\ A[n].ty = A[n].ty_reload
     /\ (Plan(A[n], ArgTypes(A, n), A[n].ty).p # "unsupported" \/ IsInput(A[n]) \/ IsRandom(A[n]) \/ IsPRF(A[n]))
          => LET t == OpType(A[n], ArgTypes(A, n)) IN IsErr(t) \/ t = A[n].ty

\* the evaluator agrees before / after reload on the logged seeded inputs (graphs without randomness)
HasRandomness(G) == \E n \in 1..Len(G) : IsRnd(G[n]) \/ IsPrfOp(G[n])
Reload(c) == HasRandomness(Before(c)) \/ \A k \in 1..Len(Cases[c].evals) : Cases[c].evals[k].before = Cases[c].evals[k].after_reload

---------------------------------------------------------------------------
(* C06 (i): every mapped node computes the same value, for the same inputs and the same draws *)

\* value of a Random node: an opaque token for PRF keys, else the draw rt[its identity]
\* evaluation of graph G where node n draws randomness under identity idt[n]
RECURSIVE EvalR(_, _, _, _, _, _, _)
EvalR(G, plans, n, vals, ins, idt, rt) ==
  IF n > Len(G) THEN vals
  ELSE LET r == G[n]
           v == CASE IsInput(r) -> ins[CHOOSE k \in 1..Len(InputNodes(G)) : InputNodes(G)[k] = n]
                  [] r.op = "Random" -> IF IsKeyType(r.ty) THEN [rnd |-> idt[n], by |-> 0] ELSE rt.rnd[idt[n]]
                  [] IsPrfOp(r) -> rt.prf[<<vals[r.deps[1]], r.iv, r.ty>>]
                  [] OTHER -> Exec(plans[n], [i \in 1..Len(r.deps) |-> vals[r.deps[i]]], r.ty)
       IN EvalR(G, plans, n + 1, Append(vals, v), ins, idt, rt)

Interpretable(G) ==
  \A n \in 1..Len(G) : \/ IsInput(G[n]) \/ G[n].op = "Random" \/ IsPrfOp(G[n])
                       \/ Plan(G[n], ArgTypes(G, n), G[n].ty).p # "unsupported"

\* PRF keys in the generated cases are Random nodes (possibly behind NOPs); entries are keyed by the
\* BEFORE-identity of the key node, so the oracle domain is known statically
KeyIdsB(c) == {n \in 1..Len(Before(c)) : Before(c)[n].op = "Random" /\ IsKeyType(Before(c)[n].ty)}
PrfEntriesB(c) ==
  {<<[rnd |-> kn, by |-> 0], Before(c)[n].iv, Before(c)[n].ty>> : kn \in KeyIdsB(c),
      n \in {nn \in 1..Len(Before(c)) : IsPrfOp(Before(c)[nn])}}
EntryValues(e) == AllValues(e[3])

RndIdsB(c) == {n \in 1..Len(Before(c)) : Before(c)[n].op = "Random" /\ ~IsKeyType(Before(c)[n].ty)}

\* Assignments of inputs and draws are derived deterministically from (case, sample number): a small
\* multiplicative hash replaces RandomElement, so runs are reproducible and an assignment is one value
\* however often TLC re-evaluates the expression.
Hash(a) == ((a % 65521) * 75 + 74) % 65537
RECURSIVE DetValue(_, _)
DetValue(t, seed) ==
  IF t.k \in {"s", "a"} THEN [e \in 1..NumEl(t) |-> Hash(Hash(seed + 7 * e)) % Modulus(t.st)]
  ELSE LET cs == Components(t) IN [e \in 1..Len(cs) |-> DetValue(cs[e], Hash(seed + 13 * e))]

Assignment(c, s) ==
  LET B == Before(c)
      its == [k \in 1..Len(InputNodes(B)) |-> B[InputNodes(B)[k]].ty]
      base == Hash(1000 * s + Cases[c].id)
  IN [ins |-> [k \in 1..Len(its) |-> DetValue(its[k], Hash(base + 101 * k))],
      rnd |-> [n \in RndIdsB(c) |-> DetValue(B[n].ty, Hash(base + 211 * n))],
      prf |-> [e \in PrfEntriesB(c) |-> DetValue(e[3], Hash(base + 307 * e[1].rnd + 401 * e[2]))]]

\* identity under which a node of `after` draws: its randomising preimage (itself if the contract is already broken)
IdAfter(c) == [n \in 1..Len(After(c)) |->
                 IF RandPre(c, n) # {} THEN CHOOSE o \in RandPre(c, n) : TRUE ELSE 0]

SameValues(c, asg0) ==
  LET asg == TLCEval(asg0)
      B == Before(c)  A == After(c)
      vb == EvalR(B, Plans(B), 1, <<>>, asg.ins, [n \in 1..Len(B) |-> n], asg)
      va == EvalR(A, Plans(A), 1, <<>>, asg.ins, IdAfter(c), asg)
  IN \A k \in 1..Len(MapOf(c)) : vb[MapOf(c)[k][1]] = va[MapOf(c)[k][2]]

Meaning(c) ==
  (Interpretable(Before(c)) /\ Interpretable(After(c)) /\ Fresh(c)) =>
     \A s \in 1..NSamples : SameValues(c, Assignment(c, s))

---------------------------------------------------------------------------
(* C04 on the stages of the real compilation pipeline (recorded by the stage tracer hook):       *)
(* counters are pairwise distinct after uniquify_prf_id and in the final graph, uniquify neither  *)
(* drops nor adds PRF nodes, the final graph uses only counters that uniquify assigned, and the   *)
(* optimisation step replayed here is the one the pipeline performed.                             *)
HasStages(c) == "mpc.uniquified" \in DOMAIN Cases[c].stages
IvSeq(bag) == [k \in 1..Len(bag.prf) |-> bag.prf[k].iv]
Distinct(sq) == \A a, b \in 1..Len(sq) : a # b => sq[a] # sq[b]
SeqRange(sq) == {sq[k] : k \in 1..Len(sq)}
Stages(c) ==
  HasStages(c) =>
    LET st == Cases[c].stages
        inl == st["mpc.inlined"]  uq == st["mpc.uniquified"]  fin == st["final.optimized"]
    IN /\ Distinct(IvSeq(uq))
       /\ \A k \in 1..Len(uq.prf) : uq.prf[k].iv >= 1
       /\ Len(uq.prf) = Len(inl.prf) /\ Len(uq.rnd) = Len(inl.rnd)
       /\ Distinct(IvSeq(fin))
       /\ SeqRange(IvSeq(fin)) \subseteq SeqRange(IvSeq(uq))
       /\ inl.graphs = 1 /\ uq.graphs = 1 /\ fin.graphs = 1
       \* the step replayed by the harness reproduces the pipeline's last step
       /\ SeqRange(IvSeq(Cases[c].after_prf)) = SeqRange(IvSeq(fin)) /\ Len(Cases[c].after_prf.prf) = Len(fin.prf)
       /\ Len(Cases[c].after) = fin.nodes

---------------------------------------------------------------------------
OInit == ci \in 1..NC /\ done = FALSE
ONext == done = FALSE /\ done' = TRUE /\ UNCHANGED ci
OSpec == OInit /\ [][ONext]_ovars

Ok(c) == Cases[c].res = "ok"
BuildErr(c) == Cases[c].res = "builderr"
\* a fully inlined well-typed graph is always optimisable
InvAccepted == done => (Ok(ci) \/ BuildErr(ci))
InvFresh == (done /\ Ok(ci)) => Fresh(ci)
InvInterface == (done /\ Ok(ci)) => Interface(ci)
InvSends == (done /\ Ok(ci)) => Sends(ci)
InvTypes == (done /\ Ok(ci)) => TypesOK(ci)
InvReload == (done /\ Ok(ci)) => Reload(ci)
InvMeaning == (done /\ Ok(ci)) => Meaning(ci)
InvStages == (done /\ Ok(ci)) => Stages(ci)
=============================================================================
