---------------------------- MODULE BitOpsTrace ----------------------------
(***************************************************************************)
(* Trace validation for C16 / C17 (binding B2).  Every record is one batch *)
(* executed by the REAL custom operation (instantiated and evaluated by    *)
(* the SimpleEvaluator): operand arrays of row-shapes sa, sb, the result   *)
(* array of shape so.  TLC judges every element of every batch against     *)
(* BitOps (integer definitions for widths <= 16, bit-string definitions    *)
(* above), checks the broadcast shape, and for batches claimed exhaustive  *)
(* that the operand pairs really are ALL pairs of that width.              *)
(* One state per record (phase 0 -> 1 only spreads the work over workers). *)
(* A failing batch is printed as <<"BAD", json>>; the invariant itself     *)
(* stays true so that one run reports every failing batch.                 *)
(***************************************************************************)
EXTENDS BitOps, BitRelIO

VARIABLES lno, ph
vars == << lno, ph >>
Init == lno \in 1..Len(Recs) /\ ph = 0
Next == ph = 0 /\ ph' = 1 /\ UNCHANGED lno
Spec == Init /\ [][Next]_vars

CmpOps == {"eq", "ne", "lt", "le", "gt", "ge"}

\* what the documentation promises for this configuration: a value, an error, or nothing
Expect(rec) ==
    CASE rec.op \in CmpOps \cup {"min", "max"} -> IF rec.sg = 1 /\ rec.w < 2 THEN "err" ELSE "ok"
      [] rec.op = "add"  -> IF IsPow2(rec.w) THEN "ok" ELSE "err"
      [] rec.op = "clip" -> IF rec.k <= rec.w - 2 THEN "ok" ELSE "err"
      [] rec.op = "div"  -> IF ~IsPow2(rec.w) \/ ~IsPow2(rec.wb) THEN "err"
                            ELSE IF rec.w = 1 \/ rec.wb = 1 THEN "any" ELSE "ok"
      [] rec.op = "mux"  -> "ok"

Unary(rec) == rec.op = "clip"
OutShape(rec) == IF Unary(rec) THEN rec.sa ELSE BShape(rec.sa, rec.sb)

ElemInt(rec, i, av, bv) ==
    CASE rec.op \in CmpOps -> rec.r[i] = CmpDef(rec.op, rec.sg, rec.w, av, bv)
      [] rec.op = "min"  -> rec.r[i] = MinDef(rec.sg, rec.w, av, bv)
      [] rec.op = "max"  -> rec.r[i] = MaxDef(rec.sg, rec.w, av, bv)
      [] rec.op = "add"  -> /\ rec.r[i] = AddDef(rec.w, av, bv)[1]
                            /\ rec.sg = 1 => rec.r2[i] = AddDef(rec.w, av, bv)[2]
      [] rec.op = "clip" -> rec.r[i] = ClipDef(rec.w, rec.k, av)
      [] rec.op = "div"  -> bv = 0 \/ << rec.r[i], rec.r2[i] >> = DivDef2(rec.sg, rec.w, rec.wb, av, bv)

ElemBits(rec, i, av, bv) ==
    CASE rec.op \in CmpOps -> rec.r[i] = CmpB(rec.op, rec.sg, av, bv)
      [] rec.op = "min"  -> rec.r[i] = MinB(rec.sg, av, bv)
      [] rec.op = "max"  -> rec.r[i] = MaxB(rec.sg, av, bv)
      [] rec.op = "add"  -> /\ rec.r[i] = AddB(av, bv)[1]
                            /\ rec.sg = 1 => rec.r2[i] = AddB(av, bv)[2]
      [] rec.op = "clip" -> rec.r[i] = ClipB(rec.k, av)
      [] rec.op = "div"  -> bv = ZeroB(rec.wb) \/ DivOKB(rec.sg, av, bv, rec.r[i], rec.r2[i])

ElemOK(rec, so, i) ==
    LET av == rec.a[BIdx(rec.sa, so, i - 1) + 1]
        bv == IF Unary(rec) THEN 0 ELSE rec.b[BIdx(rec.sb, so, i - 1) + 1]
    IN IF rec.enc = "int" THEN ElemInt(rec, i, av, bv) ELSE ElemBits(rec, i, av, bv)

\* a batch claimed exhaustive lists every operand (pair) of the width exactly once
ExhOK(rec) ==
    LET m == P2(rec.w) IN
    IF Unary(rec) THEN Len(rec.a) = m /\ \A i \in 1..m : rec.a[i] = i - 1
    ELSE /\ Len(rec.a) = m * m /\ Len(rec.b) = m * m
         /\ \A i \in 1..(m * m) : rec.a[i] = (i - 1) \div m /\ rec.b[i] = (i - 1) % m

MuxShape(rec) == BShape(BShape(rec.sf, rec.s1), rec.s0)
MuxElemOK(rec, so, i) ==
    rec.r[i] = MuxDef(rec.f[BIdx(rec.sf, so, i - 1) + 1],
                      rec.x1[BIdx(rec.s1, so, i - 1) + 1],
                      rec.x0[BIdx(rec.s0, so, i - 1) + 1])

ElemAny(rec, so, i) == IF rec.op = "mux" THEN MuxElemOK(rec, so, i) ELSE ElemOK(rec, so, i)

Report(rec, why, idx) == PrintT(<< "BAD", ToJson([id |-> rec.id, why |-> why, idx |-> idx]) >>)

Judge(rec) ==
    LET e == Expect(rec) IN
    IF e = "err" THEN (IF rec.out = "err" THEN TRUE ELSE Report(rec, "error expected, got " \o rec.out, 0))
    ELSE IF rec.out # "ok" THEN (IF e = "any" /\ rec.out = "err" THEN TRUE ELSE Report(rec, "value expected, got " \o rec.out, 0))
    ELSE LET so == IF rec.op = "mux" THEN MuxShape(rec) ELSE OutShape(rec)
             n == ProdSeq(so) IN
         IF rec.so # so \/ Len(rec.r) # n THEN Report(rec, "shape", 0)
         ELSE IF rec.op = "mux" /\ rec.rst # rec.st THEN Report(rec, "scalar type", 0)
         ELSE IF rec.op # "mux" /\ rec.exh = 1 /\ ~ExhOK(rec) THEN Report(rec, "not exhaustive", 0)
         ELSE IF \A i \in 1..n : ElemAny(rec, so, i) THEN TRUE
         ELSE Report(rec, "value", CHOOSE i \in 1..n : ~ElemAny(rec, so, i))

Judged == ph = 1 => Judge(Recs[lno])
=============================================================================
