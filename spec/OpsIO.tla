------------------------------- MODULE OpsIO -------------------------------
(* Records written by the harness binary `ops` (IOEnv.TRACE names the ndjson file); a plain
   definition in an extended module so that TLC reads the file exactly once. *)
EXTENDS Json, IOUtils
Recs == ndJsonDeserialize(IOEnv.TRACE)
=============================================================================
