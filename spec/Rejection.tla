------------------------------ MODULE Rejection ------------------------------
(***************************************************************************)
(* C15: bounded sampling without modulo bias (random.rs:101-123             *)
(* PRNG::get_random_in_range, random.rs:312-327 generate_u32_in_range).     *)
(*                                                                         *)
(* A draw is a uniform number in 0..mx (mx = 2^k - 1).  It is accepted when *)
(* it does not exceed the rejection bound and then reduced modulo m.  The   *)
(* formulas below are the code's, with mx as a parameter:                   *)
(*   get_random_in_range     mx = 2^64 - 1                                  *)
(*   generate_u32_in_range   mx = 2^(8 * need_bytes) - 1,                   *)
(*                           need_bytes = (ceil_log2(m) + 7) / 8 + 1        *)
(* TLC proves on scaled sources (k <= 16) that, for every modulus, every    *)
(* residue is hit by exactly the same number of accepted draws, that the    *)
(* bound is floor(2^k / m) * m - 1 and that fewer than half of the draws    *)
(* are rejected, by enumerating all draws.  RejectionTrace applies the same *)
(* operators to the real constants.                                         *)
(***************************************************************************)
EXTENDS Integers, FiniteSets, TLC

RECURSIVE RjPow2(_)
RjPow2(nn) == IF nn = 0 THEN 1 ELSE 2 * RjPow2(nn - 1)
\* m.next_power_of_two().trailing_zeros()
RECURSIVE CeilLog2From(_, _)
CeilLog2From(mm, kk) == IF RjPow2(kk) >= mm THEN kk ELSE CeilLog2From(mm, kk + 1)
CeilLog2(mm) == CeilLog2From(mm, 0)

\* get_random_in_range:  rem = ((MAX % m) + 1) % m;  rejection_bound = MAX - rem
RangeBound(mx, mm) == mx - (((mx % mm) + 1) % mm)
\* generate_u32_in_range with units of uu bits (the code: uu = 8)
NeedUnits(mm, uu) == (CeilLog2(mm) + uu - 1) \div uu + 1
U32Bound(mx, mm) == mx - ((mx + 1) % mm)
Accepted(rr, bound) == rr <= bound
Reduce(rr, mm) == rr % mm

VARIABLES form,   \* "range" | "u32"
          unit,   \* bits per unit of randomness of the scaled source
          md,     \* the modulus
          draw,   \* the next raw draw to enumerate
          hg,     \* residue -> number of accepted draws that gave it
          rej     \* number of rejected draws
rvars == <<form, unit, md, draw, hg, rej>>

CONSTANT ByteModuli     \* moduli for which generate_u32_in_range is enumerated with real bytes (k = 16)
KBits == IF form = "range" THEN 8 ELSE unit * NeedUnits(md, unit)
MaxDraw == RjPow2(KBits) - 1
Bound == IF form = "range" THEN RangeBound(MaxDraw, md) ELSE U32Bound(MaxDraw, md)

RjInit == /\ \/ form = "range" /\ unit = 8 /\ md \in 1..64
             \/ form = "u32" /\ unit = 2 /\ md \in 1..64
             \/ form = "u32" /\ unit = 8 /\ md \in ByteModuli
          /\ draw = 0 /\ rej = 0 /\ hg = [vv \in 0..(md - 1) |-> 0]
RjNext == /\ draw <= MaxDraw
          /\ IF Accepted(draw, Bound)
             THEN hg' = [hg EXCEPT ![Reduce(draw, md)] = @ + 1] /\ rej' = rej
             ELSE rej' = rej + 1 /\ hg' = hg
          /\ draw' = draw + 1
          /\ UNCHANGED <<form, unit, md>>
RjSpec == RjInit /\ [][RjNext]_rvars

\* the bound is the largest multiple of the modulus that fits, minus one
BoundIsOptimal == Bound + 1 = ((MaxDraw + 1) \div md) * md
AllDrawn == draw = MaxDraw + 1
\* exactly uniform: every residue is produced by the same number of accepted draws
Unbiased == AllDrawn => /\ \A vv \in 0..(md - 1) : hg[vv] = (MaxDraw + 1) \div md
                        /\ rej = (MaxDraw + 1) % md
\* expected number of rounds below 2
FewRejections == AllDrawn => 2 * rej < MaxDraw + 1
\* the result is always in range
InRangeInv == \A vv \in 0..(md - 1) : hg[vv] >= 0
=============================================================================
