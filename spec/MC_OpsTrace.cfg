SPECIFICATION Spec
CONSTANTS
  RingBits = 15
  Lanes = 8
INVARIANT Judge
CHECK_DEADLOCK FALSE
