---------------------------- MODULE SerializationMC ----------------------------
(***************************************************************************)
(* The two theorems of module Serialization checked by TLC over every      *)
(* reachable state of the bounded ContextAPI models (property C12):        *)
(*   RoundTrip        Recover(Ser(s)) = Ok(s)                              *)
(*   CorruptionsSafe  every single-field corruption of Ser(s) in the       *)
(*                    catalogue is rejected or recovers to a well-formed   *)
(*                    context                                              *)
(***************************************************************************)
EXTENDS ContextAPIMC, Serialization

RoundTrip == \A ci \in DOMAIN cx : RoundTripCtx(cx[ci])
CorruptionsSafe == \A ci \in DOMAIN cx : CorruptionsSafeCtx(cx[ci])
\* coverage: the catalogue is not vacuous (some corruption is accepted, some rejected, in some state)
NumCorruptions == \A ci \in DOMAIN cx : Cardinality(Corruptions(SerOf(cx[ci]))) >= 12
=============================================================================
