----------------------------- MODULE InlinerTrace -----------------------------
(***************************************************************************)
(* C07  Inlining preserves Call/Iterate semantics in every mode.           *)
(*                                                                         *)
(* Validates what the REAL `inline_operations` did (records of             *)
(* `inline c07`): one record per (body kind, vector length, mode,          *)
(* overrides) with the original context, the histogram of the inlined      *)
(* context, the inlined context itself when small, and for a list of       *)
(* inputs (all inputs when few bits) the value of the original context     *)
(* under the evaluator's native Call/Iterate and of the inlined context.   *)
(*                                                                         *)
(* State = (record, input index); index 0 carries the structural checks.   *)
(* TLC judges, for every record and input                                  *)
(*   J1 logged route   : evaluator(inlined) = evaluator(original)          *)
(*   J2 reference      : CCCall!CEval(original) (fold of the body written  *)
(*                       in TLA+) = evaluator(original)                    *)
(*   J3 exported route : CCEval!EvalPlain(inlined graph) = CEval(original) *)
(*   J4 structure      : inline_operations returned Ok; no Call/Iterate    *)
(*                       left when everything is to be inlined; the number *)
(*                       of body copies (NOP marker), Random nodes, Matmul *)
(*                       and Ones nodes equals what the strategy chosen by *)
(*                       inline_ops.rs:382-488 and the algorithm chosen by *)
(*                       PrefixSumsRule!Pick produce (PrefixSumsRule!Count)*)
(*                       -- this is how the check knows which strategy ran *)
(*   J5 fresh randomness: every inlined copy has its own Random node.      *)
(* A failed judgement prints a FAIL line (all failures of a run are        *)
(* reported, not only the first) and violates the invariant.               *)
(***************************************************************************)
EXTENDS CCCall, PrefixSumsRule, InlinerIO

VARIABLES caseIx, inpIx
ivars == <<caseIx, inpIx>>

NR == Len(C07Recs)
R(c) == C07Recs[c]

PlanTDef(u) == TLCEval([c \in 1..NR |->
                 [o |-> ProgPlans(R(c).orig),
                  n |-> IF R(c).has_inl THEN ProgPlans(R(c).inl) ELSE <<>>]])
\* each worker computes the plan tables at its first step (not in an ASSUME: see docs/CONVENTIONS.md)
ASSUME RegisterInitialised == TLCSet(1, [ready |-> FALSE])
TablesReady == IF TLCGet(1).ready THEN TRUE ELSE TLCSet(1, [ready |-> TRUE, t |-> PlanTDef(0)])
PT(c) == TLCGet(1).t[c]

\* ------------------------------------------------------------------ which strategy must run
EffIter(r) == IF r.iter # "" THEN r.iter ELSE r.mode
EffCall(r) == IF r.call # "" THEN r.call ELSE r.mode
IsEmptyTupleT(t) == t.k = "t" /\ Len(t.el) = 0
HasAnn(gr, a) == \E q \in 1..Len(gr.gann) : gr.gann[q] = a

\* inline_ops.rs inline_iterate: order of the tests matters
Strategy(mode, stTy, body) ==
  CASE mode = "Noop" -> "noop"
    [] mode = "Simple" -> "simple"
    [] OTHER -> IF IsEmptyTupleT(stTy) THEN "empty"
                ELSE IF HasAnn(body, "AssociativeOperation") THEN "assoc"
                ELSE IF HasAnn(body, "OneBitState") THEN "onebit"
                ELSE IF HasAnn(body, "SmallState") THEN "small"
                ELSE "simple"

BodyOutTy(body) == body.nodes[CHOOSE q \in 1..Len(body.nodes) : body.nodes[q].out].ty
EmptyOut(body) == IsEmptyTupleT(BodyOutTy(body).el[2])
StateBits(strat, stTy) == IF strat = "onebit" THEN 1 ELSE stTy.sh[Len(stTy.sh)]

\* the prefix-sum algorithm applied, and the number of items it is applied to
AlgOf(strat, mode, len, eo) ==
  IF strat \in {"assoc", "onebit", "small"} THEN (IF eo THEN "lds" ELSE Pick(mode, len)) ELSE "-"
ItemsOf(strat, len) == IF strat = "assoc" THEN len + 1 ELSE len
Combines(strat, mode, len, eo) ==
  IF strat \in {"assoc", "onebit", "small"} /\ len > 0
  THEN Count(AlgOf(strat, mode, len, eo), ItemsOf(strat, len)) ELSE 0
\* number of times the body is inlined by one Iterate of length len
BodyCopies(strat, mode, len, eo, kbits) ==
  CASE strat \in {"simple", "empty"} -> len
    [] strat = "assoc" -> IF len = 0 THEN 0 ELSE Combines(strat, mode, len, eo) + (IF eo THEN 0 ELSE len)
    [] strat \in {"onebit", "small"} -> IF len = 0 THEN 0 ELSE len * Pow2(kbits) + (IF eo THEN 0 ELSE len)
Extracts(len, eo) == IF len = 0 THEN 0 ELSE IF eo THEN 1 ELSE len
\* nodes of kind opn the strategy itself adds around the copies (exponential_inliner.rs)
Overhead(opn, strat, mode, len, eo) ==
  CASE opn = "Matmul" /\ strat = "small" -> Combines(strat, mode, len, eo) + 2 * Extracts(len, eo)
    [] opn = "Ones" /\ strat = "onebit" -> Extracts(len, eo)
    [] opn = "Multiply" /\ strat = "onebit" -> 2 * Combines(strat, mode, len, eo) + 2 * Extracts(len, eo)
    [] OTHER -> 0

\* number of nodes of kind opn in the result of inlining graph gi of P completely
RECURSIVE OpsOf(_, _, _, _)
OpsOf(P, gi, r, opn) ==
  LET G == PGraph(P, gi) IN
  SumSeq([q \in 1..Len(G) |->
    CASE G[q].op = "Call" -> OpsOf(P, G[q].gdeps[1], r, opn)
      [] G[q].op = "Iterate" ->
           LET body == P.graphs[G[q].gdeps[1]]
               stTy == G[G[q].deps[1]].ty
               len == G[G[q].deps[2]].ty.n
               strat == Strategy(EffIter(r), stTy, body)
               eo == EmptyOut(body)
               kb == IF strat \in {"onebit", "small"} THEN StateBits(strat, stTy) ELSE 0
           IN BodyCopies(strat, EffIter(r), len, eo, kb) * OpsOf(P, G[q].gdeps[1], r, opn)
              + Overhead(opn, strat, EffIter(r), len, eo)
      [] G[q].op = opn -> 1
      [] OTHER -> 0])

H(r, opn) == IF opn \in DOMAIN r.hist THEN r.hist[opn] ELSE 0
FullInline(r) == EffIter(r) # "Noop" /\ EffCall(r) # "Noop"
\* Multiply is only predictable when no small-state strategy runs (one-hot encoding adds multiplies)
NoSmall(r) == \A gi \in 1..Len(r.orig.graphs) : ~HasAnn(r.orig.graphs[gi], "SmallState") \/ EffIter(r) = "Simple"
CheckedOps(r) == {"NOP", "Random", "Matmul", "Ones"} \cup (IF NoSmall(r) THEN {"Multiply"} ELSE {})

\* the single Iterate of the main graph, when the case has that form (for the evidence only)
MainIter(r) == LET G == PGraph(r.orig, r.orig.main) IN
               IF Len(G) = 3 /\ G[3].op = "Iterate" THEN 3 ELSE 0
StratInfo(r) ==
  LET G == PGraph(r.orig, r.orig.main)  q == MainIter(r) IN
  IF q = 0 THEN [id |-> r.id, kind |-> r.kind, n |-> r.n, mode |-> EffIter(r), strat |-> "nested", alg |-> "-",
                 combines |-> 0, copies |-> H(r, "NOP"), unique |-> FALSE]
  ELSE LET body == r.orig.graphs[G[q].gdeps[1]]
           stTy == G[1].ty
           strat == Strategy(EffIter(r), stTy, body)
           eo == EmptyOut(body)
           alg == AlgOf(strat, EffIter(r), r.n, eo)
           items == ItemsOf(strat, r.n)
       IN [id |-> r.id, kind |-> r.kind, n |-> r.n, mode |-> EffIter(r), strat |-> strat, alg |-> alg,
           combines |-> Combines(strat, EffIter(r), r.n, eo), copies |-> H(r, "NOP"),
           \* the count of combines tells this algorithm from the other two
           unique |-> alg \in {"ascent", "sqrt", "segtree"} /\ r.n > 0 /\
                      \A o \in {"ascent", "sqrt", "segtree"} \ {alg} : Count(o, items) # Count(alg, items)]

\* ------------------------------------------------------------------ judgements
Fail(r, cls, info) == PrintT(<<"FAIL", ToJson([id |-> r.id, class |-> cls, inp |-> inpIx, info |-> info])>>) /\ FALSE

J4Structure(r) ==
  /\ r.status = "ok" \/ Fail(r, "inline-failed", r.err)
  /\ (r.status = "ok" /\ FullInline(r)) =>
       /\ (H(r, "Call") = 0 /\ H(r, "Iterate") = 0) \/ Fail(r, "call-or-iterate-left", "")
       /\ \A opn \in CheckedOps(r) :
            H(r, opn) = OpsOf(r.orig, r.orig.main, r, opn)
            \/ Fail(r, "node-count-" \o opn, <<H(r, opn), OpsOf(r.orig, r.orig.main, r, opn)>>)

J5FreshRandom(r) ==
  (r.status = "ok" /\ r.random /\ r.has_inl /\ FullInline(r)) =>
    LET G == PGraph(r.inl, r.inl.main)
        nops == {q \in 1..Len(G) : G[q].op = "NOP"}
        rnds == {q \in 1..Len(G) : G[q].op = "Random"}
    IN \/ /\ \A q \in nops : G[q].deps[1] \in rnds                       \* every copy draws
          /\ \A q1, q2 \in nops : q1 # q2 => G[q1].deps[1] # G[q2].deps[1]  \* no two copies share a draw
          /\ Cardinality(nops) = Cardinality(rnds)
       \/ Fail(r, "shared-random-node", "")

InlinedValue(c, ins) ==
  LET P == R(c).inl IN
  IF IsFlat(P) THEN EvalPlain(PGraph(P, P.main), PT(c).n[P.main], ins) ELSE CEval(P, PT(c).n, ins)

JValues(c, q) ==
  LET r == R(c)  ins == r.inputs[q] IN
  /\ r.orig_ok[q] \/ Fail(r, "harness-original-does-not-evaluate", "")
  /\ (r.orig_ok[q] /\ ~r.inl_ok[q]) => Fail(r, "inlined-context-does-not-evaluate", "")
  /\ (r.orig_ok[q] /\ r.inl_ok[q]) =>
       /\ r.orig_res[q] = r.inl_res[q] \/ Fail(r, "logged-mismatch", ins)                      \* J1
       /\ r.tla =>
            LET ref == CEval(r.orig, PT(c).o, ins) IN
            /\ ref = r.orig_res[q] \/ Fail(r, "reference-vs-evaluator", ins)                     \* J2
            /\ r.has_inl => (InlinedValue(c, ins) = ref \/ Fail(r, "exported-inlined-graph-mismatch", ins))  \* J3

Judge ==
  IF inpIx = 0
  THEN /\ PrintT(<<"STRAT", ToJson(StratInfo(R(caseIx)))>>)
       /\ J4Structure(R(caseIx)) /\ J5FreshRandom(R(caseIx))
  ELSE JValues(caseIx, inpIx)

Init == caseIx \in 1..NR /\ inpIx = 0
Next == /\ TablesReady
        /\ R(caseIx).status = "ok"
        /\ inpIx < Len(R(caseIx).inputs)
        /\ inpIx' = inpIx + 1
        /\ UNCHANGED caseIx
Spec == Init /\ [][Next]_ivars
=============================================================================
