\* three-party / one-store runs of compiled Truncate programs at 16..128 bits, outcome relation of C05 on limbs
SPECIFICATION RSpec
INVARIANT AllJudged
CHECK_DEADLOCK FALSE
