------------------------------ MODULE ProgsIO ------------------------------
(***************************************************************************)
(* Programs exported from the real compiler, as data.  IOEnv.PROGS names   *)
(* an ndjson file with one program record per line (see ABY3Run).  It is a *)
(* definition rather than a CONSTANT so that TLC evaluates it, and every   *)
(* table derived from it (demand sets, plans), exactly once.               *)
(***************************************************************************)
EXTENDS Json, IOUtils
Progs == ndJsonDeserialize(IOEnv.PROGS)
=============================================================================
