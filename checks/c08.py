"""C08  Custom-operation instantiation is total and meaning-preserving.

  1. `inline c08-dump` reads the name function, the serde form, pairwise `==` and the dependency relation of the
     library custom operations (every public operation of ops/ + Not/Or, every field varied) from the code;
  2. TLC, spec/Instantiation.tla on that data: `==` is an equivalence that agrees with the serde form, two
     different instantiations never share a name (every clash is printed), and the pass model (Discover / Glue /
     SetName, every order for small closures) run on every pair (thorough: and same-type triple) of root
     instantiations terminates, replaces every Custom node, glues dependencies first, keeps cache keys / graphs /
     names in bijection and fails exactly on a name clash;
  3. the seed sets on which the model fails are replayed on the REAL run_instantiation_pass, together with
     generated contexts (1-4 custom nodes, used twice, inside a user graph called twice, comparison inside Clip
     inside Iterate); TLC (spec/InstantiationTrace.tla) judges Ok/Err, the graphs and names of the result against
     the model, and the values against per-node evaluation with each operation instantiated alone;
  4. definition phase: programs over the library operations (checks/c08_defs.py: every comparison variant at every
     string length 1..20 and some up to 128, Min / Max / Clip2K / Mux / Not / Or nested in each other, SortByIntegerKey
     on tables of 1-4 columns of every pair of scalar types with the key in any position, sorted by two keys and
     re-sorted, tables built from comparison results) go through the REAL builder, run_instantiation_pass and
     evaluator (`instsem run`); TLC (spec/InstSemTrace.tla) evaluates the same programs with the TLA+ DEFINITIONS of
     the operations (spec/InstSem.tla over BitOps / Relational) and judges totality (a node well-typed by the
     definition is accepted and instantiated), the type and the value of every node.
"""
import json, os, random
from . import lib
from . import c08_defs


def differing(pa, pb):
    a, b = json.loads(pa), json.loads(pb)
    return sorted(k for k in set(a) | set(b) if a.get(k) != b.get(k))


def run(chk):
    tier = chk.tier
    workers = int(os.environ.get("VERIF_WORKERS", "8"))
    rng = random.Random(chk.seed)
    ops_p, insts_p = chk.path("ops.ndjson"), chk.path("insts.ndjson")
    lib.harness(["c08-dump", ops_p, insts_p], binary="inline", timeout=600)
    ops, insts = lib.read_ndjson(ops_p), lib.read_ndjson(insts_p)
    env = {"C08_OPS": ops_p, "C08_INSTS": insts_p}
    chk.note("operations_dumped", len(ops))
    chk.note("public_operation_values", sum(1 for o in ops if o["public"]))
    chk.note("families", sorted({o["family"] for o in ops if o["public"]}))
    chk.note("instantiations_dumped", len(insts))
    chk.note("instantiations_rejected_by_type_check", [
        {"op": ops[i["op"] - 1]["name"], "types": i["tdisp"], "err": i["err"][:80]} for i in insts if not i["ok"]][:10])

    # ---- static checks over the dump
    res = lib.tlc("Instantiation", "MC_Instantiation_static.cfg", env=env, workers=2, timeout=600, extra=["-continue"])
    chk.add_tlc(res, "static")
    if not res.ok and res.violated != "NamesInjectiveInv":
        chk.violation({"model": "Instantiation", "invariant": res.violated, "class": "operation-equality-or-table"},
                      {"tlc": res.trace[-4000:]})
    clashes = lib.printed_json(res, "CLASH")
    chk.note("name_clashes_in_dump", len(clashes))

    # ---- the pass model on pairs / triples
    cfg = "MC_Instantiation_pairs_quick.cfg" if tier == "quick" else "MC_Instantiation.cfg"
    res = lib.tlc("Instantiation", cfg, env=env, workers=workers, timeout=900 if tier == "quick" else 2400,
                  extra=["-continue"], coverage=False)
    chk.add_tlc(res, "pass-model")
    if not res.ok:
        chk.violation({"model": "Instantiation", "invariant": res.violated, "class": "pass-model"}, {"tlc": res.trace[-4000:]})
    pred_err = {tuple(sorted(p["seeds"])) for p in lib.printed_json(res, "PASSERR")}
    chk.note("seed_sets_predicted_to_fail", len(pred_err))

    # ---- contexts through the real pass
    def inst_json(ix):
        i = insts[ix - 1]
        return {"serde": ops[i["op"] - 1]["serde"], "types": i["types"]}

    roots = [i for i in insts if i["ok"] and i["root"]]
    fam = lambda i: ops[i["op"] - 1]["family"]
    cases = []

    def add(shape, ixs, samples=3):
        cases.append(dict(id=len(cases) + 1, shape=shape, roots=list(ixs), insts=[inst_json(x) for x in ixs],
                          samples=samples, seed=chk.seed + len(cases)))

    for s in sorted(pred_err):                      # B1: what the model says must fail, on the code
        add("flat", s)
    for i in roots:                                 # every root instantiation alone and used twice
        add("twice", [i["ix"]], samples=2)
    n_rand = 120 if tier == "quick" else 600
    heavy = {"AucScore", "LongDivision", "GoldschmidtDivision", "InverseSqrt"}
    light = [i for i in roots if fam(i) not in heavy]
    for k in range(n_rand):
        pool = light if k % 4 else roots
        ixs = [rng.choice(pool)["ix"] for _ in range(rng.randint(1, 4))]
        add(rng.choice(["flat", "twice", "user_call"]), ixs)
    # comparison inside Clip inside Iterate (state bit[8] / bit[2,8])
    by = lambda f, tk: [i for i in roots if fam(i) == f and i["tkey"] == tk]
    for tk2, tk1 in {(i["tkey"], j["tkey"]) for i in roots if fam(i) == "Min" for j in roots if fam(j) == "Clip2K"
                     and json.loads(j["tkey"])[0] == json.loads(i["tkey"])[0]}:
        mm = by("Min", tk2) + by("Max", tk2)
        cl = by("Clip2K", tk1)
        cm = [i for i in roots if fam(i) in ("GreaterThan", "LessThanEqualTo", "Equal") and i["tkey"] == tk2]
        combos = [(a, b, c) for a in mm for b in cl for c in cm]
        rng.shuffle(combos)
        for a, b, c in combos[:10 if tier == "quick" else 60]:
            add("iterate", [a["ix"], b["ix"], c["ix"]])
    cpath, rpath = chk.path("run_cases.ndjson"), chk.path("runs.ndjson")
    lib.write_ndjson(cpath, cases)
    lib.harness(["c08-run", cpath, rpath], binary="inline", timeout=3000)
    runs = {r["id"]: r for r in lib.read_ndjson(rpath)}
    if len(runs) != len(cases):
        raise lib.ToolError("harness wrote %d of %d run records" % (len(runs), len(cases)))
    chk.traces += len(runs)
    env2 = dict(env, C08_RUNS=rpath)
    res = lib.tlc("InstantiationTrace", "MC_InstantiationTrace.cfg", env=env2, workers=workers, timeout=1800,
                  extra=["-continue"], coverage=False)
    chk.add_tlc(res, "trace")
    fails = lib.printed_json(res, "FAIL")
    if not res.ok and not fails:
        raise lib.ToolError("InstantiationTrace failed without a FAIL record:\n" + res.trace[:3000])
    by_id = {c["id"]: c for c in cases}
    confirmed = set()
    for fl in fails:
        c, r = by_id[fl["id"]], runs[fl["id"]]
        if fl["class"] == "harness-could-not-build-context":
            # the roots of a case are instantiations that type-checked when the operations were dumped (on this very
            # build of the library), so a context made of them that the builder now rejects -- after the batch of
            # rejected custom_op calls the harness makes first -- is a valid context that cannot be instantiated
            names = sorted({ops[insts[x - 1]["op"] - 1]["family"] for x in c["roots"]})
            chk.violation({"class": "valid-custom-operation-rejected-after-history", "families": names[:3]},
                          {"case": c, "error": fl.get("info"), "history": "48 rejected custom_op calls on the same thread, then this context"})
            continue
        if fl["class"].startswith("harness"):
            raise lib.ToolError("harness problem in case %s: %s %s" % (fl["id"], fl["class"], fl.get("info")))
        opnames = [ops[insts[x - 1]["op"] - 1] for x in c["roots"]]
        replay = {"shape": c["shape"], "operations": [{"name": o["name"], "family": o["family"], "params": o["params"],
                                                       "serde": o["serde"]} for o in opnames],
                  "argument_types": [insts[x - 1]["tdisp"] for x in c["roots"]],
                  "run_instantiation_pass": "Ok" if r["pass_ok"] else "Err(%s)" % r["err"][:200],
                  "class": fl["class"], "info": fl.get("info"), "harness": "inline c08-run <cases> <out>", "case": c}
        if fl["class"] == "name-collision":
            # the two needed instantiations that share a name
            need = [insts[x - 1] for x in c["roots"]]
            pair = [(a, b) for a in need for b in need if a["ix"] < b["ix"] and a["name"] == b["name"]]
            a, b = pair[0] if pair else (need[0], need[-1])
            oa, ob = ops[a["op"] - 1], ops[b["op"] - 1]
            diff = differing(oa["params"], ob["params"]) or ["?"]
            sig = {"op": oa["family"], "class": "name-collision-different-" + "-".join(diff)}
            replay["colliding_name"] = a["name"]
            confirmed.add((oa["family"], tuple(diff)))
        else:
            sig = {"op": "+".join(sorted({o["family"] for o in opnames})), "shape": c["shape"], "class": fl["class"]}
        chk.violation(sig, replay)
    # every clash TLC found in the dump must have been confirmed (or refuted) on the code
    chk.note("collisions_confirmed_on_code", sorted("%s(%s)" % (f, ",".join(d)) for f, d in confirmed))
    st = {}
    for r in runs.values():
        k = "%s:%s" % (r["shape"], "ok" if r["pass_ok"] else "err")
        st[k] = st.get(k, 0) + 1
    chk.note("contexts", len(cases))
    chk.note("contexts_by_shape_and_outcome", st)
    chk.note("values_compared", sum(len(r["inputs"]) for r in runs.values()))
    for cid in (len(pred_err) + 1, len(cases) // 2, len(cases)):
        c, r = by_id[cid], runs[cid]
        chk.sample({"shape": c["shape"], "ops": [ops[insts[x - 1]["op"] - 1]["name"] for x in c["roots"]],
                    "pass_ok": r["pass_ok"], "graphs_after": r["graphs_after"], "names": r["names"][:4]})
    definition_phase(chk, workers)
    chk.assumptions += [
        "mixed-context phase: the reference value of a custom operation = that operation instantiated alone and evaluated (SimpleEvaluator has no Custom arm); "
        "definition phase: comparisons, Min, Max, Clip2K, Mux, Not, Or, SortByIntegerKey are judged against their TLA+ definitions (InstSem.tla); "
        "fixed-point / approximation operations only against the instantiated-alone reference",
        "operations and parameter values are those of the grid in harness/src/bin/inline.rs op_grid (every struct field varied, 2-3 values, 2 argument types)",
        "large dependency closures are explored by the pass model in one fixed order, small ones in every order",
    ]


def _short(x, n=400):
    t = json.dumps(x)
    return x if len(t) <= n else t[:n] + "..."


def definition_phase(chk, workers):
    """Programs over library custom operations, judged by TLC against the TLA+ definitions of the operations."""
    cases = c08_defs.cases(chk.seed, chk.tier)
    cpath, rpath = chk.path("sem_cases.ndjson"), chk.path("sem_runs.ndjson")
    lib.write_ndjson(cpath, cases)
    lib.harness(["run", cpath, rpath], binary="instsem", timeout=3000)
    recs = {r["id"]: r for r in lib.read_ndjson(rpath)}
    if len(recs) != len(cases):
        raise lib.ToolError("instsem wrote %d of %d records" % (len(recs), len(cases)))
    chk.traces += len(recs)
    res = lib.tlc("InstSemTrace", "MC_InstSemTrace.cfg", env={"C08_SEM": rpath}, workers=workers,
                  timeout=900 if chk.tier == "quick" else 2400, extra=["-continue"], coverage=False)
    chk.add_tlc(res, "definitions")
    fails = lib.printed_json(res, "SEMFAIL")
    if not res.ok and not fails:
        raise lib.ToolError("InstSemTrace failed without a SEMFAIL record:\n" + res.trace[:3000])
    by_id = {c["id"]: c for c in cases}
    for fl in fails:
        c, r = by_id[fl["id"]], recs[fl["id"]]
        if fl["class"].startswith("harness"):
            raise lib.ToolError("definition phase, case %s: %s %s" % (fl["id"], fl["class"], fl.get("info")))
        nd = c["nodes"][fl["node"] - 1] if fl.get("node") else None
        fam = nd["fam"] if nd and nd["k"] == "op" else "+".join(sorted({n["fam"] for n in c["nodes"] if n["k"] == "op"}))
        sig = {"phase": "definition", "op": fam, "class": fl["class"]}
        chk.violation(sig, {"class": fl["class"], "node": fl.get("node"), "operation": nd, "info": _short(fl.get("info")),
                            "argument_types": [r["types"][a - 1] for a in nd["args"]] if nd and r["built"] else None,
                            "program": c["nodes"], "wrap": c["wrap"], "harness": "instsem run <cases> <out>", "sem_case": c})
    skipped = lib.printed_json(res, "SEMSKIP")
    st = {}
    for r in recs.values():
        k = "%s:%s" % (r["cls"], "ok" if r["pass_ok"] else ("rejected" if not r["built"] else "pass-err"))
        st[k] = st.get(k, 0) + 1
    chk.note("definition_programs", len(cases))
    chk.note("definition_programs_by_class_and_outcome", st)
    chk.note("definition_programs_not_judged_ill_typed_by_definition", len(skipped))
    chk.note("definition_nodes_judged", sum(len(r["nodes"]) * len(r["samples"]) for r in recs.values() if r["pass_ok"]))
    ws = sorted({n["t"]["sh"][-1] for c in cases if c["cls"] == "bits" for n in c["nodes"] if n["k"] == "in"})
    chk.note("definition_string_lengths", ws)
    chk.note("definition_operation_uses", dict(sorted(
        (f, sum(1 for c in cases for n in c["nodes"] if n["k"] == "op" and n["fam"] == f))
        for f in {n["fam"] for c in cases for n in c["nodes"] if n["k"] == "op"})))
    for c in cases:
        if c["cls"] == "mixed":
            r = recs[c["id"]]
            chk.sample({"phase": "definition", "program": [(n["fam"] or n["k"]) + str(n["args"]) for n in c["nodes"]],
                        "types": [json.dumps(t) for t in r["types"]][:4], "pass_ok": r["pass_ok"]})
            break


def replay(path):
    """Re-executes one recorded violation against /repo (no TLC): prints what run_instantiation_pass does now."""
    v = json.load(open(path))
    if v["replay"].get("sem_case"):
        work = os.path.join(lib.WORK, "C08")
        os.makedirs(work, exist_ok=True)
        cp, op = os.path.join(work, "replay_sem_case.ndjson"), os.path.join(work, "replay_sem_out.ndjson")
        lib.write_ndjson(cp, [v["replay"]["sem_case"]])
        lib.harness(["run", cp, op], binary="instsem")
        r = lib.read_ndjson(op)[0]
        res = lib.tlc("InstSemTrace", "MC_InstSemTrace.cfg", env={"C08_SEM": op}, workers=1, timeout=300, extra=["-continue"], coverage=False)
        fails = lib.printed_json(res, "SEMFAIL")
        print(json.dumps({"built": r["built"], "rejected_node": r["rej"], "pass_ok": r["pass_ok"], "err": r["err"],
                          "verdict_of_InstSemTrace": [{"class": f["class"], "node": f["node"]} for f in fails]}))
        return 1 if fails else 0
    case = v["replay"].get("case")
    if not case:
        print("model violation, re-run: bin/check C08 quick")
        return 2
    work = os.path.join(lib.WORK, "C08")
    os.makedirs(work, exist_ok=True)
    cp, op = os.path.join(work, "replay_case.ndjson"), os.path.join(work, "replay_out.ndjson")
    lib.write_ndjson(cp, [case])
    lib.harness(["c08-run", cp, op], binary="inline")
    r = lib.read_ndjson(op)[0]
    same = r["inst_res"] == r["ref_res"]
    print(json.dumps({"operations": v["replay"].get("operations"), "pass_ok": r["pass_ok"], "err": r["err"],
                      "custom_after": r["custom_after"], "values_equal": same}))
    return 0 if (r["pass_ok"] and r["custom_after"] == 0 and same) else 1
