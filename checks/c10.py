"""C10  Primitive operations follow their documented NumPy-style modular semantics.

B1: TLC (spec/OpsCases.tla, cfg MC_OpsCases_v_*) enumerates per operation (parameters, argument types) over all 11
scalar types, shapes of rank <= 3 over {1,2,3} plus rank 4 over {1,2}, keeps the cases CCTyping!OpType accepts.
Packing families (OpsCases!Pack*): Stack / Concatenate / VectorToArray / ArrayToVector / Get without broadcasting over
1..9 and 16 pieces of 1..16 cells -- for bits every combination of "piece is / is not a whole number of bytes" with
"result is / is not a whole number of bytes" (bit cases exhaustively, the other scalar types sampled).
The harness (bin ops eval) builds the one-node graph with the real add_node, evaluates it with SimpleEvaluator on
  - all values of bit arguments of <= 6 cells,
  - opaque tokens for structural operations (the harness substitutes extreme values of the scalar type, including
    values >= 2^64 and negative 128-bit values, and maps the result back),
  - exact values for arithmetic: residues for u8/i8, base-256 limbs (spec/BigMod.tla) for every wider type.
B2: TLC (spec/OpsTrace.tla) recomputes CCOps!OpEval for every recorded case and decides equality, and decides that the
byte layout of every produced value is the layout of the node's type (OpsTrace!ShapeOK, packed bits included).
"""
import json, os
from collections import Counter
from . import lib, ops_common as oc

SETS = {"quick": 3, "thorough": 8}


def classify(r):
    if r["res"] == "panic":
        return {"op": r["rec"]["op"], "st": r["st"], "class": "panic", "location": r.get("loc", "")}
    if r["res"] == "illtyped":
        return {"op": r["rec"]["op"], "st": r["st"], "class": "ill-typed value"}
    if r["res"] == "value" and r.get("chk") is False:
        return {"op": r["rec"]["op"], "st": r["st"], "class": "value does not have the byte layout of its type"}
    cls = "wrong value" if r["res"] == "value" else "wrong outcome (%s)" % r["res"]
    if r["mode"] == "tok" and r["st"] in ("u128", "i128") and any(v >= 2 ** 64 for v in oc.flat_ints(r.get("exact", []))):
        # a structural operation returned an element that is none of / not the right one of its input elements
        # while an input element does not fit 64 bits
        cls = "element>=2^64"
    return {"op": r["rec"]["op"], "st": r["st"], "class": cls}


def run(chk):
    tier = chk.tier
    prefix = chk.path("cases_")
    files, fams, _ = oc.enumerate_cases(chk, "MC_OpsCases_v_%s.cfg" % tier, prefix)
    vals = chk.path("vals.ndjson")
    p = lib.harness(["eval", vals, chk.seed, SETS[tier]] + files, binary="ops", timeout=3000)
    recs = lib.read_ndjson(vals)
    if not recs:
        raise lib.ToolError("no value cases")
    chk.traces += len(recs)
    per_op = Counter(r["rec"]["op"] for r in recs)
    per_mode = Counter(r["mode"] for r in recs)
    chk.note("type_level_cases_per_operation", {k: v[1] for k, v in sorted(fams.items()) if k in per_op})
    chk.note("evaluated_cases_per_operation", dict(sorted(per_op.items())))
    chk.note("evaluated_cases_per_mode", dict(per_mode))
    chk.note("outcomes", dict(Counter(r["res"] for r in recs)))
    chk.note("scalar_types", dict(Counter(r["st"] for r in recs)))
    bad, res = oc.judge(chk, vals, "judge")
    groups = {}
    for r in recs:
        if r["id"] in bad:
            sig = classify(r)
            key = json.dumps(sig, sort_keys=True)
            g = groups.setdefault(key, {"sig": sig, "n": 0, "first": r})
            g["n"] += 1
    for g in groups.values():
        r = g["first"]
        chk.violation(g["sig"], {"failing_cases": g["n"], "case": {k: r[k] for k in ("id", "rec", "ats", "ty", "mode")},
                                 "argument_values": r.get("exact"), "tokens_or_residues": r["args"],
                                 "observed": {"res": r["res"], "out": r["out"], "lost": r.get("lost")},
                                 "how": "bin/check C10 --replay <this file>  (re-evaluates the case and lets TLC judge it)"})
    chk.note("rejected_records", len(bad))
    for r in recs[:: max(1, len(recs) // 6)][:6]:
        chk.sample({"id": r["id"], "rec": r["rec"], "ats": r["ats"], "mode": r["mode"], "res": r["res"]})
    chk.assumptions += [
        "reference semantics CCOps written from the Graph method documentation; where it is silent (Gemm batch "
        "broadcasting, rounding of Truncate on negative numbers, direction of ApplyPermutation, accepted slices) the "
        "acceptance rule / behaviour of the code is the definition (comments in spec/CCTyping.tla, spec/CCOps.tla)",
        "structural operations are judged on opaque tokens; arithmetic on u8/i8 residues and, for wider types, exactly on base-256 limbs",
        "Gather is exercised with unique indices only (documented precondition); index values are below 2^15",
        "not covered here: Random, PRF, RandomPermutation, DecomposeSwitchingMap, CuckooHash, CuckooToPermutation, Shard (randomised), Join, Sort (C18/C19)",
    ]


def replay(path):
    """Re-evaluate one recorded failing case against /repo and let TLC judge it again."""
    d = json.load(open(path))
    case = d["replay"]["case"]
    work = os.path.join(lib.WORK, "C10")
    os.makedirs(work, exist_ok=True)
    cf = os.path.join(work, "replay_case.ndjson")
    lib.write_ndjson(cf, [{"id": case["id"].split("#")[0], "rec": case["rec"], "ats": case["ats"], "ty": case["ty"]}])
    out = os.path.join(work, "replay_vals.ndjson")
    lib.harness(["eval", out, 1, 12, cf], binary="ops")
    chk = oc.Stub()
    bad, _ = oc.judge(chk, out, "replay")
    recs = lib.read_ndjson(out)
    for r in recs:
        if r["id"] in bad:
            print("still failing:", json.dumps({k: r[k] for k in ("id", "rec", "ats", "exact", "res", "out")})[:1500])
            print("VIOLATION property=C10 replay=%s" % path)
            return 1
    print("replayed %d value sets of %s: all accepted by TLC" % (len(recs), case["id"]))
    return 0
