"""C18  Sorting is a stable sort; permutation application and inversion agree (plaintext part).

1. design check (TLC, spec/RelDesign.tla): on every key table of 1..4 rows x 1..2 key bits the stable sorting
   permutation exists and is unique, the computed form used for validation equals the relation IsStableSort on every
   arrangement of the rows; permutation algebra on all permutations of <= 5 elements.
2. conformance (B2): the harness runs the real Sort / SortByIntegerKey / ApplyPermutation / InversePermutation
   (SimpleEvaluator) on ALL tables of 1..4 rows x 1..3 key bits, sampled tables up to 12 rows x 10 key bits with
   payload columns of several types and ranks, integer keys of every scalar type, ALL permutations of <= 5 elements
   and all invalid index vectors of <= 3 elements; TLC (spec/RelTrace.tla) judges every record and counts the
   exhaustive groups.  128-bit payloads / keys are kept in separate sub-cases (signature payload/key = u128/i128).
3. compiled form (B2, same judge): the harness builds the table from one graph input per column, compiles the graph with
   the real compile_context and evaluates it with seeded protocol randomness: ALL tables of 1..4 rows x 1..3 key bits
   with a private key column, sampled shapes up to 12 rows x every key width 1..10 (odd widths = short first radix
   chunk) with duplicate keys and payload columns of several types / ranks, owner per column in {party 0,1,2, public},
   every kind of output party set, inline modes Simple / depth-optimized; integer keys (bit, 8..64 bit, signed) through
   the compiled SortByIntegerKey.  TLC judges the returned table against the same stable-sort relation, so the secure
   sort must return exactly the (unique) plaintext result.
"""
import itertools, random
from . import lib
from . import bitrel_common as bc

BITS = {"b": 1, "u8": 8, "i8": 8, "u16": 16, "i16": 16, "u32": 32, "i32": 32, "u64": 64, "i64": 64, "u128": 128, "i128": 128}


def prod(sh):
    n = 1
    for d in sh:
        n *= d
    return n


def col(name, st, shape, vals):
    return {"name": name, "st": st, "shape": shape, "vals": [str(v) for v in vals]}


def rand_col(rnd, name, st, n, rowshape, big=False):
    w = BITS[st]
    cnt = n * prod(rowshape)
    if big:   # values that need more than 64 bits
        vals = [(1 << 64) + rnd.getrandbits(w - 1) | (rnd.randint(1, 3) << 100) for _ in range(cnt)]
    else:
        vals = [rnd.getrandbits(min(w, 63)) for _ in range(cnt)]
    return col(name, st, [n] + rowshape, vals)


def run(chk):
    quick = chk.tier == "quick"
    rnd = random.Random(chk.seed + 18)
    res = lib.tlc("RelDesign", "MC_RelDesign.cfg", env={"MAXN": 4 if quick else 5, "MAXB": 2, "MAXP": 5 if quick else 6},
                  workers=bc.workers(4), timeout=900 if quick else 3000, coverage=False)
    chk.add_tlc(res, "design")
    if not res.ok:
        chk.violation({"level": "design", "invariant": res.violated}, {"tlc": res.trace[-4000:]})

    jobs, claims = [], []

    def add(j):
        j["id"] = len(jobs)
        jobs.append(j)

    # ---- all tables of 1..4 rows x 1..3 key bits, payload = distinct row tags
    shapes = [(n, b) for n in range(1, 5) for b in range(1, 4)]
    if not quick:
        shapes += [(5, 1), (5, 2), (3, 4), (2, 4), (2, 5), (1, 4), (1, 7), (6, 1), (3, 5)]
    for n, b in shapes:
        if True:
            grp = "sort-%d-%d" % (n, b)
            claims.append({"grp": grp, "what": "sort", "n": n, "b": b, "count": 0})
            for t in range(1 << (n * b)):
                key = [(t >> i) & 1 for i in range(n * b)]
                add({"kind": "sort", "grp": grp, "cols": [col("key", "b", [n, b], key), col("pay", "u8", [n], [10 + i for i in range(n)])]})
    # ---- sampled tables up to 12 rows x 10 bits, duplicates forced by a small key pool, several payload columns
    nsamp = 400 if quick else 20000
    pay_types = ["b", "u8", "i64", "u16", "i32", "u64"]
    for s in range(nsamp):
        n = rnd.randint(1, 12)
        b = rnd.choice([1, 2, 3, 5, 7, 9, 10, 4, 6, 8])
        pool = [rnd.getrandbits(b) for _ in range(rnd.randint(1, max(1, n // 2 + 1)))]
        keyv = []
        for _ in range(n):
            k = rnd.choice(pool)
            keyv += [(k >> (b - 1 - i)) & 1 for i in range(b)]
        cols = [col("key", "b", [n, b], keyv), col("tag", "u8", [n], list(range(n)))]
        for ci in range(rnd.randint(0, 3)):
            cols.append(rand_col(rnd, "p%d" % ci, rnd.choice(pay_types), n, rnd.choice([[], [2], [2, 3], [1]])))
        rnd.shuffle(cols)
        add({"kind": "sort", "grp": "sort-sampled", "cols": cols})
    # 128-bit payloads (values >= 2^64) in their own sub-case list
    for s in range(12 if quick else 60):
        n = rnd.randint(2, 6)
        b = rnd.randint(1, 4)
        keyv = [rnd.randint(0, 1) for _ in range(n * b)]
        st = rnd.choice(["u128", "i128"])
        add({"kind": "sort", "grp": "sort-payload128", "cols": [col("key", "b", [n, b], keyv), rand_col(rnd, "wide", st, n, rnd.choice([[], [2]]), big=True)]})
    # ---- integer keys
    pal8 = [-128, -127, -2, -1, 0, 1, 2, 126, 127]
    for n in range(1, 4 if quick else 5):
        if n == 4:
            tabs = [tuple(rnd.choice(pal8) for _ in range(4)) for _ in range(800)]
        else:
            tabs = itertools.product(pal8, repeat=n)
        for t in tabs:
            add({"kind": "isort", "grp": "isort-i8-%d" % n, "cols": [col("key", "i8", [n], [v & 255 for v in t]), col("pay", "u8", [n], list(range(n)))]})
        if n < 4:
            claims.append({"grp": "isort-i8-%d" % n, "what": "count", "n": n, "b": 8, "count": 9 ** n})
    if not quick:   # every pair of i8 keys
        claims.append({"grp": "isort-i8-allpairs", "what": "count", "n": 2, "b": 8, "count": 65536})
        for k0 in range(256):
            for k1 in range(256):
                add({"kind": "isort", "grp": "isort-i8-allpairs", "cols": [col("key", "i8", [2], [k0, k1]), col("pay", "u8", [2], [0, 1])]})
    for st in ["b", "u8", "i8", "u16", "i16", "u32", "i32", "u64", "i64", "u128", "i128"]:
        w = BITS[st]
        m = (1 << w) - 1
        pal = [0, 1] if st == "b" else bc.boundary(w) + [rnd.getrandbits(w) for _ in range(4)]
        for s in range(10 if quick else 60):
            n = rnd.randint(1, 8)
            keys = [rnd.choice(pal) & m for _ in range(n)]
            cols = [col("key", st, [n], keys), col("pay", "u16", [n, 2], [x for i in range(n) for x in (i, 1000 + i)])]
            if s % 2:
                cols.reverse()
            add({"kind": "isort", "grp": "isort-key128" if w == 128 else "isort-%s" % st, "cols": cols})
    # ---- the compiled (secure) sort: the same tables through compile_context (RadixSortMPC: 2-bit chunks with a short
    # first chunk when the width is odd, shuffle / reveal / unshuffle), one graph input per column so that every column has
    # its own owner (party 0/1/2 or public), result revealed to any non-empty set of parties, several inline modes, the
    # protocol randomness seeded per case.  TLC judges the returned table against the same stable-sort relation.
    comp_rnd = random.Random(chk.seed * 31 + 18)
    nshape = [0]

    def comp_seed(k):
        # bitrel_common keeps all jobs with the same compiled // 1000 in one harness process (it compiles a shape once)
        return 1000 * nshape[0] + (chk.seed + k) % 1000

    own_cycle = [[0, 0], [0, 1], [1, 2], [2, "pub"], [1, 1], [2, 0]]
    out_cycle = [[0], [1], [2], [0, 1], [1, 2], [0, 2], [0, 1, 2]]
    modes = ["Simple", "Default"] if quick else ["Simple", "Default", "Extreme"]
    # all tables of 1..4 rows x 1..3 key bits (thorough: the larger shapes of the plaintext part too), private key
    for si, (n, b) in enumerate(shapes):
        grp = "csort-%d-%d" % (n, b)
        claims.append({"grp": grp, "what": "sort", "n": n, "b": b, "count": 0})
        nshape[0] += 1
        owners, outs, mode = own_cycle[si % len(own_cycle)], out_cycle[si % len(out_cycle)], modes[si % len(modes)]
        for t in range(1 << (n * b)):
            key = [(t >> i) & 1 for i in range(n * b)]
            add({"kind": "sort", "grp": grp, "cols": [col("key", "b", [n, b], key), col("pay", "u8", [n], [10 + i for i in range(n)])],
                 "compiled": comp_seed(t), "owners": owners, "outs": outs, "mode": mode})
    # sampled shapes up to 12 rows x 10 key bits (every width 1..10 in turn), duplicates forced by a small key pool,
    # payload columns of several types and ranks, random owner per column / output parties / inline mode; several tables
    # (and seeds) per compiled shape
    ncshape, ntab = (60, 8) if quick else (600, 12)
    own_pool = [0, 1, 2, 0, 1, 2, "pub"]
    for s in range(ncshape):
        nshape[0] += 1
        n = comp_rnd.randint(2, 12) if s % 6 else comp_rnd.randint(1, 2)
        b = 1 + s % 10
        ncol = comp_rnd.randint(0, 3)
        ptypes = [(comp_rnd.choice(pay_types), comp_rnd.choice([[], [2], [2, 3], [1]])) for _ in range(ncol)]
        order = list(range(ncol + 2))
        comp_rnd.shuffle(order)
        owners = [comp_rnd.choice(own_pool) for _ in order]
        if s % 4:    # mostly a private key column (the radix sort protocol); otherwise whatever was drawn
            owners[order.index(0)] = comp_rnd.randint(0, 2)
        outs = sorted(comp_rnd.sample([0, 1, 2], comp_rnd.randint(1, 3)))
        mode = comp_rnd.choice(modes)
        for k in range(ntab):
            pool = [comp_rnd.getrandbits(b) for _ in range(comp_rnd.randint(1, max(1, n // 2 + 1)))]
            keyv = []
            for _ in range(n):
                kk = comp_rnd.choice(pool)
                keyv += [(kk >> (b - 1 - i)) & 1 for i in range(b)]
            cols = [col("key", "b", [n, b], keyv), col("tag", "u8", [n], list(range(n)))]
            for ci, (st, rs) in enumerate(ptypes):
                cols.append(rand_col(comp_rnd, "p%d" % ci, st, n, rs))
            add({"kind": "sort", "grp": "csort-sampled", "cols": [cols[i] for i in order], "compiled": comp_seed(k),
                 "owners": owners, "outs": outs, "mode": mode})
    # compiled integer-key sort (a2b, sign handling, the same radix sort, b2a): bit keys (width 1), 8..64-bit keys
    ikeys = ["b", "u8", "i8", "u16", "i16"] if quick else ["b", "u8", "i8", "u16", "i16", "u32", "i32", "u64", "i64"]
    for st in ikeys:
        w = BITS[st]
        m = (1 << w) - 1
        pal = [0, 1] if st == "b" else bc.boundary(w) + [comp_rnd.getrandbits(w) for _ in range(4)]
        for sh in range(3 if quick else 8):
            nshape[0] += 1
            n = comp_rnd.randint(2, 8)
            rs = comp_rnd.choice([[], [2], [2, 2]])
            owners = [comp_rnd.choice(own_pool[:6]), comp_rnd.choice(own_pool)]
            outs = sorted(comp_rnd.sample([0, 1, 2], comp_rnd.randint(1, 3)))
            mode = comp_rnd.choice(modes)
            for k in range(10 if quick else 40):
                sub = [comp_rnd.choice(pal) & m for _ in range(comp_rnd.randint(1, 4))]
                keys = [comp_rnd.choice(sub) for _ in range(n)]
                cols = [col("key", st, [n], keys), col("pay", "u16", [n] + rs, range(n * prod(rs)))]
                add({"kind": "isort", "grp": "cisort-%s" % st, "cols": cols if sh % 2 == 0 else cols[::-1], "compiled": comp_seed(k),
                     "owners": owners if sh % 2 == 0 else owners[::-1], "outs": outs, "mode": mode})
    # ---- permutations: all of <= 5 elements; invalid index vectors
    a_kinds = [("u8", []), ("i64", [2]), ("b", [3]), ("u16", [2, 2]), ("u64", [])]
    for n in range(1, 6):
        claims.append({"grp": "perm-%d" % n, "what": "perm", "n": n, "b": 0, "count": 0})
        for pi, p in enumerate(itertools.permutations(range(n))):
            st, rs = a_kinds[pi % len(a_kinds)]
            pst = ["u8", "u16", "u32", "u64"][pi % 4]
            add({"kind": "perm", "grp": "perm-%d" % n, "pst": pst, "p": list(p), "a": rand_col(rnd, "a", st, n, rs)})
    for n in range(2, 5):
        for _ in range(3):
            p = list(range(n))
            rnd.shuffle(p)
            add({"kind": "perm", "grp": "perm-payload128", "pst": "u8", "p": p, "a": rand_col(rnd, "a", "u128", n, [], big=True)})
    ninv = 0
    for n in range(1, 4):
        for p in itertools.product(range(n + 1), repeat=n):
            if sorted(p) != list(range(n)):
                add({"kind": "perm", "grp": "perm-invalid", "pst": ["u8", "u64"][ninv % 2], "p": list(p), "a": rand_col(rnd, "a", "u8", n, [])})
                ninv += 1
    for p, pst in (([0, 0, 1, 2], "u8"), ([1, 2, 3, 4], "u16"), ([0, 1, 2, 200], "u8"), ([0, 1, 2, 1 << 40], "u64"), ([3, 3, 3, 3], "u32"),
                   ([0, 1, 3, 3, 4], "u8"), ([255], "u8"), ([1, 0, 65535], "u16")):
        add({"kind": "perm", "grp": "perm-invalid", "pst": pst, "p": p, "a": rand_col(rnd, "a", "u8", len(p), [])})
        ninv += 1
    add({"kind": "claims", "grp": "claims", "claims": claims})

    recs, bad = bc.run_rel(chk, jobs, "sort", workers=bc.workers(4 if quick else 8), timeout=1500 if quick else 6000)
    for rec, v in bad:
        job = jobs[rec["id"]]
        sig = {"kind": rec["kind"], "why": v["why"]}
        if rec["kind"] in ("sort", "isort"):
            sts = {c["st"] for c in job["cols"]}
            keyst = [c["st"] for c in job["cols"] if c["name"] == "key"][0]
            if sts & {"u128", "i128"} and keyst not in ("u128", "i128"):
                sig = {"kind": rec["kind"], "payload": "u128"}
            elif keyst in ("u128", "i128"):
                sig = {"kind": rec["kind"], "key": "u128"}
            else:
                sig["key_type"] = keyst
            if rec.get("compiled"):
                sig["compiled"] = 1
        elif rec["kind"] == "perm":
            if job["a"]["st"] in ("u128", "i128"):
                sig = {"kind": "perm", "payload": "u128"}
            else:
                sig["valid"] = sorted(job["p"]) == list(range(len(job["p"])))
        chk.violation(sig, {"cmd": "rel", "jobs_file": chk.path("jobs_sort.ndjson"), "job_id": rec["id"], "verdict": v, "job": job, "returned": {k: rec.get(k) for k in ("res", "ap", "inv", "back", "back2", "iap")}})
    kinds = {}
    for r in recs:
        if r["kind"] != "claims":
            kinds[r["grp"].split("-")[0] + ":" + r["kind"]] = kinds.get(r["grp"].split("-")[0] + ":" + r["kind"], 0) + 1
    chk.note("cases", kinds)
    chk.note("exhaustive_groups", [c["grp"] for c in claims])
    chk.note("exhaustive_sort_tables", sum(1 << (c["n"] * c["b"]) for c in claims if c["what"] == "sort"))
    chk.note("invalid_permutations", ninv)
    chk.note("compiled_sort_shapes", nshape[0])
    chk.note("failing_records", len(bad))
    chk.exhaustive = True
    for r in recs:
        if r["kind"] == "sort" and r["grp"] == "sort-sampled" and r["res"]["out"] == "ok" and r["in"]["cols"]["key"]["n"] in (5, 6):
            chk.sample({"kind": "sort", "key_in": ["".join(map(str, k)) for k in r["in"]["cols"]["key"]["rows"]],
                        "tag_out": [t[0] for t in r["res"]["cols"]["tag"]["rows"]],
                        "key_out": ["".join(map(str, k)) for k in r["res"]["cols"]["key"]["rows"]]}, cap=3)
        if r["kind"] == "perm" and r["grp"] == "perm-4" and r["ap"]["out"] == "ok":
            chk.sample({"kind": "perm", "p": r["p"], "a": r["a"], "applied": r["ap"]["rows"], "inverse": [x[0] for x in r["inv"]["rows"]]}, cap=5)
    ncs = 0
    for r in recs:   # compiled sort, odd key width
        if ncs < 2 and r["kind"] == "sort" and r["grp"] == "csort-sampled" and r["res"]["out"] == "ok" \
                and r["in"]["cols"]["key"]["n"] in (4, 5, 6) and len(r["in"]["cols"]["key"]["rows"][0]) % 2 == 1:
            ncs += 1
            chk.sample({"kind": "compiled sort", "key_in": ["".join(map(str, k)) for k in r["in"]["cols"]["key"]["rows"]],
                        "tag_out": [t[0] for t in r["res"]["cols"]["tag"]["rows"]],
                        "key_out": ["".join(map(str, k)) for k in r["res"]["cols"]["key"]["rows"]]}, cap=8)
    if not chk.samples:
        r = recs[0]
        chk.sample({"kind": r["kind"], "in": r["in"]["cols"]["key"]["rows"], "out": r["res"]["cols"]["key"]["rows"]})
    chk.assumptions += [
        "bit-string keys: element 0 of a key row is the most significant (rows are ordered lexicographically)",
        "ApplyPermutation(a, p)[i] = a[p[i]] (the convention of the evaluator); the property itself only needs the round trip",
        "compiled sort: all parties' views are evaluated by one SimpleEvaluator (functional correctness of the protocol output; "
        "who-sees-what is judged by the C01/C02 machinery); secret-shared (IOStatus::Shared) inputs/outputs are not driven",
    ]


def replay(path):
    return bc.replay(path)
