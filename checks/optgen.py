"""Fully inlined well-typed graphs for the optimiser contract (C06, C04): seeded random DAGs over an alphabet
chosen to reach every rewrite of optimizer/*.rs: constants (incl. equal constants of different types), tuples /
named tuples / vectors / zip / array-to-vector with their getters, A2B/B2A chains with equal and different scalar
types, duplicated sub-expressions, dangling nodes, unused inputs, annotated NOPs and getters, Random / PRF nodes.
Systematic patterns come first, random graphs after."""
import random
from .progs import S, A, inp, nd, prog

B = S("b")
BA = A("b", [2])
U = S("u8")
I8 = S("i8")
B8 = A("b", [8])
KEY = A("b", [128])
U64 = S("u64")


def tup(*ts):
    return {"k": "t", "el": list(ts)}


def vec(n, t):
    return {"k": "v", "n": n, "of": t}


def named(names, ts):
    return {"k": "n", "nm": list(names), "el": list(ts)}


def const(t, vals):
    return nd("Constant", [], t=t, v=[str(v) for v in vals])


class G:
    def __init__(self, rng):
        self.rng = rng
        self.nodes = []
        self.types = []

    def add(self, node, t):
        self.nodes.append(node)
        self.types.append(t)
        return len(self.nodes)

    def of_type(self, t):
        return [i + 1 for i, x in enumerate(self.types) if x == t]

    def num_nodes(self):
        return [i + 1 for i, x in enumerate(self.types) if x["k"] in ("s", "a") and x != KEY and x != U64]


def numeric_result(ta, tb):
    """type of Add/Sub/Mul or None"""
    if ta["k"] not in ("s", "a") or tb["k"] not in ("s", "a") or ta["st"] != tb["st"]:
        return None
    if ta["k"] == "s":
        return tb
    if tb["k"] == "s":
        return ta
    return ta if ta["sh"] == tb["sh"] else None


def random_graph(rng, size, with_random):
    g = G(rng)
    n_in = rng.randint(1, 3)
    for _ in range(n_in):
        t = rng.choice([B, B, BA, U, tup(B, BA)])
        node = inp(t)
        if rng.random() < 0.5:
            node["name"] = "in%d" % (len(g.nodes) + 1)
        g.add(node, t)
    ann_budget = 2
    for _ in range(size):
        kind = rng.choice(["const", "bin", "bin", "tuple", "tget", "named", "nget", "vector", "vget", "a2v", "v2a", "zip",
                           "a2b", "b2a", "nop", "dup", "dup"] + (["random", "prf", "prf", "permprf"] if with_random else []))
        try:
            if kind == "const":
                t = rng.choice([B, BA, U])
                which = rng.choice(["Zeros", "Ones", "Constant"])
                if which == "Constant":
                    n = 2 if t == BA else 1
                    m = 2 if t["st"] == "b" else 256
                    g.add(const(t, [rng.randrange(m) for _ in range(n)]), t)
                else:
                    g.add(nd(which, [], t=t), t)
            elif kind == "bin":
                xs = g.num_nodes()
                a, b = rng.choice(xs), rng.choice(xs)
                t = numeric_result(g.types[a - 1], g.types[b - 1])
                if t:
                    g.add(nd(rng.choice(["Add", "Subtract", "Multiply"]), [a, b]), t)
            elif kind == "tuple":
                k = rng.randint(1, 3)
                ds = [rng.randint(1, len(g.nodes)) for _ in range(k)]
                g.add(nd("CreateTuple", ds), tup(*[g.types[d - 1] for d in ds]))
            elif kind == "tget":
                ts = [i + 1 for i, x in enumerate(g.types) if x["k"] in ("t", "n") and len(x["el"]) > 0]
                if ts:
                    a = rng.choice(ts)
                    i = rng.randrange(len(g.types[a - 1]["el"]))
                    node = nd("TupleGet", [a], i=i)
                    if ann_budget and rng.random() < 0.3:
                        node["sends"] = [[rng.randrange(3), rng.randrange(3)]]
                        ann_budget -= 1
                    g.add(node, g.types[a - 1]["el"][i])
            elif kind == "named":
                ds = [rng.randint(1, len(g.nodes)) for _ in range(2)]
                nm = rng.choice([["p", "q"], ["q", "p"], ["second", "first"]])     # declaration order need not be name order
                g.add(nd("CreateNamedTuple", ds, nm=nm), named(nm, [g.types[d - 1] for d in ds]))
            elif kind == "nget":
                ts = [i + 1 for i, x in enumerate(g.types) if x["k"] == "n"]
                if ts:
                    a = rng.choice(ts)
                    i = rng.randrange(2)
                    g.add(nd("NamedTupleGet", [a], key=g.types[a - 1]["nm"][i]), g.types[a - 1]["el"][i])
            elif kind == "vector":
                t = rng.choice([B, BA, U])
                xs = g.of_type(t)
                if xs:
                    ds = [rng.choice(xs) for _ in range(2)]
                    g.add(nd("CreateVector", ds, t=t), vec(2, t))
            elif kind == "vget":
                vs = [i + 1 for i, x in enumerate(g.types) if x["k"] == "v"]
                if vs:
                    a = rng.choice(vs)
                    idx = g.add(const(U64, [rng.randrange(g.types[a - 1]["n"])]), U64)
                    g.add(nd("VectorGet", [a, idx]), g.types[a - 1]["of"])
            elif kind == "a2v":
                xs = g.of_type(BA)
                if xs:
                    g.add(nd("ArrayToVector", [rng.choice(xs)]), vec(2, B))
            elif kind == "v2a":
                vs = [i + 1 for i, x in enumerate(g.types) if x == vec(2, B)]
                if vs:
                    g.add(nd("VectorToArray", [rng.choice(vs)]), BA)
            elif kind == "zip":
                vs = [i + 1 for i, x in enumerate(g.types) if x["k"] == "v" and x["n"] == 2]
                if len(vs) >= 1:
                    a, b = rng.choice(vs), rng.choice(vs)
                    g.add(nd("Zip", [a, b]), vec(2, tup(g.types[a - 1]["of"], g.types[b - 1]["of"])))
            elif kind == "a2b":
                xs = g.of_type(U) + g.of_type(I8)
                if xs:
                    g.add(nd("A2B", [rng.choice(xs)]), B8)
            elif kind == "b2a":
                xs = g.of_type(B8)
                if xs:
                    st = rng.choice(["u8", "u8", "i8"])
                    g.add(nd("B2A", [rng.choice(xs)], st=st), S(st))
            elif kind == "nop":
                a = rng.randint(1, len(g.nodes))
                node = nd("NOP", [a])
                if ann_budget and rng.random() < 0.7:
                    s = rng.randrange(3)
                    node["sends"] = [[s, (s + rng.randint(1, 2)) % 3]]
                    ann_budget -= 1
                g.add(node, g.types[a - 1])
            elif kind == "dup":
                cands = [i for i, x in enumerate(g.nodes) if x["op"] not in ("Input",)]
                if cands:
                    i = rng.choice(cands)
                    node = dict(g.nodes[i])
                    node.pop("name", None)
                    node.pop("sends", None)
                    g.add(node, g.types[i])
            elif kind == "random":
                t = rng.choice([B, BA, KEY])
                g.add(nd("Random", [], t=t), t)
            elif kind == "permprf":
                ks = g.of_type(KEY)
                if not ks:
                    ks = [g.add(nd("Random", [], t=KEY), KEY)]
                g.add(nd("PermutationFromPRF", [rng.choice(ks)], iv=rng.choice([0, 0, 1]), n=3), A("u64", [3]))
            elif kind == "prf":
                ks = g.of_type(KEY)
                if not ks:
                    ks = [g.add(nd("Random", [], t=KEY), KEY)]
                t = rng.choice([B, BA])
                ivs = [n.get("iv") for n in g.nodes if n["op"] == "PRF"]
                iv = rng.choice([len(ivs) + 1, len(ivs) + 1, (ivs or [1])[0]])  # sometimes reuse a counter on purpose
                g.add(nd("PRF", [rng.choice(ks)], iv=iv, t=t), t)
        except IndexError:
            pass
    # output: prefer a late node; the rest is dangling
    out = rng.randint(max(n_in + 1, len(g.nodes) - 2), len(g.nodes)) if len(g.nodes) > n_in else len(g.nodes)
    return prog(g.nodes, out)


def patterns():
    """hand-picked shapes, one per rewrite"""
    ps = []
    ps.append(("const_fold", prog([inp(B), nd("Ones", [], t=B), nd("Ones", [], t=B), nd("Add", [2, 3]), nd("Multiply", [1, 4])])))
    ps.append(("equal_consts_diff_types", prog([inp(U), nd("Zeros", [], t=U), nd("Zeros", [], t=I8), nd("Add", [1, 2]), nd("A2B", [3]), nd("A2B", [4]), nd("Add", [5, 6])])))
    # byte-identical constants of different types, each used where its type matters
    ps.append(("equal_bytes_consts_u8_i8", prog([inp(U), inp(I8), const(U, [5]), const(I8, [5]), nd("Add", [1, 3]), nd("Multiply", [2, 4]), nd("CreateTuple", [5, 6])])))
    ps.append(("equal_bytes_consts_b_u8", prog([inp(U), const(B, [1]), const(U, [1]), nd("MixedMultiply", [1, 2]), nd("Add", [4, 3])])))
    ps.append(("equal_bytes_ones_b8_u8", prog([inp(B8), inp(U), nd("Ones", [], t=B8), const(U, [255]), nd("Add", [1, 3]), nd("Add", [2, 4]), nd("CreateTuple", [5, 6])])))
    ps.append(("equal_bytes_scalar_array", prog([inp(U), const(U, [7]), const(A("u8", [1]), [7]), nd("Add", [1, 2]), nd("Add", [4, 3])])))
    ps.append(("tuple_get", prog([inp(B), inp(BA), nd("CreateTuple", [1, 2]), nd("TupleGet", [3], i=1), nd("Multiply", [4, 1])])))
    ps.append(("tuple_get_annotated", prog([inp(B), inp(BA), nd("CreateTuple", [1, 2]), dict(nd("TupleGet", [3], i=0), sends=[[0, 1]]), nd("Multiply", [4, 2])])))
    ps.append(("named_positional_get", prog([inp(B), inp(U), nd("CreateNamedTuple", [1, 2], nm=["second", "first"]), nd("TupleGet", [3], i=0), nd("Add", [4, 1])])))
    ps.append(("named_positional_get_same_types", prog([inp(U), inp(U), nd("CreateNamedTuple", [1, 2], nm=["zz", "aa"]), nd("TupleGet", [3], i=1), nd("TupleGet", [3], i=0), nd("Subtract", [4, 5])])))
    ps.append(("named_get", prog([inp(B), inp(U), nd("CreateNamedTuple", [1, 2], nm=["p", "q"]), nd("NamedTupleGet", [3], key="q"), nd("Add", [4, 2])])))
    for ix in ([1], [2, 1], [0, 0]):
        ps.append(("stacked_rows_get_%s" % "_".join(map(str, ix)),
                   prog([inp(A("u8", [3])), inp(A("u8", [3])), nd("Multiply", [1, 2]), nd("Add", [1, 2]), nd("Subtract", [1, 2]),
                         nd("CreateVector", [3, 4, 5], t=A("u8", [3])), nd("VectorToArray", [6]), nd("Get", [7], index=ix)])))
    ps.append(("vector_get_const", prog([inp(B), inp(B), nd("CreateVector", [1, 2], t=B), const(U64, [1]), nd("VectorGet", [3, 4]), nd("Add", [5, 1])])))
    ps.append(("a2v_get", prog([inp(BA), nd("ArrayToVector", [1]), const(U64, [0]), nd("VectorGet", [2, 3])])))
    ps.append(("zip_get", prog([inp(BA), inp(BA), nd("ArrayToVector", [1]), nd("ArrayToVector", [2]), nd("Zip", [3, 4]), const(U64, [1]), nd("VectorGet", [5, 6]), nd("TupleGet", [7], i=0), nd("TupleGet", [7], i=1), nd("Multiply", [8, 9])])))
    ps.append(("a2b_b2a_same", prog([inp(U), nd("A2B", [1]), nd("B2A", [2], st="u8"), nd("Add", [3, 1])])))
    ps.append(("a2b_b2a_diff", prog([inp(U), nd("A2B", [1]), nd("B2A", [2], st="i8"), nd("A2B", [3])])))
    ps.append(("b2a_a2b", prog([inp(B8), nd("B2A", [1], st="u8"), nd("A2B", [2]), nd("Add", [3, 1])])))
    ps.append(("dups", prog([inp(B), inp(B), nd("Add", [1, 2]), nd("Add", [1, 2]), nd("Multiply", [3, 4])])))
    ps.append(("dups_annotated", prog([inp(B), nd("NOP", [1]), dict(nd("NOP", [1]), sends=[[1, 2]]), dict(nd("NOP", [1]), sends=[[0, 2]]), nd("CreateTuple", [2, 3, 4])])))
    ps.append(("dangling_unused_input", prog([dict(inp(B), name="a"), dict(inp(U), name="unused"), dict(inp(B), name="c"), nd("Add", [1, 3]), nd("Multiply", [1, 1])], 4)))
    ps.append(("random_twice", prog([nd("Random", [], t=B), nd("Random", [], t=B), nd("Add", [1, 2])])))
    ps.append(("prf_same_key", prog([nd("Random", [], t=KEY), nd("PRF", [1], iv=1, t=B), nd("PRF", [1], iv=2, t=B), nd("PRF", [1], iv=1, t=B), nd("CreateTuple", [2, 3, 4])])))
    ps.append(("prf_dead", prog([inp(B), nd("Random", [], t=KEY), nd("PRF", [2], iv=1, t=B), nd("PRF", [2], iv=2, t=B), nd("Add", [1, 3])])))
    M22 = A("b", [2, 2])
    for opn in ("Add", "Subtract", "Multiply"):
        cst = "Ones" if opn == "Multiply" else "Zeros"
        ps.append(("%s_neutral_broadcast_r" % opn, prog([inp(B), nd(cst, [], t=BA), nd(opn, [1, 2]), nd("Sum", [3], axes=[0])])))
        ps.append(("%s_neutral_broadcast_l" % opn, prog([inp(B), nd(cst, [], t=BA), nd(opn, [2, 1]), nd("Sum", [3], axes=[0])])))
        ps.append(("%s_neutral_same_shape" % opn, prog([inp(BA), nd(cst, [], t=BA), nd(opn, [1, 2]), nd(opn, [2, 1]), nd("CreateTuple", [3, 4])])))
    ps.append(("neutral_u8", prog([inp(U), nd("Zeros", [], t=U), nd("Ones", [], t=U), nd("Add", [1, 2]), nd("Multiply", [4, 3]), nd("Subtract", [2, 5])])))
    for opn in ("Dot", "Matmul"):
        ps.append(("%s_commutator" % opn, prog([inp(M22), inp(M22), nd(opn, [1, 2]), nd(opn, [2, 1]), nd("Subtract", [3, 4])])))
    ps.append(("gemm_swapped", prog([inp(M22), inp(M22), nd("Gemm", [1, 2], ta=False, tb=True), nd("Gemm", [2, 1], ta=False, tb=True), nd("Subtract", [3, 4])])))
    ps.append(("sub_swapped", prog([inp(B), inp(B), nd("Subtract", [1, 2]), nd("Subtract", [2, 1]), nd("CreateTuple", [3, 4])])))
    ps.append(("mixmul_swapped_types", prog([inp(U), inp(B), inp(B), nd("MixedMultiply", [1, 2]), nd("MixedMultiply", [1, 3]), nd("Subtract", [4, 5])])))
    ps.append(("stack_order", prog([inp(B), inp(B), nd("Stack", [1, 2], sh=[2]), nd("Stack", [2, 1], sh=[2]), nd("Subtract", [3, 4])])))
    ps.append(("concat_order", prog([inp(BA), inp(BA), nd("Concatenate", [1, 2], axis=0), nd("Concatenate", [2, 1], axis=0), nd("Subtract", [3, 4])])))
    # annotated nodes over constants: the send marker must survive constant folding
    ps.append(("send_on_constant", prog([inp(B), nd("Ones", [], t=B), dict(nd("NOP", [2]), sends=[[0, 1]]), nd("Add", [3, 1])])))
    ps.append(("send_on_folded_sum", prog([inp(BA), nd("Ones", [], t=BA), nd("Zeros", [], t=BA), dict(nd("Add", [2, 3]), sends=[[2, 0]]), nd("Multiply", [4, 1])])))
    ps.append(("send_on_const_tuple_get", prog([inp(B), nd("Ones", [], t=B), nd("CreateTuple", [2, 2]), dict(nd("TupleGet", [3], i=1), sends=[[1, 2]]), nd("Add", [4, 1])])))
    ps.append(("send_on_constant_node", prog([inp(B), const(B, [1]), dict(nd("NOP", [2]), sends=[[0, 1]]), nd("Add", [3, 1])])))
    ps.append(("send_on_folded_constants", prog([inp(BA), const(BA, [1, 0]), const(BA, [1, 1]), dict(nd("Add", [2, 3]), sends=[[2, 0]]), nd("Multiply", [4, 1])])))
    ps.append(("send_on_const_sum_u8", prog([inp(U), const(U, [200]), const(U, [100]), nd("Add", [2, 3]), dict(nd("NOP", [4]), sends=[[1, 2]]), nd("Subtract", [1, 5])])))
    # randomising operations that have inputs: constant inputs must not make them constants
    U64A = A("u64", [3])
    ps.append(("decompose_const", prog([const(U64A, [0, 0, 2]), nd("DecomposeSwitchingMap", [1], n=3), nd("TupleGet", [2], i=0)])))
    ps.append(("cuckoo_to_perm_const", prog([const(U64A, [1, 0, 18446744073709551615]), nd("CuckooToPermutation", [1])])))
    # ... and two of them on the same input are two independent draws
    ps.append(("cuckoo_to_perm_twice_same_dep", prog([inp(U64A), nd("CuckooToPermutation", [1]), nd("CuckooToPermutation", [1]), nd("CreateTuple", [2, 3])])))
    ps.append(("decompose_twice_same_dep", prog([inp(U64A), nd("DecomposeSwitchingMap", [1], n=3), nd("DecomposeSwitchingMap", [1], n=3), nd("CreateTuple", [2, 3])])))
    ps.append(("cuckoo_to_perm_twice_const", prog([const(U64A, [1, 0, 18446744073709551615]), nd("CuckooToPermutation", [1]), nd("CuckooToPermutation", [1]), nd("CreateTuple", [2, 3])])))
    ps.append(("random_permutation_twice", prog([nd("RandomPermutation", [], n=3), nd("RandomPermutation", [], n=3), nd("Add", [1, 2])])))
    # several permutations requested from one key with the same counter (as before uniquify_prf_id)
    ps.append(("perm_prf_same_iv", prog([nd("Random", [], t=KEY), nd("PermutationFromPRF", [1], iv=0, n=3), nd("PermutationFromPRF", [1], iv=0, n=3),
                                         nd("PermutationFromPRF", [1], iv=0, n=3), nd("CreateTuple", [2, 3, 4])])))
    ps.append(("perm_prf_via_tuple_key", prog([nd("Random", [], t=KEY), nd("CreateTuple", [1, 1]), nd("TupleGet", [2], i=0), nd("TupleGet", [2], i=1),
                                               nd("PermutationFromPRF", [3], iv=0, n=4), nd("PermutationFromPRF", [4], iv=0, n=4), nd("Add", [5, 6])])))
    ps.append(("send_chain", prog([inp(B), dict(nd("NOP", [1]), sends=[[0, 1]]), dict(nd("NOP", [2]), sends=[[1, 2]]), nd("Add", [3, 3])])))
    return ps


def cases(tier, seed):
    rng = random.Random(seed)
    out = []
    cid = 0
    for name, p in patterns():
        cid += 1
        out.append({"id": cid, "name": name, "prog": p, "seed": seed})
    # random programs over the MPC-compilable operations (mixed shapes, containers, linear algebra), see randprog.py
    from . import randprog
    for name, p, _its in randprog.programs(seed + 17, 80 if tier == "quick" else 1500, sts=("b", "u8", "i8")):
        cid += 1
        out.append({"id": cid, "name": name, "prog": p, "seed": seed})
    n = 150 if tier == "quick" else 2500
    for k in range(n):
        cid += 1
        size = rng.randint(3, 9)
        out.append({"id": cid, "name": "rand%d" % k, "prog": random_graph(rng, size, with_random=(k % 3 == 0)), "seed": seed + k})
    return out
