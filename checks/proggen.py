"""Programs enumerated by TLC from the specification's typing relation (spec/ProgGen.tla): the specification ->
implementation direction.  Every program the specification accepts (over a small alphabet, up to a node bound) is
returned in the harness's program format together with the type the specification inferred for every node."""
import json, os
from . import lib

UNIVERSES = {
    # name: (InTypes, BinOps, UnOps)
    "bit": ("BitTypes", "ArithOps", "SumUn"),
    "bitdot": ("BitTypes2", "ArithDotOps", "SumUn"),
    "ring": ("RingTypes", "ArithOps", "SumUn"),
    "mix": ("MixTypes", "AllBinOps", "StructUn"),
}


def enumerate_programs(chk, universe, max_nodes, max_inputs=2, max_dead=0, tag=None):
    """[(name, prog, tys)] : all programs of the universe with at most max_nodes nodes, in TLC's enumeration order made
    canonical by sorting on the JSON text."""
    it, bo, uo = UNIVERSES[universe]
    tag = tag or "proggen_%s_%d" % (universe, max_nodes)
    cfg = chk.path("%s.cfg" % tag)
    with open(cfg, "w") as f:
        f.write("SPECIFICATION GSpec\nCONSTANTS\n  RingBits = 1\n  MaxNodes = %d\n  MaxInputs = %d\n  MaxDead = %d\n"
                "  InTypes <- %s\n  BinOps <- %s\n  UnOps <- %s\nINVARIANT Emit\nINVARIANT CtxTyped\nCONSTRAINT Tidy\nCHECK_DEADLOCK FALSE\n"
                % (max_nodes, max_inputs, max_dead, it, bo, uo))
    res = lib.tlc("MC_ProgGen", cfg, workers=4, timeout=1500, coverage=False)
    chk.add_tlc(res, tag)
    if not res.ok:
        raise lib.ToolError("ProgGen did not complete: %s" % res.error)
    progs = sorted(set(json.dumps(p, sort_keys=True) for p in lib.printed_json(res, "PROG")))
    out = []
    for i, s in enumerate(progs):
        p = json.loads(s)
        tys = p.pop("tys")
        out.append(("gen_%s_%d" % (universe, i), p, tys))
    return out
