"""C20  Approximate numeric operations stay close to the real function.

1. design check (TLC, spec/ApproxAlg.tla over spec/Approx.tla): the Newton reciprocal and inverse-square-root iterations
   with the bit-derived initial guess (and with EVERY admissible caller-supplied one), Goldschmidt division and the
   piecewise-linear bucket selection / multiplexer tree / evaluation, transcribed over small words, meet the closeness
   relations and tolerances for EVERY input of the scaled-down domains and every iteration count 0..7.
2. conformance (B2): the harness binary `approx` builds a graph with ONE approximation operation, instantiates it and
   evaluates it with the SimpleEvaluator on dense sweeps of the documented domain (exhaustive over the grid for the small
   precisions; bucket boundaries, domain ends, powers of two and seeded random points for the large ones), and for a
   smaller set compiles the same graph with compile_context and evaluates the compiled graph.  TLC (spec/ApproxTrace.tla)
   judges EVERY element of every record: closeness to the exact function inside the documented domain (integer relations
   for reciprocal / inverse square root / division / product, rigorous integer brackets of exp / sigmoid / GeLU generated
   by checks/c20_tables.py), and compiled output against plaintext output up to the truncation allowance (piecewise-linear
   operations: explained by the line of the containing segment or of the next one).
"""
import concurrent.futures, json, math, os, random, subprocess, sys
from . import lib

PWL_LEFT = {"exp": -16, "sigmoid": -8, "gelu": -4}
TABLE_OPS = ("exp", "taylor", "sigmoid", "gelu")


def workers(n):
    return max(1, min(n, int(os.environ.get("VERIF_MAX_WORKERS", n))))


# ------------------------------------------------------------------------------------------ sweeps


def spread(lo, hi, specials, nrand, rnd):
    """specials +-2 (clipped to [lo, hi]), the ends +-2 and nrand seeded random points"""
    pts = set()
    for s in list(specials) + [lo, hi]:
        for d in (-2, -1, 0, 1, 2):
            if lo <= s + d <= hi:
                pts.add(s + d)
    for _ in range(nrand):
        pts.add(rnd.randint(lo, hi))
    return sorted(pts)


def pwl_points(op, p, lb, rnd, nrand, beyond=2):
    """every bucket boundary +-2, the segment ends +-2, and random points of [beyond*left, beyond*right] (grid of precision p)"""
    left = PWL_LEFT[op] << p
    right = -left
    step = (right - left) >> lb
    sp = [left + i * step for i in range(-2, (1 << lb) + 3)] + [0]
    return spread(beyond * left, beyond * right if op == "sigmoid" else right + 4, sp, nrand, rnd)


def taylor_hi(p):
    """largest judged argument: the result stays below 2^29 ("31-bit fixed-point arithmetic")"""
    return int(math.floor((28.9 - p) * math.log(2) * (1 << p)))


def ilog2(x):
    return x.bit_length() - 1


def isqrt_ceil(n):
    r = math.isqrt(n)
    return r if r * r == n else r + 1


def newton_inits(cap, xs, which):
    """caller-supplied initial approximations: 'lo' / 'hi' = ends of the judged range 2^(cap-1) <= x w <= 3 2^(cap-1),
    'pow2' = the built-in guess, 'doc' = upper end of the documented range x w < 2^(cap+1) (not judged)"""
    out = []
    for x in xs:
        if which == "lo":
            out.append(-(-(1 << (cap - 1)) // x))
        elif which == "hi":
            out.append((3 << (cap - 1)) // x)
        elif which == "pow2":
            out.append(1 << (cap - 1 - ilog2(x)))
        else:
            out.append(((1 << (cap + 1)) - 1) // x)
    return out


def isqrt_inits(cap, xs, which):
    out = []
    for x in xs:
        if which == "lo":
            out.append(isqrt_ceil(-(-(1 << (2 * cap - 2)) // x)))
        else:
            out.append(math.isqrt((1 << (2 * cap)) // x))
    return out


def build_jobs(quick, rnd):
    jobs = []

    def add(**j):
        j.setdefault("st", "i64")
        j.setdefault("enc", "int")
        jobs.append(j)

    # ---------------- Newton reciprocal: documented domain (0, 2^(cap-1)) exhaustively, every iteration count
    for cap in ((6, 8, 10) if quick else (4, 6, 8, 10, 12)):
        for k in range(0, 7 if quick else 8):
            for st in (("u64", "i64") if not quick or k in (3, 5) else ("u64",)):
                add(op="newton", st=st, p=cap, k=k, xr=[1, (1 << (cap - 1)) - 1])
    if quick:
        add(op="newton", st="u64", p=12, k=5, xr=[1, (1 << 11) - 1])
    for cap, k, n in ((16, 5, 300 if quick else 3000), (20, 6, 200 if quick else 2000)):
        xs = spread(1, (1 << (cap - 1)) - 1, [1 << i for i in range(cap)] + [3 << i for i in range(cap - 2)], n, rnd)
        add(op="newton", st="u64", p=cap, k=k, x=xs)
        add(op="newton", st="i64", p=cap, k=k - 2, x=xs[:: 3 if quick else 1])
    xs = spread(1, (1 << 29) - 1, [1 << i for i in range(0, 30, 3 if quick else 1)], 30 if quick else 600, rnd)
    add(op="newton", st="u64", p=30, k=6, x=xs, enc="limbs")
    add(op="newton", st="i64", p=30, k=5, x=xs, enc="limbs")
    # caller-supplied initial approximation
    for cap, ks in ((10, (2, 5)), (7, (0, 1, 3, 4))):
        xs = list(range(1, 1 << (cap - 1)))
        for k in ks:
            for which in ("lo", "hi", "pow2"):
                add(op="newton", st="u64" if which != "hi" else "i64", p=cap, k=k, x=xs, w=newton_inits(cap, xs, which), init=which)
    xs = list(range(1, 1 << 9, 7))
    add(op="newton", st="u64", p=10, k=5, x=xs, w=newton_inits(10, xs, "doc"), init="doc")

    # ---------------- inverse square root: (0, 2^(2cap-1)), below 2^21
    for cap, ks in ((4, range(0, 8)), (6, (2, 5) if quick else range(0, 8))):
        for k in ks:
            for st in (("u64", "i64") if cap == 4 or k == 5 else ("u64",)):
                add(op="isqrt", st=st, p=cap, k=k, xr=[1, (1 << (2 * cap - 1)) - 1])
    for cap, k, n in ((8, 5, 600), (10, 5, 1000), (10, 4, 200), (12, 6, 200)):
        top = min((1 << (2 * cap - 1)), 1 << 21) - 1
        if not quick and cap == 8:
            add(op="isqrt", st="u64", p=cap, k=k, xr=[1, top])
            continue
        sp = [4 ** j for j in range(cap + 1)] + [2 * 4 ** j for j in range(cap)] + [3 * 4 ** j for j in range(cap)]
        xs = spread(1, top, [s for s in sp if s <= top], n if quick else 8 * n, rnd)
        add(op="isqrt", st="u64" if k != 4 else "i64", p=cap, k=k, x=xs)
    xs = spread(1, (1 << 21) - 1, [4 ** j for j in range(11)], 40 if quick else 400, rnd)
    add(op="isqrt", st="u64", p=16, k=6, x=xs, enc="limbs")
    add(op="isqrt", st="i64", p=20, k=7, x=xs, enc="limbs")
    add(op="isqrt", st="u64", p=31, k=7, x=xs[:: 2], enc="limbs")      # the largest cap the operation accepts
    for cap, ks in ((6, (3, 5)), (4, (0, 2))):
        xs = list(range(1, 1 << (2 * cap - 1), 1 if cap == 4 or not quick else 3))
        for k in ks:
            for which in ("lo", "hi"):
                add(op="isqrt", st="u64", p=cap, k=k, x=xs, w=isqrt_inits(cap, xs, which), init=which)

    # ---------------- Goldschmidt division: dividend and divisor in (0, 2^(cap-1))
    for k in range(1, 8):
        for st in ("u64", "i64"):
            add(op="gold", st=st, p=5, k=k, xr=[1, 15], nr=[1, 15], cart=1)
    for k in ((5,) if quick else range(1, 8)):
        add(op="gold", st="u64", p=7, k=k, xr=[1, 63], nr=[1, 63], cart=1)
    ns = spread(1, 511, [511], 2 if quick else 60, rnd)
    for k in ((5,) if quick else (4, 5, 6)):
        add(op="gold", st="i64", p=10, k=k, xr=[1, 511], n=ns, cart=1)
    for st, cap, k in (("u64", 20, 5), ("u128", 30, 5), ("i128", 30, 7), ("u128", 20, 6)):
        m = (1 << (cap - 1)) - 1
        ds = spread(1, m, [1 << i for i in range(0, cap - 1, 4 if quick else 1)], 10 if quick else 150, rnd)
        add(op="gold", st=st, p=cap, k=k, x=ds, n=[rnd.randint(1, m) for _ in ds], enc="limbs")
    xs = list(range(1, 64))
    for which in ("lo", "hi"):
        add(op="gold", st="u64", p=7, k=5, x=[x for x in xs for _ in (0, 1, 2)], n=[n for _ in xs for n in (1, 37, 63)],
            w=[w for w in newton_inits(7, xs, which) for _ in (0, 1, 2)], init=which)

    # ---------------- FixedMultiply
    add(op="fixmul", p=4, xr=[-20, 41], nr=[-20, 41], cart=1)
    for p in (0, 8, 10, 15):
        xs = [rnd.randint(-(1 << 15), 1 << 15) for _ in range(300 if quick else 3000)]
        add(op="fixmul", p=p, x=xs, n=[rnd.randint(-(1 << 15), 1 << 15) for _ in xs])
    xs = [rnd.randint(-(1 << 30), 1 << 30) for _ in range(60 if quick else 600)]
    add(op="fixmul", p=15, x=xs, n=[rnd.randint(-(1 << 30), 1 << 30) for _ in xs], enc="limbs")

    # ---------------- piecewise-linear sigmoid / GeLU / exponent: the whole grid of [2 left, right (2 right if flat)]
    for op in ("sigmoid", "gelu"):
        left = PWL_LEFT[op]
        for p in ((4, 6) if quick else (4, 6, 8)):
            for lb in ((4, 5, 6) if not quick or p == 4 else (5,)):
                hi = (-2 * left if op == "sigmoid" else -left) << p
                add(op=op, p=p, lb=lb, xr=[(2 * left) << p, hi - ((2 * left) << p) + 1])
        if quick:
            add(op=op, p=8, lb=5, x=pwl_points(op, 8, 5, rnd, 600))
        for p, lb, n in ((10, 4, 150), (10, 5, 400), (10, 6, 150), (12, 6, 200)):
            add(op=op, p=p, lb=lb, x=pwl_points(op, p, lb, rnd, n if quick else 10 * n))
        for lb in ((5,) if quick else (5, 6)):
            add(op=op, p=15, lb=lb, x=pwl_points(op, 15, lb, rnd, 20 if quick else 600)[:: 2 if quick else 1], enc="limbs")
    for p in ((4,) if quick else (4, 6, 8)):
        add(op="exp", p=p, lb=6, xr=[-32 << p, (48 << p) + 1], enc="limbs")
    for p, n in ((6, 40), (10, 40), (15, 40)):
        add(op="exp", p=p, lb=6, x=pwl_points("exp", p, 6, rnd, n if quick else 25 * n)[:: 3 if quick else 1], enc="limbs")

    # ---------------- Taylor exponent: [-20, (29 - p) ln 2)
    for p in (4, 6):
        for k in ((2, 3, 4, 5, 7) if not quick or p == 4 else (3, 5)):
            add(op="taylor", p=p, k=k, xr=[-20 << p, taylor_hi(p) + (20 << p) + 1])
    for p, ks in ((8, () if quick else (3, 4, 5, 7)), (10, () if quick else (5,))):
        for k in ks:
            add(op="taylor", p=p, k=k, xr=[-20 << p, taylor_hi(p) + (20 << p) + 1])
    for p, ks, n in ((8, (4, 5), 900), (10, (3, 4, 5, 8), 900), (12, (4, 5), 500), (15, (3, 5, 6), 500)):
        cut = int(-10 * math.log(2) * (1 << p))
        sp = [0, cut, -10 << p, -7 << p, -8 << p, -9 << p] + [int(i * math.log(2) * (1 << p)) for i in range(-14, 29 - p)]
        for k in ks:
            add(op="taylor", p=p, k=k, x=spread(-20 << p, taylor_hi(p), sp, (n if quick else 10 * n) // len(ks), rnd))

    # ---------------- the generic helper with f(x) = x*x (exact): binds the selection / evaluation model to the code
    for p, lb, L, R, fl, fr in ((4, 3, -4, 4, 0, 0), (4, 3, -4, 4, 1, 1), (5, 4, -2, 2, 1, 0), (3, 2, -2, 6, 0, 1),
                                (10, 4, -2, 2, 0, 0), (10, 4, -2, 2, 1, 1)):
        lo, hi = (2 * L - 1) << p, (2 * R + 1) << p
        if p >= 10:
            step = ((R - L) << p) >> lb
            xs = spread(lo, hi, [(L << p) + i * step for i in range(-2, (1 << lb) + 3)], 300 if quick else 3000, rnd)
            add(op="pwlsq", p=p, lb=lb, L=L, R=R, fl=fl, fr=fr, x=xs)
        else:
            add(op="pwlsq", p=p, lb=lb, L=L, R=R, fl=fl, fr=fr, xr=[lo, hi - lo + 1])

    # ---------------- compiled by compile_context (private input of party 0, output revealed), against plaintext
    nc = 60 if quick else 400
    cseed = rnd.randint(1, 1 << 30)
    add(op="newton", p=10, k=5, x=spread(1, 511, [1, 2, 256], nc, rnd), compiled=cseed)
    add(op="newton", p=10, k=2, x=spread(1, 511, [], nc // 2, rnd), compiled=cseed + 1)
    add(op="isqrt", p=6, k=5, x=spread(1, 2047, [4, 16, 64, 256, 1024], nc, rnd), compiled=cseed + 2)
    ds = [rnd.randint(1, 63) for _ in range(nc)]
    add(op="gold", p=7, k=5, x=ds, n=[rnd.randint(1, 63) for _ in ds], compiled=cseed + 3)
    add(op="taylor", p=10, k=5, x=spread(-10 << 10, taylor_hi(10), [0], nc, rnd), compiled=cseed + 4)
    xs = [rnd.randint(-(1 << 15), 1 << 15) for _ in range(nc)]
    add(op="fixmul", p=8, x=xs, n=[rnd.randint(-(1 << 15), 1 << 15) for _ in xs], compiled=cseed + 5)
    add(op="pwlsq", p=8, lb=4, L=-2, R=2, fl=0, fr=0, x=spread(-3 << 8, 3 << 8, [-512, 0, 512], nc, rnd), compiled=cseed + 6)
    add(op="pwlsq", p=8, lb=4, L=-2, R=2, fl=1, fr=1, x=spread(-3 << 8, 3 << 8, [-512, 0, 512], nc, rnd), compiled=cseed + 7)
    add(op="sigmoid", p=8, lb=5, x=pwl_points("sigmoid", 8, 5, rnd, nc // 2)[:: 2 if quick else 1], compiled=cseed + 8)
    add(op="gelu", p=8, lb=5, x=pwl_points("gelu", 8, 5, rnd, nc // 2)[:: 2 if quick else 1], compiled=cseed + 9)
    add(op="exp", p=6, lb=6, x=pwl_points("exp", 6, 6, rnd, nc // 2)[:: 3 if quick else 1], compiled=cseed + 10, enc="limbs")
    add(op="sigmoid", p=12, lb=6, x=pwl_points("sigmoid", 12, 6, rnd, nc // 2)[:: 3 if quick else 1], compiled=cseed + 11)
    if not quick:
        add(op="gelu", p=12, lb=4, x=pwl_points("gelu", 12, 4, rnd, nc), compiled=cseed + 12)
        add(op="exp", p=10, lb=6, x=pwl_points("exp", 10, 6, rnd, nc), compiled=cseed + 13, enc="limbs")

    # split long jobs into chunks (one record per chunk), number them
    out = []
    for j in jobs:
        for c in chunk(j, 1024 if quick else 2048):
            c["id"] = len(out)
            out.append(c)
    return out


def n_elems(j):
    nx = j["xr"][1] if "xr" in j else len(j["x"])
    if j.get("cart"):
        return nx * (j["nr"][1] if "nr" in j else len(j["n"]))
    return nx


def chunk(j, m):
    n = n_elems(j)
    if n <= m:
        return [j]
    out = []
    if j.get("cart"):
        nx = j["xr"][1] if "xr" in j else len(j["x"])
        per = max(1, m // nx)
        ns = list(range(j["nr"][0], j["nr"][0] + j["nr"][1])) if "nr" in j else j["n"]
        for i in range(0, len(ns), per):
            c = {k: v for k, v in j.items() if k not in ("nr", "n")}
            c["n"] = ns[i:i + per]
            out.append(c)
        return out
    for i in range(0, n, m):
        c = dict(j)
        if "xr" in j:
            c["xr"] = [j["xr"][0] + i, min(m, n - i)]
        else:
            c["x"] = j["x"][i:i + m]
        for f in ("n", "w"):
            if f in j:
                c[f] = j[f][i:i + m]
        out.append(c)
    return out


def cost(j):
    return n_elems(j) * (25.0 if "compiled" in j else 1.5 if "w" not in j else 0.7) + (1500 if "compiled" in j else 20)


def tlc_cost(j):
    return n_elems(j) * (60 if j.get("enc") == "limbs" else 1) * (3 if "compiled" in j else 1) + 50


def bins(jobs, n, fn):
    """longest-processing-time-first distribution of the jobs over n bins"""
    bs = [[0.0, []] for _ in range(n)]
    for j in sorted(jobs, key=fn, reverse=True):
        b = min(bs, key=lambda b: b[0])
        b[0] += fn(j)
        b[1].append(j)
    return [sorted(b[1], key=lambda j: j["id"]) for b in bs if b[1]]


# ------------------------------------------------------------------------------------------ execution


def run_harness_and_tables(chk, jobs, nproc, timeout, tag="run"):
    """the harness evaluates the jobs on the real code (nproc processes); python3-vt generates the bracket tables"""
    lib.build_harness()
    parts = bins(jobs, nproc, cost)
    files = []
    for k, part in enumerate(parts):
        jp, op = chk.path("%s_jobs.%d.ndjson" % (tag, k)), chk.path("%s_out.%d.ndjson" % (tag, k))
        lib.write_ndjson(jp, part)
        files.append((jp, op))
    tab_jobs, tab_out = chk.path("%s_tabjobs.ndjson" % tag), chk.path("%s_tables.ndjson" % tag)
    lib.write_ndjson(tab_jobs, jobs)

    def tables():
        p = subprocess.run(["python3-vt", os.path.join(lib.VERIF, "checks", "c20_tables.py"), tab_jobs, tab_out],
                           stdout=subprocess.PIPE, stderr=subprocess.STDOUT, text=True, timeout=timeout)
        if p.returncode != 0:
            raise lib.ToolError("bracket table generation failed: " + p.stdout[-2000:])

    with concurrent.futures.ThreadPoolExecutor(max_workers=len(files) + 1) as ex:
        ft = ex.submit(tables)
        fs = [ex.submit(lib.harness, ["run", jp, op], timeout, None, None, True, "approx") for jp, op in files]
        for f in fs:
            f.result()
        ft.result()
    recs = []
    for _, op in files:
        recs += lib.read_ndjson(op)
    recs.sort(key=lambda r: r["id"])
    tabs = lib.read_ndjson(tab_out)
    if [r["id"] for r in recs] != [j["id"] for j in jobs] or [t["id"] for t in tabs] != [j["id"] for j in jobs]:
        raise lib.ToolError("harness / table generator returned %d / %d records for %d jobs" % (len(recs), len(tabs), len(jobs)))
    return recs, tabs


def judge(chk, recs, tabs, npieces, nworkers, timeout, tag="run"):
    """TLC (ApproxTrace) judges every record; returns (bad, stats) keyed by record id"""
    by_id = {r["id"]: (r, t) for r, t in zip(recs, tabs)}
    pieces = bins(recs, npieces, tlc_cost)
    files = []
    for k, part in enumerate(pieces):
        tp, bp = chk.path("%s_trace.%d.ndjson" % (tag, k)), chk.path("%s_table.%d.ndjson" % (tag, k))
        lib.write_ndjson(tp, part)
        lib.write_ndjson(bp, [by_id[r["id"]][1] for r in part])
        files.append((tp, bp, len(part)))

    def one(f):
        return lib.tlc("ApproxTrace", "MC_ApproxTrace.cfg", env={"TRACE": f[0], "TABLE": f[1]}, workers=nworkers,
                       timeout=timeout, coverage=False)

    with concurrent.futures.ThreadPoolExecutor(max_workers=len(files)) as ex:
        results = list(ex.map(one, files))
    bad, stats = [], {}
    for (tp, bp, n), res in zip(files, results):
        chk.add_tlc(res, tag)
        if not res.ok:
            raise lib.ToolError("ApproxTrace did not complete: %s" % res.error)
        if res.distinct != 2 * n:
            raise lib.ToolError("TLC judged %d states for %d records" % (res.distinct, n))
        bad += lib.printed_json(res, "BAD")
        for s in lib.printed_json(res, "STAT"):
            stats[s["id"]] = s
    return bad, stats


def cfg_key(j):
    k = "%s %s p=%d" % (j["op"], j.get("st", "i64"), j["p"])
    if j["op"] in ("newton", "isqrt", "gold", "taylor"):
        k += " k=%d" % j["k"]
    if j["op"] in ("sigmoid", "gelu", "pwlsq"):
        k += " lb=%d" % j["lb"]
    if j["op"] == "pwlsq":
        k += " [%d,%d] flat=%d%d" % (j["L"], j["R"], j["fl"], j["fr"])
    if "init" in j:
        k += " init=" + j["init"]
    if "compiled" in j:
        k += " compiled"
    return k


def signature(j, cls):
    if cls in ("cutoff", "compiled_adjacent_bucket"):
        return {"op": j["op"], "class": cls}
    sig = {"op": j["op"], "class": cls, "p": j["p"]}
    for f in ("k", "lb", "st", "init"):
        if f in j and not (f == "lb" and j["op"] == "exp"):
            sig[f] = j[f]
    return sig


def element(rec, tab, idx):
    """the failing element of a record, for the replay file / the samples"""
    if not idx:
        return {}
    i = idx - 1
    nx = rec["xr"][1] if "xr" in rec else len(rec["x"])
    xi = i % nx if rec.get("cart") else i
    e = {"x": rec["xr"][0] + xi if "xr" in rec else rec["x"][xi]}
    if "n" in rec or "nr" in rec:
        ni = i // nx if rec.get("cart") else i
        e["n"] = rec["nr"][0] + ni if "nr" in rec else rec["n"][ni]
    if "w" in rec:
        e["w"] = rec["w"][i]
    for f in ("y", "yc"):
        if rec.get(f) and len(rec[f]) > i:
            e[f] = unlimb(rec[f][i])
    if "lo" in tab:
        e["exact_in"] = [unlimb(tab["lo"][i]), unlimb(tab["lo"][i]) + 1]
    return e


def unlimb(v):
    if isinstance(v, list):
        u = sum(b << (8 * k) for k, b in enumerate(v))
        return u - (1 << 128) if u >> 127 else u
    return v


TOLERANCES = {
    "newton": "1 unit once 2^-(2^k) < 2^-cap (authors' tests: <= 1 at cap 10, 5 iterations); before: 2 units + E * 2^-(2^k) (quadratic convergence from the initial error <= 1/2)",
    "isqrt": "3 units ('a few units'; authors' tests see <= 1 on their points, the dense sweep 2 at x = 4^(cap-2)) + E * e_k, e_k = 1/2, .3125, .1312, .0247, .00091, 1.3e-6 (e' = (3e^2 - e^3)/2)",
    "gold": "2 units + E * 2^-(2^(k-1)) + k * (E / 2^cap + 1) (each iteration truncates the denominator by one unit of 2^-cap); additionally the authors' relation (|y - E| * 100) / E <= 1 for cap >= 10, 5 iterations",
    "fixmul": "|y * 2^p - a * b| < 2^p (exact product rounded to the grid)",
    "sigmoid": "documented interpolation error 0.0163 / 0.0045 / 0.0012 for log_buckets 4 / 5 / 6 (approx_sigmoid.rs) * 2^p, rounded up, + 4 units of table / result rounding (measured <= 2)",
    "gelu": "documented 0.0232 / 0.0059 / 0.0015 for log_buckets 4 / 5 / 6 (approx_gelu.rs) + 0.0005 (tanh form the code tabulates vs GeLU), * 2^p, rounded up, + 4 units (measured <= 2)",
    "exp": "5% of the value (authors' tests) + 4 units (measured <= 2 where the value is a few units)",
    "taylor": "2 units + remainder of the series (1/4, 1/16, 1/64, 1/512 of the value for 2, 3, 4, >= 5 terms) + (|x| / 2^p + 3) / 2^p of the value (1/ln 2 and ln 2 rounded to the grid); additionally the authors' relation 100 |E - y| <= 1 + max(E, y) for precision 10, >= 5 terms, |x| <= 10",
    "pwlsq": "(bucket width)^2 / 4 (chord of x*x) + 5 units",
    "compiled": "newton / isqrt: 4 units (measured 2); gold: k + k * (E / 2^cap + 1); taylor: 2 + (k + 2) * (E / 2^p + 1); fixmul: 1; piecewise-linear: the result must be floor(line / 2^p) + {0, 1} for the line of the segment numbered floor((x - left) / width) or the next one",
}


def run(chk):
    quick = chk.tier == "quick"
    rnd = random.Random(chk.seed + 20)
    jobs = build_jobs(quick, rnd)
    lib.write_ndjson(chk.path("jobs.ndjson"), jobs)

    # ---- design models (TLC) run while the harness evaluates the sweeps
    design = [("newton", {"MINCAP": 2, "MAXCAP": 9 if quick else 12}), ("isqrt", {"MAXCAPSQ": 5 if quick else 8}),
              ("gold", {"MAXCAPG": 6 if quick else 8}), ("pwl", {"MAXCFG": 3 if quick else 6})]

    def design_run(d):
        return d[0], lib.tlc("ApproxAlg", "MC_ApproxAlg_%s.cfg" % d[0], env=d[1], workers=workers(2), timeout=900 if quick else 5000, coverage=False)

    with concurrent.futures.ThreadPoolExecutor(max_workers=5) as ex:
        fd = [ex.submit(design_run, d) for d in design]
        fh = ex.submit(run_harness_and_tables, chk, jobs, 6 if quick else 8, 1200 if quick else 6000)
        recs, tabs = fh.result()
        for f in fd:
            name, res = f.result()
            chk.add_tlc(res, "design_" + name)
            if not res.ok:
                chk.violation({"level": "design", "model": name, "invariant": res.violated},
                              {"counterexamples": lib.printed_json(res, "DESIGN")[:3], "tlc": res.trace[-3000:]})
    chk.note("design", {"newton": "cap 2..%d, every d in (0, 2^(cap-1)), k 0..7, built-in guess and every initial approximation with |1 - d w / 2^cap| <= 1/2" % (9 if quick else 12),
                        "inverse_sqrt": "cap 2..%d, every d in (0, 2^(2cap-1)), k 0..7, built-in guess and every documented initial approximation" % (5 if quick else 8),
                        "goldschmidt": "cap 2..%d, every (n, d), k 1..7, built-in guess and both ends of the judged initial approximations" % (6 if quick else 8),
                        "piecewise_linear": "%d configurations, EVERY word of a 14- or 16-bit two's complement type: bit-level selection = integer selection, containing segment at every boundary / both clamps, floor+{0,1} selection, multiplexer tree, chord bound for x*x, flattened sides" % (3 if quick else 6)})

    # ---- TLC judges every record
    bad, stats = judge(chk, recs, tabs, 4, workers(2), 1500 if quick else 6000)
    chk.traces += len(recs)
    by_id = {r["id"]: (r, t) for r, t in zip(recs, tabs)}
    jobs_by_id = {j["id"]: j for j in jobs}

    pwlsq_adjacent = 0
    for b in bad:
        rec, tab = by_id[b["id"]]
        j = jobs_by_id[b["id"]]
        if j["op"] == "pwlsq" and b["class"] == "compiled_adjacent_bucket":
            pwlsq_adjacent += b["cnt"]          # the generic helper is not one of the property's functions: counted
            continue
        rp = {"jobs_file": chk.path("jobs.ndjson"), "job_id": b["id"], "class": b["class"], "elements_failing": b["cnt"],
              "first_failing_element": element(rec, tab, b["idx"]), "config": cfg_key(j),
              "outcome": {k: rec.get(k) for k in ("out", "msg", "cout", "cmsg") if rec.get(k) is not None}}
        chk.violation(signature(j, b["class"]), rp)
    chk.note("compiled_generic_helper_adjacent_bucket_elements", pwlsq_adjacent)

    # ---- evidence: measured worst deviation and the tolerance at that element, per configuration
    per = {}
    totals = {"elements": 0, "judged": 0, "slow_init_not_judged": 0, "model_mismatches": 0}
    for r in recs:
        s = stats.get(r["id"])
        totals["elements"] += r["len"]
        if s is None:
            continue
        d = per.setdefault(cfg_key(jobs_by_id[r["id"]]), {"elements": 0, "judged": 0, "worst_dev": 0, "tol_there": 0})
        d["elements"] += r["len"]
        d["judged"] += s["judged"]
        totals["judged"] += s["judged"]
        totals["slow_init_not_judged"] += s["slow"]
        totals["model_mismatches"] += s["mm"]
        if s["mm"]:
            d["model_mismatches"] = d.get("model_mismatches", 0) + s["mm"]
        if s["dev"] >= d["worst_dev"] and s["at"]:
            d["worst_dev"], d["tol_there"] = s["dev"], s["tol"]
            d["at"] = element(r, by_id[r["id"]][1], s["at"])
        if "yc" in r and s["cat"]:
            if s["cdev"] >= d.get("compiled_worst_dev", -1):
                d["compiled_worst_dev"] = s["cdev"]
                d["compiled_at"] = element(r, by_id[r["id"]][1], s["cat"])
    chk.note("totals", totals)
    chk.note("tolerances_and_sources", TOLERANCES)
    chk.note("measured_per_configuration (dev = distance to the exact value / its bracket, in grid units)", per)
    worst = {}
    for k, d in per.items():
        op = k.split()[0] + (" compiled" if k.endswith("compiled") else "")
        if d["judged"] and d["worst_dev"] >= worst.get(op, {"worst_dev": -1})["worst_dev"]:
            worst[op] = {"worst_dev": d["worst_dev"], "tol_there": d["tol_there"], "config": k}
    chk.note("measured_worst_per_operation", worst)
    slow = [r for r in recs if r.get("init") == "doc" and r["out"] == "ok"]
    if slow:
        r = slow[0]
        chk.note("documented_initial_approximation_range_not_judged",
                 {"remark": "NewtonInversion / GoldschmidtDivision document 2^(cap-1) <= x*init < 2^(cap+1); above 1.5 * 2^cap the iteration does not converge within the recommended iteration count (observation, nothing judged)",
                  "example": {"cap": r["p"], "iterations": r["k"], "x": r["x"][:4], "init": r["w"][:4], "result": r["y"][:4],
                              "exact": [(1 << r["p"]) // x for x in r["x"][:4]]}})
    chk.exhaustive = True
    for r in recs:
        t = by_id[r["id"]][1]
        if r["out"] == "ok" and r["op"] in ("sigmoid", "isqrt", "exp", "gold", "taylor") and r["len"] > 20 and len(chk.samples) < 6 \
                and not any(s["op"] == r["op"] for s in chk.samples):
            chk.sample({"op": r["op"], "config": cfg_key(r), **element(r, t, r["len"] // 2 + 1)})
    if not chk.samples and recs:
        chk.sample({"op": recs[0]["op"], "config": cfg_key(recs[0]), **element(recs[0], tabs[0], 1)})
    chk.assumptions += [
        "brackets of exp / sigmoid / GeLU: floor of a 256-bit mpmath evaluation with a 2^-180 relative guard (checks/c20_tables.py)",
        "outside the documented domains nothing is claimed; flattened sides of sigmoid / GeLU / exponent are judged up to twice the segment",
        "caller-supplied initial approximations are judged when |1 - x*init/2^cap| <= 1/2 (inverse square root: the documented range)",
        "a difference between the transcribed algorithm (spec/Approx.tla part 2) and the code that stays inside the tolerance is counted (model_mismatches), not reported",
    ]


def replay(path):
    """bin/check C20 --replay <violation file>: re-executes the one failing job against /repo and lets TLC judge it again."""
    d = json.load(open(path))
    rp = d["replay"]
    if "jobs_file" not in rp:
        print("design-level violation: rerun bin/check C20")
        return 2
    jobs = [j for j in lib.read_ndjson(rp["jobs_file"]) if j["id"] == rp["job_id"]]
    if not jobs:
        raise lib.ToolError("job %s not found in %s" % (rp["job_id"], rp["jobs_file"]))
    chk = lib.Check.__new__(lib.Check)
    chk.workdir = os.path.join(lib.WORK, d["property"])
    chk.path = lambda name: os.path.join(chk.workdir, name)
    chk.states = chk.transitions = 0
    chk.cov = {}
    recs, tabs = run_harness_and_tables(chk, jobs, 1, 1200, tag="replay")
    bad, _ = judge(chk, recs, tabs, 1, 1, 1200, tag="replay")
    hit = [b for b in bad if b["class"] == rp["class"]]
    for b in hit:
        print("REPRODUCED:", json.dumps({**b, "first_failing_element": element(recs[0], tabs[0], b["idx"])}))
        print("VIOLATION property=%s replay=%s" % (d["property"], path))
    if not hit:
        print("not reproduced")
    return 1 if hit else 0
