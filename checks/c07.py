"""C07  Inlining preserves Call/Iterate semantics in every mode.

Three TLC models, all bound to the code through `harness/src/bin/inline.rs c07`:
  * spec/PrefixSums.tla   the three prefix-sum algorithms + log_depth_sum transcribed loop by loop over the
                          free monoid, every length; closed forms for the number of combines (PrefixSumsRule)
  * spec/Inliner.tla      call frames / ephemeral bindings (fresh nodes per inlined copy, bindings removed on
                          return, nesting depth 3)
  * spec/InlinerTrace.tla judges the records of the REAL `inline_operations`: evaluator(inlined) =
                          evaluator(original) on all / sampled inputs, the TLA+ fold semantics of Iterate
                          (spec/CCCall.tla) = evaluator(original), CCEval of the exported inlined graph = fold,
                          body-copy / Random / Matmul counts = what the strategy and prefix-sum algorithm
                          selected by the rule must produce (this identifies the strategy that ran).
"""
import json, os
from . import lib

KINDS = ["empty", "assoc_nc", "assoc_nc_eo", "assoc_c", "general",
         "onebit", "onebit_eo", "onebit_b", "onebit_k1",
         "small2", "small2_eo", "small2_b", "small1_k1", "small3", "small4",
         "random", "random_empty", "nested3", "nested3_rnd", "nested_iter"]
MODES = ["Simple", "Default", "Extreme"]
# (default, override_call_mode, override_iterate_mode)
OVERRIDES = [("Noop", "Simple", ""), ("Noop", "", "Default"), ("Simple", "Noop", ""), ("Default", "", "Noop"),
             ("Extreme", "Simple", "Simple"), ("Simple", "", "Extreme"), ("Noop", "Extreme", "Extreme")]
OVERRIDE_KINDS = ["nested3", "nested3_rnd", "nested_iter", "assoc_nc", "small2"]


def lengths(tier):
    if tier == "quick":
        return [0, 1, 2, 3, 4, 5, 15, 16, 17, 31, 32, 33]
    return list(range(0, 41))


def make_cases(tier, seed):
    ls = lengths(tier)
    exh = 8 if tier == "quick" else 10
    samples = 6 if tier == "quick" else 12
    export_nodes = 400 if tier == "quick" else 600
    cases = []

    def add(kind, n, mode, call, it):
        # the 3- and 4-bit strategies build 8x8 / 16x16 transition matrices per item: keep TLC's share small
        en = export_nodes
        cases.append(dict(id=len(cases) + 1, kind=kind, n=n, mode=mode, call=call, iter=it, exh_bits=exh,
                          samples=samples, export_nodes=en, seed=seed + len(cases)))

    for kind in KINDS:
        for n in ls:
            for m in MODES:
                add(kind, n, m, "", "")
    ovl = [0, 1, 2, 3, 16, 17] if tier == "quick" else [0, 1, 2, 3, 5, 8, 15, 16, 17, 31, 32, 40]
    for kind in OVERRIDE_KINDS:
        for n in ovl:
            for (m, c, i) in OVERRIDES:
                add(kind, n, m, c, i)
    return cases


def run(chk):
    tier = chk.tier
    workers = int(os.environ.get("VERIF_WORKERS", "8"))
    # ---- 1. the algorithms and the frame discipline (design models)
    res = lib.tlc("PrefixSums", "MC_PrefixSums_%s.cfg" % tier, workers=4, timeout=900)
    chk.add_tlc(res, "PrefixSums")
    if not res.ok:
        chk.violation({"model": "PrefixSums", "invariant": res.violated}, {"tlc": res.trace[-6000:]})
    chk.note("prefix_sums_states", res.distinct)
    res = lib.tlc("Inliner", "MC_Inliner.cfg", workers=4, timeout=900)
    chk.add_tlc(res, "Inliner")
    if not res.ok:
        chk.violation({"model": "Inliner", "invariant": res.violated}, {"tlc": res.trace[-6000:]})
    chk.note("inliner_states", res.distinct)

    # ---- 2. the code
    cases = make_cases(tier, chk.seed)
    by_id = {c["id"]: c for c in cases}
    batch = 500 if tier == "quick" else 400
    strat = {}
    n_inputs = n_exh = n_exported = n_fail = 0
    status = {}
    for b in range(0, len(cases), batch):
        part = cases[b:b + batch]
        cpath, opath = chk.path("cases_%d.ndjson" % b), chk.path("recs_%d.ndjson" % b)
        lib.write_ndjson(cpath, part)
        lib.harness(["c07", cpath, opath], binary="inline", timeout=3000)
        recs = {}
        with open(opath) as f:
            for line in f:
                r = json.loads(line)
                recs[r["id"]] = r
                status[r["status"]] = status.get(r["status"], 0) + 1
                n_inputs += len(r["inputs"])
                n_exh += 1 if r["exhaustive"] else 0
                n_exported += 1 if r["has_inl"] else 0
        if len(recs) != len(part):
            raise lib.ToolError("harness wrote %d of %d records" % (len(recs), len(part)))
        res = lib.tlc("InlinerTrace", "MC_InlinerTrace.cfg", env={"C07_RECS": opath}, workers=workers,
                      timeout=2400 if tier == "quick" else 6000, extra=["-continue"], coverage=False)
        chk.add_tlc(res, "InlinerTrace")
        chk.traces += len(recs)
        fails = lib.printed_json(res, "FAIL")
        if not res.ok and not fails:
            raise lib.ToolError("InlinerTrace failed without a FAIL record:\n" + res.trace[:3000])
        for s in lib.printed_json(res, "STRAT"):
            strat[s["id"]] = s
        seen = set()
        for fl in fails:
            c = by_id[fl["id"]]
            key = (fl["id"], fl["class"])
            if key in seen:
                continue
            seen.add(key)
            n_fail += 1
            r = recs[fl["id"]]
            q = fl.get("inp", 0)
            replay = {"case": c, "class": fl["class"], "info": fl.get("info"), "harness": "inline c07 <cases> <out>",
                      "status": r["status"], "err": r["err"]}
            if q:
                replay.update(input=r["inputs"][q - 1], original=r["orig_res"][q - 1], inlined=r["inl_res"][q - 1])
            chk.violation({"kind": c["kind"], "n": c["n"], "mode": c["mode"], "call": c["call"], "iter": c["iter"],
                           "class": fl["class"]}, replay)
        if not os.environ.get("VERIF_KEEP"):
            os.remove(opath)

    # ---- 3. evidence
    chk.note("cases", len(cases))
    chk.note("lengths", lengths(tier))
    chk.note("body_kinds", KINDS)
    chk.note("modes", MODES + ["%s/call=%s/iter=%s" % o for o in OVERRIDES])
    chk.note("inline_status", status)
    chk.note("inputs_evaluated", n_inputs)
    chk.note("cases_with_all_inputs", n_exh)
    chk.note("cases_with_inlined_graph_evaluated_by_tlc", n_exported)
    chk.note("failed_judgements", n_fail)
    table = {}
    for s in strat.values():
        if s["strat"] in ("nested",):
            continue
        k = "%s/%s" % (s["strat"], s["alg"])
        e = table.setdefault(k, {"lengths": set(), "identified_by_count": set(), "kinds": set(), "modes": set()})
        e["lengths"].add(s["n"])
        e["kinds"].add(s["kind"])
        e["modes"].add(s["mode"])
        if s["unique"]:
            e["identified_by_count"].add(s["n"])
    chk.note("strategy_exercised", {k: {a: sorted(b) for a, b in v.items()} for k, v in sorted(table.items())})
    for cid in (1, len(cases) // 3, len(cases) // 2):
        if cid in strat:
            chk.sample({"case": by_id[cid], "strategy": strat[cid]})
    chk.assumptions += [
        "bodies declared associative / one-bit / small-state satisfy their stated contracts (the generated bodies do)",
        "inputs are exhaustive up to %d input bits per case and seeded samples above" % (8 if tier == "quick" else 10),
        "bodies with a Random node are judged structurally (one fresh Random node per inlined copy), not by value",
        "the strategy that ran is derived from node counts of the inlined graph (no hook in inline_iterate)",
    ]


def replay(path):
    """Re-executes one recorded violation against /repo (no TLC): prints what the code does now."""
    v = json.load(open(path))
    case = v["replay"].get("case")
    if not case:
        print("design-model violation, re-run: bin/check C07 quick")
        return 2
    work = os.path.join(lib.WORK, "C07")
    os.makedirs(work, exist_ok=True)
    cp, op = os.path.join(work, "replay_case.ndjson"), os.path.join(work, "replay_out.ndjson")
    lib.write_ndjson(cp, [dict(case, export_nodes=0)])
    lib.harness(["c07", cp, op], binary="inline")
    r = lib.read_ndjson(op)[0]
    bad = [i for i in range(len(r["inputs"])) if r["orig_res"][i] != r["inl_res"][i]]
    print(json.dumps({"case": case, "status": r["status"], "err": r["err"], "inputs": len(r["inputs"]),
                      "differing_inputs": [r["inputs"][i] for i in bad[:5]], "hist": r["hist"]}))
    return 1 if (bad or r["status"] != "ok") else 0
