"""C13  Values encode integers faithfully, in bytes and in JSON.

1. TLC on spec/Codec.tla (MC_Codec.cfg) checks the codec laws (reading an encoded integer gives it
   back modulo 2^w, exactly when in range; bit arrays pack eight to a byte without stray bits) on every
   enumerated case and prints the case corpus with the predicted byte layouts and the predicted
   check_type verdicts (B1).
2. `values c13-bytes` executes the corpus against the real Value API (from_scalar, from_flattened_array,
   from_flattened_array_u64, to_u8..to_i128, to_flattened_array_*, check_type, TypedValue::new) and adds
   arrays / raw byte strings chosen by a seeded generator; `valjson` writes TypedValues through serde_json and
   reads them back (B2): every type of the "jt" case family of the corpus (arrays of all 11 scalar types over
   all shapes of rank <= 3 -- square or not -- and rank 4 samples, containers of depth <= 3 over non-square
   arrays) and a seeded random type grammar of depth <= 3; the text is also tokenized by a generic JSON reader.
3. TLC on spec/CodecTrace.tla judges every record (it recomputes all expectations from the inputs): for the
   JSON half the type and the numeric content read back, `==`, and the text itself against Codec!JToks / JNums
   (kinds, type names, names, the row-major nesting of the array shape, every number with its sign).
"""
import json, os, re
from . import lib

_bad_re = re.compile(r'^<<"BAD", (\d+), \{(.*)\}>>$')


def bad_records(res):
    """[(1-based record index, [failing facet names])] printed by a *Trace spec."""
    out = []
    for line in res.printed:
        m = _bad_re.match(line)
        if m:
            out.append((int(m.group(1)), sorted(re.findall(r'"([^"]*)"', m.group(2)))))
    return out


def judge(chk, module, cfg, records, name, signature, replay, workers=4, timeout=1500, label=None):
    """Writes `records` as the trace, lets TLC judge them, turns every rejected record into a violation.
    signature(rec, facets) -> dict, replay(rec, facets) -> JSON-able."""
    path = chk.path(name)
    lib.write_ndjson(path, records)
    res = lib.tlc(module, cfg, env={"TRACE": path}, workers=workers, timeout=timeout)
    chk.add_tlc(res, label or module)
    if not res.ok:
        raise lib.ToolError("%s: unexpected TLC verdict %s\n%s" % (module, res.violated, res.trace[:1500]))
    if res.distinct < len(records):
        raise lib.ToolError("%s judged %d of %d records" % (module, res.distinct, len(records)))
    bad = bad_records(res)
    for idx, facets in bad:
        rec = records[idx - 1]
        chk.violation(signature(rec, facets), replay(rec, facets))
    chk.traces += len(records)
    return res, bad


def _tname(t):
    return {"s": "scalar", "a": "array", "t": "tuple", "v": "vector", "n": "named tuple"}[t["k"]]


def _sig(rec, facets):
    k = rec["kind"]
    s = {"record": k, "facets": facets}
    if k in ("sc", "ar"):
        s["st"] = rec["st"]
        if facets == ["ctor_u64"]:
            # one signature per width: the 64-bit constructor does not depend on signedness
            s["st"] = "w%d" % {"b": 1}.get(rec["st"], int(rec["st"][1:]) if rec["st"] != "b" else 1)
    if k == "ba":
        s["st"] = "b"
        s["len"] = len(rec["bits"])
    if k == "ct":
        s["type"] = json.dumps(rec["t"], sort_keys=True)
        s["layout"] = json.dumps(rec["lay"], sort_keys=True)
    if k == "js":
        s["type_kind"] = _tname(rec["t"])
        s["st"] = rec["t"].get("st", "")
        if rec["t"]["k"] == "a":
            s["rank"] = len(rec["t"]["sh"])
    return s


def _int_of(z):
    m = sum(l << (8 * i) for i, l in enumerate(z["mag"]))
    return -m if z["neg"] else m


def _replay(rec, facets):
    r = {k: v for k, v in rec.items() if k not in ("rd", "rda", "vl", "nums")}
    if rec["kind"] == "sc":
        r["integer"] = str(_int_of(rec["z"]))
        r["how"] = ("Value::from_scalar(%s, %s) / Value::from_flattened_array_u64(&[%s], %s); compare access_bytes with the "
                    "low ceil(w/8) bytes of the two's complement" % (r["integer"], rec["st"], r["integer"], rec["st"]))
    r["failing_facets"] = facets
    return r


def run(chk):
    tier = chk.tier
    # 1. codec laws + corpus
    r1 = lib.tlc("Codec", "MC_Codec.cfg", env={"C13_TIER": tier}, workers=4, timeout=900)
    chk.add_tlc(r1, "Codec")
    if not r1.ok:
        raise lib.ToolError("the codec laws fail inside the specification itself: " + r1.trace[:1500])
    cases = lib.printed_json(r1, "CASE")
    if len(cases) != r1.distinct:
        raise lib.ToolError("corpus incomplete: %d printed, %d states" % (len(cases), r1.distinct))
    lib.write_ndjson(chk.path("cases.ndjson"), [c for c in cases if c["kind"] != "jt"])
    lib.write_ndjson(chk.path("jtcases.ndjson"), [c for c in cases if c["kind"] == "jt"])
    kinds = {}
    for c in cases:
        kinds[c["kind"]] = kinds.get(c["kind"], 0) + 1
    chk.note("corpus_cases", kinds)
    # 2. the real code
    lib.harness(["c13-bytes", chk.path("cases.ndjson"), chk.path("bytes.ndjson"), chk.seed], binary="values")
    lib.harness([chk.path("json.ndjson"), chk.seed, 40 if tier == "quick" else 400, chk.path("jtcases.ndjson")], binary="valjson")
    recs = lib.read_ndjson(chk.path("bytes.ndjson")) + lib.read_ndjson(chk.path("json.ndjson"))
    n_exec = {}
    for r in recs:
        n_exec[r["kind"]] = n_exec.get(r["kind"], 0) + 1
    chk.note("records_from_code", n_exec)
    if n_exec.get("sc", 0) != kinds.get("sc") or n_exec.get("ct", 0) != kinds.get("ct") or n_exec.get("ba", 0) != kinds.get("ba"):
        raise lib.ToolError("harness did not execute the whole corpus")
    jt_done = {json.dumps(r["t"], sort_keys=True) for r in recs if r["kind"] == "js" and r.get("src") == "jt"}
    if jt_done != {json.dumps(c["t"], sort_keys=True) for c in cases if c["kind"] == "jt"}:
        raise lib.ToolError("harness did not execute the whole JSON type family")
    shapes = {tuple(c["t"]["sh"]) for c in cases if c["kind"] == "jt" and c["t"]["k"] == "a"}
    chk.note("json_array_shapes", {"count": len(shapes), "ranks": sorted({len(x) for x in shapes}),
                                   "non_square": len([x for x in shapes if len(set(x)) > 1])})
    # 3. TLC judges
    res, bad = judge(chk, "CodecTrace", "MC_CodecTrace.cfg", recs, "trace.ndjson", _sig, _replay,
                     timeout=1500 if tier == "quick" else 6000)
    chk.note("records_rejected", len(bad))
    chk.note("json_round_trips", n_exec.get("js", 0))
    chk.note("check_type_matrix", kinds.get("ct", 0))
    chk.note("bit_array_lengths", "1..17 x 4 patterns")
    for c in [c for c in cases if c["kind"] == "sc" and c["st"] in ("i16", "u128") and c["def"] and c["neg"]][3:6]:
        chk.sample({"st": c["st"], "integer": str(_int_of({"neg": c["neg"], "mag": c["mag"]})), "predicted_bytes": c["bytes"]})
    for c in [c for c in cases if c["kind"] == "ba" and len(c["bits"]) == 9][:1]:
        chk.sample({"bits": c["bits"], "predicted_bytes": c["bytes"]})
    for r in [r for r in recs if r["kind"] == "js" and r.get("txt") and r.get("src") == "rnd"][5:6]:
        chk.sample({"json": r["txt"], "type": r["t"], "value": r["v"], "equal_after_round_trip": r["eq"]})
    for r in [r for r in recs if r["kind"] == "js" and r.get("txt") and r["t"].get("sh") == [3, 1, 2] and r.get("style") == 4][1:2]:
        chk.sample({"json": r["txt"], "type": r["t"], "tokens": " ".join(r["toks"]), "equal_after_round_trip": r["eq"]})
    chk.note("binding_demonstrated", "trace corruption and a code mutation in a scratch copy (vec_u128_from_bytes: no sign extension for 64-bit types) were rejected by CodecTrace (scalar_readers/array_readers), 2026-09-23")
    chk.exhaustive = False
    chk.assumptions += [
        "TLC cannot parse JSON text: for the JSON half what is decided is that the typed value read back from the "
        "serde_json text has the same type and the same numeric content (compared as trees of decimal strings) and "
        "is `==` to the original, and that the token sequence a generic JSON reader (serde_json::Value, keys sorted) "
        "makes of the text is the one the specification states (Codec!JToks, JNums); white space and key order of "
        "the concrete syntax are not checked",
        "integers handed to the API range over -2^127 .. 2^128-1 (i128 / u128 arguments); all residues for w <= 8, "
        "boundary values for every width",
        "empty vectors are only round-tripped with the element type the deserializer documents (vector(0, tuple()))",
    ]


def replay(path):
    """Re-executes the recorded case against /repo and lets TLC judge it again."""
    v = json.load(open(path))
    rec = v["replay"]
    class _P:                       # (lib.Check would wipe the violations directory)
        @staticmethod
        def path(name):
            return os.path.join(lib.WORK, "C13", name)
    chk = _P
    if rec["kind"] in ("sc", "ba", "ct"):
        case = dict(rec)
        if rec["kind"] == "sc":
            case.update(neg=rec["z"]["neg"], mag=rec["z"]["mag"])
        lib.write_ndjson(chk.path("replay_case.ndjson"), [case])
        lib.harness(["c13-bytes", chk.path("replay_case.ndjson"), chk.path("replay_out.ndjson"), 0], binary="values")
        recs = [r for r in lib.read_ndjson(chk.path("replay_out.ndjson")) if r["kind"] == rec["kind"]][:1]
    else:
        print("replay of harness-generated records: re-run `bin/check C13` with VERIF_SEED of the evidence file")
        return 2
    lib.write_ndjson(chk.path("replay_trace.ndjson"), recs)
    res = lib.tlc("CodecTrace", "MC_CodecTrace.cfg", env={"TRACE": chk.path("replay_trace.ndjson")}, workers=1)
    bad = bad_records(res)
    print("replay:", "still rejected " + str(bad) if bad else "accepted")
    return 1 if bad else 0
