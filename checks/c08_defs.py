"""C08, definition phase: generator of programs over library custom operations (judged by spec/InstSemTrace.tla).

A program is a list of nodes (see harness/src/bin/instsem.rs).  The generator only has to produce programs that are
LIKELY well-typed (it tracks shapes of bit arrays); whether a node is well-typed, which type and which value it has is
decided by the TLA+ definitions (spec/InstSem.tla), never here.

Classes of programs
  bits    inputs bit[rows.., w]; 4-7 operations drawn from the six comparisons (signed / unsigned), Min, Max, Clip2K(k),
          Mux, Not, Or, applied to inputs AND to earlier results (nesting, repeated use of one instantiation);
          EVERY width w of a range (quick 1..20 + 24, 31, 32, 33, 63, 64, 65, 128), every comparison variant forced at every
          width, row shapes with and without broadcasting; operands random / one or two bits apart / equal / boundary;
  table   SortByIntegerKey on named tuples: every ordered pair (key scalar type, other column's scalar type) of
          {b, u8, i8, ..., u64, i64} as a two-column table sorted by EITHER column in one context (two parameterisations
          on one argument type) and re-sorted (nested), plus random tables of 1-4 columns of mixed scalar types and row
          shapes with the key in any position; 1-5 rows, duplicate keys, extreme values;
  mixed   tables whose columns are results of comparisons / Min / Max / Mux of integers (bit key = comparison result,
          integer key = Mux result), sorted, a column taken out again, compared and clipped;
  reject  a few programs the documentation does not admit (signed comparison of 1-bit strings, Clip2K with k = w-1,
          unknown sort key, two-dimensional key) -- the judge accepts a rejection only where the definition is ErrT.
"""
import random

CMPS = ["GreaterThan", "LessThan", "GreaterThanEqualTo", "LessThanEqualTo", "Equal", "NotEqual"]
INT_ST = ["u8", "i8", "u16", "i16", "u32", "i32", "u64", "i64"]
BITS_OF = {"b": 1, "u8": 8, "i8": 8, "u16": 16, "i16": 16, "u32": 32, "i32": 32, "u64": 64, "i64": 64}
DUMMY_T = {"k": "s", "st": "b"}


def arr(st, sh):
    return {"k": "a", "st": st, "sh": list(sh)} if sh else {"k": "s", "st": st}


def node(k, **kw):
    n = {"k": k, "t": DUMMY_T, "ii": 0, "fam": "", "sg": 0, "kk": 0, "key": "", "names": [], "name": "", "args": []}
    n.update(kw)
    return n


def bcast(sa, sb):
    r = max(len(sa), len(sb))
    ea, eb = [1] * (r - len(sa)) + list(sa), [1] * (r - len(sb)) + list(sb)
    out = []
    for p, q in zip(ea, eb):
        if p != q and p != 1 and q != 1:
            return None
        out.append(max(p, q))
    return out


def prod(sh):
    n = 1
    for d in sh:
        n *= d
    return n


class Prog:
    def __init__(self, cls):
        self.cls, self.nodes, self.shapes, self.in_types = cls, [], [], []   # shapes: bit shape of node (None: not a bit array)

    def inp(self, t):
        self.in_types.append(t)
        self.nodes.append(node("in", t=t, ii=len(self.in_types)))
        self.shapes.append(list(t.get("sh", [])) if t["k"] in "as" and t["st"] == "b" else None)
        return len(self.nodes)

    def op(self, fam, args, shape=None, **kw):
        self.nodes.append(node("op", fam=fam, args=list(args), **kw))
        self.shapes.append(shape)
        return len(self.nodes)

    def nt(self, names, args):
        self.nodes.append(node("nt", names=list(names), args=list(args)))
        self.shapes.append(None)
        return len(self.nodes)

    def get(self, name, arg, shape=None):
        self.nodes.append(node("get", name=name, args=[arg]))
        self.shapes.append(shape)
        return len(self.nodes)


# ------------------------------------------------------------------------------------------------ values

def bit_rows(rng, w, n, like=None):
    """n bit strings of width w (flat, LSB first); `like`: rows to stay close to (adjacent / equal operands)."""
    out = []
    for i in range(n):
        mode = rng.choice(["rand", "near", "near", "equal", "edge"] if like else ["rand", "rand", "edge"])
        if mode == "rand":
            row = [rng.getrandbits(1) for _ in range(w)]
        elif mode == "edge":
            row = rng.choice([[0] * w, [1] * w, [0] * (w - 1) + [1], [1] * (w - 1) + [0], [1] + [0] * (w - 1)])
        else:
            row = list(like[i % len(like)])
            if mode == "near":
                for _ in range(rng.randint(1, 2)):
                    j = rng.randrange(w)
                    row[j] ^= 1
        out.append(row)
    return out


def int_pool(rng, st):
    b = BITS_OF[st]
    m = 1 << b
    return [0, 1, 2, m - 1, m // 2, m // 2 - 1, m // 2 + 1, rng.getrandbits(b), rng.getrandbits(b)]


def column_values(rng, t, few):
    """flat values of an array type: bits as ints, integers as decimal strings (residues); `few`: draw from 2-4 values."""
    n = prod(t.get("sh", []))
    if t["st"] == "b":
        return [rng.getrandbits(1) for _ in range(n)]
    pool = int_pool(rng, t["st"])
    if few:
        pool = rng.sample(pool, rng.randint(2, 4))
    return [str(rng.choice(pool)) for _ in range(n)]


# ------------------------------------------------------------------------------------------------ bit programs

ROW_SHAPES = [([], []), ([2], [2]), ([3], [1]), ([], [3]), ([2, 2], [2]), ([2, 1], [1, 3]), ([1], [4]), ([2, 1, 2], [2]),
              ([3], [3]), ([2, 3], [2, 3])]


def forced_variants(w):
    v = [(f, s) for f in CMPS[:4] for s in (0, 1)] + [("Equal", 0), ("NotEqual", 0)] + [(f, s) for f in ("Min", "Max") for s in (0, 1)]
    return [(f, s) for f, s in v if not (s == 1 and w < 2)]


def bits_program(rng, w, forced, n_ops):
    p = Prog("bits")
    ra, rb = rng.choice(ROW_SHAPES)
    if rng.random() < 0.5:
        ra, rb = rb, ra
    x, y, z = p.inp(arr("b", ra + [w])), p.inp(arr("b", rb + [w])), p.inp(arr("b", ra + [w]))
    todo = list(forced)
    for _ in range(n_ops):
        strings = [i + 1 for i, s in enumerate(p.shapes) if s and s[-1] == w]      # arrays of w-bit strings
        anyb = [i + 1 for i, s in enumerate(p.shapes) if s is not None]
        if todo:
            fam, sg = todo.pop(0)
        else:
            fam = rng.choice(CMPS * 2 + ["Min", "Max", "Min", "Max", "Clip2K", "Clip2K", "Mux", "Not", "Or"])
            sg = rng.randint(0, 1) if w >= 2 else 0
        for _try in range(8):
            if fam in CMPS or fam in ("Min", "Max"):
                a, b = rng.choice(strings), rng.choice(strings)
                so = bcast(p.shapes[a - 1][:-1], p.shapes[b - 1][:-1])
                if so is None:
                    continue
                p.op(fam, [a, b], shape=so if fam in CMPS else so + [w], sg=sg)
            elif fam == "Clip2K":
                if w < 2:
                    break
                a = rng.choice(strings)
                p.op(fam, [a], shape=p.shapes[a - 1], kk=rng.randint(0, w - 2))
            elif fam == "Not":
                a = rng.choice(anyb)
                p.op(fam, [a], shape=p.shapes[a - 1])
            elif fam == "Or":
                a, b = rng.choice(anyb), rng.choice(anyb)
                so = bcast(p.shapes[a - 1], p.shapes[b - 1])
                if so is None:
                    continue
                p.op(fam, [a, b], shape=so)
            else:  # Mux
                f, a, b = rng.choice(anyb), rng.choice(anyb), rng.choice(anyb)
                s1 = bcast(p.shapes[f - 1], p.shapes[a - 1])
                so = bcast(s1, p.shapes[b - 1]) if s1 is not None else None
                if so is None:
                    continue
                p.op(fam, [f, a, b], shape=so)
            break
    return p, (x, y, z)


def bits_inputs(rng, p, w, samples):
    out = []
    for _ in range(samples):
        rows = [prod(t.get("sh", [w])[:-1]) for t in p.in_types]
        xs = bit_rows(rng, w, rows[0])
        ys = bit_rows(rng, w, rows[1], like=xs)
        zs = bit_rows(rng, w, rows[2], like=rng.choice([xs, ys]))
        out.append([sum(v, []) for v in (xs, ys, zs)])
    return out


# ------------------------------------------------------------------------------------------------ tables

NAMES = ["a", "b", "c", "d"]


def table_type(cols):
    return {"k": "n", "nm": [c[0] for c in cols], "el": [c[1] for c in cols]}


def table_values(rng, cols, keys):
    return [column_values(rng, t, few=(nm in keys)) for nm, t in cols]


def table_program(rng, cols, keys, n_sorts):
    """cols: [(name, array type)], keys: names of one-dimensional columns to sort by."""
    p = Prog("table")
    t = p.inp(table_type(cols))
    sorted_nodes = []
    for k in keys:
        sorted_nodes.append(p.op("SortByIntegerKey", [t], key=k))
    for _ in range(n_sorts):                      # nested: a sorted table sorted again, by the same or another key
        sorted_nodes.append(p.op("SortByIntegerKey", [rng.choice(sorted_nodes)], key=rng.choice(keys)))
    p.get(rng.choice(keys), sorted_nodes[-1])
    return p


def pair_tables(rng, sts):
    """every ordered pair of scalar types as a two-column table, sorted by either column"""
    for ka in sts:
        for kb in sts:
            n = rng.randint(2, 5)
            cols = [("a", arr(ka, [n])), ("b", arr(kb, [n]))]
            yield cols, ["a", "b"]


def random_table(rng):
    n = rng.randint(1, 5)
    ncol = rng.randint(1, 4)
    cols, keys = [], []
    for j in range(ncol):
        st = rng.choice(["b"] + INT_ST)
        rs = rng.choice([[], [], [], [2], [2, 2], [1]])
        cols.append((NAMES[j], arr(st, [n] + rs)))
        if not rs:
            keys.append(NAMES[j])
    if not keys:
        j = rng.randrange(ncol)
        cols[j] = (NAMES[j], arr(cols[j][1]["st"], [n]))
        keys = [NAMES[j]]
    rng.shuffle(keys)
    return cols, keys[:2]


def mixed_program(rng, w, n):
    p = Prog("mixed")
    x, y = p.inp(arr("b", [n, w])), p.inp(arr("b", [n, w]))
    vst = rng.choice(INT_ST)
    v, v2 = p.inp(arr(vst, [n])), p.inp(arr(vst, rng.choice([[n], [1], []])))
    sg = rng.randint(0, 1) if w >= 2 else 0
    g = p.op(rng.choice(CMPS), [x, y], shape=[n], sg=sg)
    m = p.op(rng.choice(["Min", "Max"]), [x, y], shape=[n, w], sg=sg)
    u = p.op("Mux", [g, v, v2])                                      # integer choices selected by a comparison result
    order = [("k", g), ("m", m), ("v", v), ("u", u)]
    rng.shuffle(order)
    t = p.nt([c[0] for c in order], [c[1] for c in order])
    s1 = p.op("SortByIntegerKey", [t], key="k")
    s2 = p.op("SortByIntegerKey", [t], key=rng.choice(["v", "u"]))
    c = p.get("m", rng.choice([s1, s2]), shape=[n, w])
    p.op(rng.choice(CMPS), [c, x], shape=[n], sg=sg)
    if w >= 2:
        p.op("Clip2K", [c], shape=[n, w], kk=rng.randint(0, w - 2))
    return p, vst


def mixed_inputs(rng, p, w, n, vst, samples):
    out = []
    for _ in range(samples):
        xs = bit_rows(rng, w, n)
        ys = bit_rows(rng, w, n, like=xs)
        out.append([sum(xs, []), sum(ys, []), column_values(rng, arr(vst, [n]), few=True),
                    column_values(rng, p.in_types[3], few=True)])
    return out


def reject_programs():
    out = []
    p = Prog("reject")
    a, b = p.inp(arr("b", [2, 1])), p.inp(arr("b", [2, 1]))
    p.op("GreaterThan", [a, b], sg=1)                                # signed comparison needs two bits
    out.append((p, [[[0, 1], [1, 1]]]))
    for w in (2, 5):
        p = Prog("reject")
        a = p.inp(arr("b", [w]))
        p.op("Clip2K", [a], kk=w - 1)                                # k <= w - 2
        out.append((p, [[[1] * w]]))
    p = Prog("reject")
    a, b = p.inp(arr("b", [2, 4])), p.inp(arr("b", [2, 5]))
    p.op("Min", [a, b])                                              # different string lengths
    out.append((p, [[[0] * 8, [1] * 10]]))
    p = Prog("reject")
    t = p.inp(table_type([("a", arr("u8", [3])), ("b", arr("i16", [3, 2]))]))
    p.op("SortByIntegerKey", [t], key="zz")                          # no such column
    out.append((p, [[[["1", "2", "3"], ["1"] * 6]]]))
    p = Prog("reject")
    t = p.inp(table_type([("a", arr("u8", [3])), ("b", arr("i16", [3, 2]))]))
    p.op("SortByIntegerKey", [t], key="b")                           # key column must be one-dimensional
    out.append((p, [[[["1", "2", "3"], ["1"] * 6]]]))
    return out


# ------------------------------------------------------------------------------------------------ all cases

def cases(seed, tier):
    rng = random.Random(seed * 7919 + 8)
    quick = tier == "quick"
    out = []

    def add(p, inputs):
        out.append({"id": len(out) + 1, "cls": p.cls, "wrap": "call" if len(out) % 3 == 2 else "flat",
                    "nodes": p.nodes, "inputs": inputs})

    widths = list(range(1, 21)) + [24, 31, 32, 33, 63, 64, 65, 128] if quick else list(range(1, 49)) + [63, 64, 65, 100, 127, 128]
    per_w = 5 if quick else 12
    samples = 3 if quick else 5
    for w in widths:
        fv = forced_variants(w)
        rng.shuffle(fv)
        for k in range(per_w):
            forced = fv[k * 3:(k + 1) * 3]           # 14 variants over the first 5 programs of each width
            p, _ = bits_program(rng, w, forced, n_ops=rng.randint(4, 7))
            add(p, bits_inputs(rng, p, w, samples))
    sts = ["b"] + INT_ST
    for rep in range(1 if quick else 3):
        for cols, keys in pair_tables(rng, sts):
            p = table_program(rng, cols, keys, n_sorts=1)
            add(p, [[table_values(rng, cols, keys)] for _ in range(samples)])
    for _ in range(80 if quick else 500):
        cols, keys = random_table(rng)
        p = table_program(rng, cols, keys, n_sorts=rng.randint(0, 2))
        add(p, [[table_values(rng, cols, keys)] for _ in range(samples)])
    for _ in range(40 if quick else 300):
        w, n = rng.choice([1, 2, 3, 4, 5, 6, 7, 8, 11, 13, 16, 32]), rng.randint(2, 4)
        p, vst = mixed_program(rng, w, n)
        add(p, mixed_inputs(rng, p, w, n, vst, samples))
    for p, inputs in reject_programs():
        add(p, inputs)
    return out
