"""Shared helpers of the C16-C19 checks (harness binary `bitrel`, specs BitOps*/Rel*)."""
import json, random
from . import lib


def workers(n):
    """number of TLC workers; VERIF_MAX_WORKERS caps it (shared machines)"""
    import os
    return max(1, min(n, int(os.environ.get("VERIF_MAX_WORKERS", n))))


def boundary(w):
    """Boundary bit patterns of width w (as unsigned ints): 0, 1, all-ones, alternating, signed min/max and neighbours."""
    m = (1 << w) - 1
    alt = sum(1 << i for i in range(0, w, 2))
    vs = [0, 1, 2, m, m - 1, alt & m, (alt << 1) & m, 1 << (w - 1), (1 << (w - 1)) - 1, (1 << (w - 1)) + 1,
          (1 << (w - 1)) - 2, 1 << (w // 2), (1 << (w // 2)) - 1]
    out = []
    for v in vs:
        v &= m
        if v not in out:
            out.append(v)
    return out


def operand_pairs(w, rnd, nrand=60, onebit=True):
    """boundary^2 + equal / adjacent pairs + pairs differing in exactly one bit + random pairs."""
    m = (1 << w) - 1
    bs = boundary(w)
    pairs = [(a, b) for a in bs for b in bs]
    for _ in range(nrand):
        x = rnd.getrandbits(w)
        pairs += [(x, rnd.getrandbits(w)), (x, x), (x, (x + 1) & m), ((x + 1) & m, x)]
    if onebit:
        for i in range(w):
            x = rnd.getrandbits(w)
            pairs += [(x, x ^ (1 << i)), (x ^ (1 << i), x)]
    return pairs


def s(v):
    """numbers travel to the harness as decimal strings (128-bit safe)"""
    return str(v)


def run_ops(chk, jobs, tag, workers=4, timeout=1500):
    """harness executes the jobs on the real custom operations, TLC (BitOpsTrace) judges every record.
    Returns (records, bad) where bad = list of (record, verdict)."""
    jp, op = chk.path("jobs_%s.ndjson" % tag), chk.path("trace_%s.ndjson" % tag)
    lib.write_ndjson(jp, jobs)
    lib.harness(["ops", jp, op], binary="bitrel", timeout=timeout)
    recs = lib.read_ndjson(op)
    if len(recs) != len(jobs):
        raise lib.ToolError("harness returned %d records for %d jobs" % (len(recs), len(jobs)))
    res = lib.tlc("BitOpsTrace", "MC_BitOpsTrace.cfg", env={"TRACE": op}, workers=workers, timeout=timeout, coverage=False)
    chk.add_tlc(res, tag)
    if not res.ok:
        raise lib.ToolError("BitOpsTrace did not complete: %s" % res.error)
    if res.distinct != 2 * len(recs):
        raise lib.ToolError("TLC judged %d states for %d records" % (res.distinct, len(recs)))
    chk.traces += len(recs)
    by_id = {r["id"]: r for r in recs}
    bad = [(by_id[v["id"]], v) for v in lib.printed_json(res, "BAD")]
    return recs, bad


def n_elems(rec):
    n = 1
    for d in rec.get("so", []):
        n *= d
    return n if rec.get("out") == "ok" else 0


def small(rec, idx):
    """the failing element of a batch, for the replay file"""
    out = {k: rec.get(k) for k in ("id", "op", "sg", "w", "wb", "k", "st", "sa", "sb", "sf", "s1", "s0", "so", "out", "msg", "enc")}
    if idx and rec.get("out") == "ok":
        i = idx - 1
        for f in ("r", "r2"):
            if isinstance(rec.get(f), list) and len(rec[f]) > i:
                out[f + "_at"] = rec[f][i]
        same = all(rec.get(x) == rec.get("so") for x in ("sa", "sb") if rec.get(x) is not None and rec.get("op") != "clip")
        if rec.get("op") != "mux" and same:
            out["a_at"] = rec["a"][i]
            if rec.get("b"):
                out["b_at"] = rec["b"][i]
        if rec.get("op") == "mux" and rec.get("sf") == rec.get("s1") == rec.get("s0"):
            out.update(f_at=rec["f"][i], x1_at=rec["x1"][i], x0_at=rec["x0"][i])
    return out


def run_rel(chk, jobs, tag, workers=4, timeout=1500):
    """harness executes the jobs (sort / isort / perm / join / claims), TLC (RelTrace) judges every record."""
    jp, op = chk.path("jobs_%s.ndjson" % tag), chk.path("trace_%s.ndjson" % tag)
    lib.write_ndjson(jp, jobs)
    # the harness is single-threaded: run contiguous chunks of the job list in parallel processes
    nproc = 6 if len(jobs) > 2000 else 1
    if nproc == 1:
        lib.harness(["rel", jp, op], binary="bitrel", timeout=timeout)
        recs = lib.read_ndjson(op)
    else:
        import concurrent.futures
        lib.build_harness()
        plain = [j for j in jobs if j.get("compiled") is None]
        comp = [j for j in jobs if j.get("compiled") is not None]
        size = (len(plain) + nproc - 1) // nproc
        parts = []
        for k in range(nproc):
            pj, po = chk.path("jobs_%s.part%d.ndjson" % (tag, k)), chk.path("trace_%s.part%d.ndjson" % (tag, k))
            # compiled joins are expensive: all seeds of one table pair stay in one process (it compiles once)
            lib.write_ndjson(pj, plain[k * size:(k + 1) * size] + [j for j in comp if (j["compiled"] // 1000) % nproc == k])
            parts.append((pj, po))
        with concurrent.futures.ThreadPoolExecutor(max_workers=nproc) as ex:
            list(ex.map(lambda a: lib.harness(["rel", a[0], a[1]], binary="bitrel", timeout=timeout), parts))
        recs = []
        for pj, po in parts:
            recs += lib.read_ndjson(po)
        lib.write_ndjson(op, recs)
    if len(recs) != len(jobs):
        raise lib.ToolError("harness returned %d records for %d jobs" % (len(recs), len(jobs)))
    res = lib.tlc("RelTrace", "MC_RelTrace.cfg", env={"TRACE": op}, workers=workers, timeout=timeout, coverage=False)
    chk.add_tlc(res, tag)
    if not res.ok:
        raise lib.ToolError("RelTrace did not complete: %s" % res.error)
    if res.distinct != 2 * len(recs):
        raise lib.ToolError("TLC judged %d states for %d records" % (res.distinct, len(recs)))
    chk.traces += sum(1 for r in recs if r["kind"] != "claims")
    by_id = {r["id"]: r for r in recs}
    bad = [(by_id[v["id"]], v) for v in lib.printed_json(res, "BAD")]
    return recs, bad


def replay(path):
    """bin/check <ID> --replay <violation file>: re-executes the one failing job against /repo and lets TLC judge it again."""
    import os
    d = json.load(open(path))
    rp = d["replay"]
    jobs = [j for j in lib.read_ndjson(rp["jobs_file"]) if j["id"] == rp["job_id"]]
    if not jobs:
        raise lib.ToolError("job %s not found in %s" % (rp["job_id"], rp["jobs_file"]))
    wd = os.path.join(lib.WORK, d["property"])
    jp, op = os.path.join(wd, "replay_job.ndjson"), os.path.join(wd, "replay_trace.ndjson")
    lib.write_ndjson(jp, jobs)
    lib.harness([rp["cmd"], jp, op], binary="bitrel")
    spec = "BitOpsTrace" if rp["cmd"] == "ops" else "RelTrace"
    res = lib.tlc(spec, "MC_%s.cfg" % spec, env={"TRACE": op}, workers=1, coverage=False)
    bad = lib.printed_json(res, "BAD")
    for b in bad:
        print("REPRODUCED:", json.dumps(b))
        print("VIOLATION property=%s replay=%s" % (d["property"], path))
    if not bad:
        print("not reproduced")
    return 1 if bad else 0
