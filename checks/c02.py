"""C02  Each party can run the protocol from its own data and the messages it receives.

Decided by TLC on spec/ABY3Run.tla in mode "three" over compiled graphs exported from the real
compile_context (binding B3/B4): every input, every junk value a party actually needs, every tape.
"""
import json
from . import lib, progs, mpc_common as mc

EXH_BITS = {"quick": 12, "thorough": 18}          # per program: log2(#inputs x #tapes) explored exhaustively
EXH_TOTAL = {"quick": 400000, "thorough": 3000000}  # per TLC run: sum of runs over the programs of the batch


def run(chk, mode="three"):
    tier = chk.tier
    per_prog = 7 if tier == "quick" else 10
    jobs = progs.jobs(tier, chk.seed, per_prog=per_prog)
    # specification -> implementation: programs enumerated by TLC from the specification's typing relation
    # (spec/ProgGen.tla: every bit-typed program of <= 4 nodes over Add/Subtract/Multiply/Sum/Zeros/Ones), a seeded sample
    # of them with owner / output / inlining configurations
    import random
    from . import proggen
    gen = proggen.enumerate_programs(chk, "bit", 4)
    grng = random.Random(chk.seed + 4242)
    jid = max(j["id"] for j in jobs)
    for name, pr, _tys in grng.sample(gen, min(len(gen), 120 if tier == "quick" else 800)):
        nin = sum(1 for nd_ in pr["graphs"][0]["nodes"] if nd_["op"] == "Input")
        for ow, outs, md in grng.sample(progs.configs(nin, "quick", grng, 7), 2 if tier == "quick" else 3):
            jid += 1
            jobs.append({"id": jid, "name": name, "cls": "bit", "prog": pr, "owners": ow, "outs": outs, "mode": md})
    chk.note("programs_enumerated_from_the_specification", len(gen))
    recs, failed = mc.compile_jobs(chk, jobs)
    chk.note("programs_compiled", len(recs))
    chk.note("compile_failures", failed[:20])
    chk.traces += len(recs)
    if not recs:
        raise lib.ToolError("nothing compiled")
    recs, illtyped = mc.typecheck(chk, recs)
    for b, detail in illtyped:
        chk.violation(dict(mc.describe(b), invariant="WellTyped"),
                      {"job": {k: b[k] for k in ("id", "name", "owners", "outs", "mode")}, "what": "a node of the exported graph records a type that differs from the type of its operation", "tlc": detail})
    plan = []  # (ring, exhaustive?, recs)
    exh = {1: [], 2: []}
    sim = {1: [], 2: [], 8: []}
    budget = {1: EXH_TOTAL[tier], 2: EXH_TOTAL[tier]}
    for r in sorted(recs, key=lambda r: sum(mc.tape_bits(r, 1))):
        if r["cls"] == "x8":
            sim[8].append(r)
            continue
        rings = [1] if r["cls"] == "bit" else [1, 2]
        for ring in rings:
            tb, ib = mc.tape_bits(r, ring)
            runs = 2 ** (tb + ib)
            if tb + ib <= EXH_BITS[tier] and runs <= budget[ring]:
                budget[ring] -= runs
                exh[ring].append(r)
            else:
                sim[ring].append(r)
    nsim = 25 if tier == "quick" else 40      # sampled runs per program where exhaustive exploration does not fit
    runs = [(ring, False, exh[ring]) for ring in (1, 2)] + [(ring, True, sim[ring]) for ring in (1, 2, 8)]
    for ring, is_sim, rs in runs:
        rs = list(rs)
        rounds = 0
        while rs and rounds < 6:
            rounds += 1
            tag = "%s_r%d_%s" % (mode, ring, "sim" if is_sim else "exh")
            ok, res, bad = mc.run_aby3(chk, rs, mode, ring, tag, sample_runs=nsim if is_sim else None,
                                       timeout=1500 if tier == "quick" else 10000)
            chk.count("graphs_%s_ring%d" % ("simulated" if is_sim else "exhaustive", ring), len(rs) if rounds == 1 else 0)
            if ok:
                break
            if bad is None:
                raise lib.ToolError("violation without program index:\n" + res.trace[:2000])
            sig = dict(mc.describe(bad), ring=ring, invariant=res.violated)
            chk.violation(sig, {"job": {k: bad[k] for k in ("id", "name", "owners", "outs", "mode")},
                                "x": mc.last_state(res.trace, "x"), "oracle": mc.last_state(res.trace, "orc"),
                                "tlc": res.trace[-6000:], "mode": mode, "ring": ring})
            rs = [r for r in rs if r is not bad]
    # --- programs ending in Truncate (the result is not a function of the inputs): the outcome condition of C05 plus
    # agreement of the output parties / of the two holders of every share (C02Trunc), on one store C01Trunc
    from . import c05
    tj, _ = c05.jobs(tier)
    keep = []
    for j in tj:
        if j.get("pair"):
            continue
        # every scale once per (type, owner/output configuration); quick: scales 4 and 5 only
        if tier == "quick" and not any(("_%d_" % sc) in j["name"] for sc in (4, 5, 32)):
            continue
        keep.append(j)
    # output configurations that C05's own list does not contain: revealed to party 0, to party 2, to all
    extra, jid = [], 10000
    for st, scale in (("i8", 4), ("u8", 8), ("i8", 5)):
        for ow, outs, md in (([1], [0], "Simple"), ([0], [2], "Default"), ([2], [1, 0], "Simple"), ([1], [0, 1, 2], "Extreme")):
            jid += 1
            extra.append({"id": jid, "name": "trunc_%s_%d_s" % (st, scale), "cls": "x8",
                          "prog": progs.prog([progs.inp(progs.S(st)), progs.nd("Truncate", [1], scale_s=str(scale))]),
                          "owners": ow, "outs": outs, "mode": md})
    trecs, tfailed = mc.compile_jobs(chk, keep + extra, tag="truncjobs")
    trecs, till = mc.typecheck(chk, trecs, tag="trunctypes")
    chk.count("truncate_programs", len(trecs))
    rs = list(trecs)
    rounds = 0
    tinv = "C02Trunc" if mode == "three" else "C01Trunc"
    while rs and rounds < 6:
        rounds += 1
        ok, res, bad = mc.run_aby3(chk, rs, mode, 8, "trunc_%s" % mode, sample_runs=12 if tier == "quick" else 200, invariant=tinv,
                                   timeout=1500 if tier == "quick" else 10000)
        if ok:
            break
        if bad is None:
            raise lib.ToolError("violation without program index:\n" + res.trace[:2000])
        sig = dict(mc.describe(bad), ring=8, invariant=res.violated)
        chk.violation(sig, {"job": {k: bad[k] for k in ("id", "name", "owners", "outs", "mode")},
                            "x": mc.last_state(res.trace, "x"), "oracle": mc.last_state(res.trace, "orc"),
                            "tlc": res.trace[-6000:], "mode": mode, "ring": 8})
        rs = [r for r in rs if r is not bad]
    # --- real widths, real evaluator: the compiled graph executed by the harness as three separate parties (C02) and on
    # one store (C01); TLC (spec/Run3Trace.tla) judges the final condition of every run. Covers the protocols the TLA+
    # interpreter cannot run: conversions at 32-128 bits, comparisons / min / max, sort, permutations, joins.
    from . import wide3
    js, wrecs, bad3, bad1, wfailed, byid = wide3.run(chk)
    chk.traces += len(wrecs)
    chk.note("wide_runs", len(wrecs))
    chk.note("wide_programs", sorted({j["name"] for j in js}))
    chk.note("wide_rejected_by_compiler", wfailed[:10])
    for r in (bad3 if mode == "three" else bad1):
        job = byid[r["id"]]
        sig = {"phase": "wide", "family": job["family"], "program": r["name"], "owners": r["owners"]}
        if job["family"] == "join":
            sig["join"] = r["name"].split("_")[1]
            sig["first_table"] = "pub" if r["owners"][0] == "pub" else "private"
        if job["family"] == "perm":
            sig["permutation_owner"] = "party" if r["owners"][1] in ("0", "1", "2") else r["owners"][1]
        chk.violation(sig, {"job": {k: job[k] for k in ("id", "name", "owners", "outs", "mode", "inputs")}, "seed": r["seed"], "junk": r["junk"],
                            "expected": r["expected"], "out": r["out"] if mode == "three" else r["single"], "ok": r["ok"],
                            "how": "cc-conform run3 <job> <out>; spec/Run3Trace.tla"})
    for r in recs[:4]:
        chk.sample(dict(mc.describe(r), mpc_nodes=len(r["mpc"]), prf_nodes=sum(1 for n in r["mpc"] if n["op"] == "PRF"),
                        sends=sum(len(n["sends"]) for n in r["mpc"])))
    chk.assumptions += [
        "three-party runtime semantics as defined in spec/ABY3Run.tla (the repository ships no runtime)",
        "integer types wider than the model ring are checked in the homomorphic images Z_2 and Z_4",
        "PRF idealised as a random function of (key, counter, type)",
    ]
