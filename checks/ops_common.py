"""Shared steps of C09 / C10 (primitive operations): TLC enumerates cases (spec/OpsCases.tla), the harness
binary `ops` replays them against the real add_node / SimpleEvaluator, TLC judges every record (spec/OpsTrace.tla)."""
import glob, json, os, re
from . import lib

_bad_re = re.compile(r'^<<"BAD", "([^"]+)">>')
_fam_re = re.compile(r'^<<"FAMILY", "(\w+)", (\d+), (\d+)>>')


def enumerate_cases(chk, cfg, prefix, timeout=900):
    """Run OpsCases with the given cfg; returns (list of case files, {op: (cases, accepted)}, TlcResult)."""
    for f in glob.glob(prefix + "*.ndjson"):
        os.remove(f)
    res = lib.tlc("OpsCases", cfg, env={"OUT": prefix}, workers=4, seed=chk.seed % 100000, timeout=timeout, coverage=False)
    if not res.ok:
        # the invariant of OpsCases is the spec-level soundness theorem OpType # Err => HasType(OpEval, OpType)
        raise lib.ToolError("specification-level soundness theorem failed in OpsCases (spec defect): " + res.trace[:1500]
                            + "\n".join(l for l in res.printed if "UNSOUND" in l)[:3000])
    fams = {}
    for line in res.printed:
        m = _fam_re.match(line)
        if m:
            fams[m.group(1)] = (int(m.group(2)), int(m.group(3)))
    files = sorted(glob.glob(prefix + "*.ndjson"))
    if not files or not fams:
        raise lib.ToolError("OpsCases produced no cases")
    chk.add_tlc(res, "cases")
    return files, fams, res


def judge(chk, trace, label, timeout=2400):
    """Run OpsTrace on an ndjson file of harness records; returns (set of ids TLC rejected, TlcResult)."""
    res = lib.tlc("OpsTrace", "MC_OpsTrace.cfg", env={"TRACE": trace}, workers=4, timeout=timeout, coverage=False)
    if not res.ok:
        raise lib.ToolError("OpsTrace did not finish: " + str(res.error))
    n = sum(1 for _ in open(trace))
    if res.distinct != max(n, 8):   # one state per record (8 lanes start even when there are fewer records)
        raise lib.ToolError("OpsTrace judged %d of %d records" % (res.distinct, n))
    bad = set()
    for line in res.printed:
        m = _bad_re.match(line)
        if m:
            bad.add(m.group(1))
    chk.add_tlc(res, label)
    return bad, res


class Stub:
    """stands in for lib.Check during --replay (creating a Check would wipe the violations directory)"""
    seed = 1

    def add_tlc(self, res, label=None):
        pass


def first_st(types):
    """scalar type of the first scalar/array leaf of a list of type JSONs"""
    def walk(t):
        if t["k"] in ("s", "a"):
            return t["st"]
        if t["k"] == "v":
            return walk(t["of"])
        for e in t.get("el", []):
            s = walk(e)
            if s:
                return s
        return None
    for t in types:
        s = walk(t)
        if s:
            return s
    return None


def flat_ints(x):
    if isinstance(x, list):
        for y in x:
            yield from flat_ints(y)
    else:
        yield int(x)


def eval_parallel(chk, out, seed, sets, files, nproc=8, timeout=6000):
    """`ops eval` on the case files, split over parallel harness processes (the cases are independent); the outputs are
    concatenated into `out`.  Returns the concatenated stderr."""
    import subprocess
    lib.build_harness()
    exe = os.path.join(lib.HARNESS, "target", "release", "ops")
    # biggest files first, round-robin
    fs = sorted(files, key=lambda f: -os.path.getsize(f))
    groups = [fs[i::nproc] for i in range(nproc)]
    procs = []
    for i, g in enumerate(groups):
        if not g:
            continue
        po = "%s.part%d" % (out, i)
        procs.append((subprocess.Popen([exe, "eval", po, str(seed), str(sets)] + g, stdout=subprocess.PIPE, stderr=subprocess.PIPE, text=True), po))
    errs = []
    with open(out, "w") as fo:
        for p, po in procs:
            try:
                _, err = p.communicate(timeout=timeout)
            except subprocess.TimeoutExpired:
                for q, _ in procs:
                    q.kill()
                raise lib.ToolError("harness timeout: ops eval")
            if p.returncode != 0:
                raise lib.ToolError("ops eval exited %d: %s" % (p.returncode, err[-2000:]))
            errs.append(err)
            with open(po) as fi:
                for line in fi:
                    fo.write(line)
            os.remove(po)
    return "".join(errs)
