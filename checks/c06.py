"""C06  Graph optimisation preserves meaning and interface.

The real optimize_context is run on generated fully inlined graphs (one hand-picked pattern per rewrite + seeded random DAGs over
the rewrite alphabet) and on the final optimisation step of real compilations; TLC judges spec/OptContract.tla on what it did:
every mapped node computes the same value for the same inputs and the same random draws (both graphs evaluated by the TLA+
interpreter), inputs kept in order with name and type, send markers of live nodes kept on the node carrying the same value and
none invented, recorded types = types re-inferred after a serde reload = OpType, reload evaluates identically.
"""
from . import lib, optgen, opt_common as oc

INVS = ["InvAccepted", "InvInterface", "InvSends", "InvTypes", "InvReload", "InvMeaning", "InvFresh"]


def run(chk):
    gen = optgen.cases(chk.tier, chk.seed)
    recs = oc.run_cases(chk, gen, "gen", INVS, nsamples=6 if chk.tier == "quick" else 24)
    chk.traces += sum(1 for r in recs if r["res"] == "ok")
    # specification -> implementation: EVERY program the specification's typing relation accepts over a small alphabet
    # (spec/ProgGen.tla, enumerated by TLC) goes through the real optimiser; a program the real add_node rejects is a
    # disagreement about typing and is reported
    from . import proggen
    spec_progs = proggen.enumerate_programs(chk, "mix", 3 if chk.tier == "quick" else 4)
    sg = [{"id": 500000 + k, "name": n, "prog": pr, "seed": chk.seed} for k, (n, pr, _tys) in enumerate(spec_progs)]
    recs3 = oc.run_cases(chk, sg, "specgen", INVS, nsamples=4 if chk.tier == "quick" else 8, timeout=1500 if chk.tier == "quick" else 9000)
    chk.note("programs_enumerated_from_the_specification", len(sg))
    chk.traces += sum(1 for r in recs3 if r["res"] == "ok")
    for r in recs3:
        if r["res"] == "builderr":
            chk.violation({"case": "specgen", "class": "program accepted by CCTyping is rejected by add_node"},
                          {"case": next(c for c in sg if c["id"] == r["id"]), "msg": r.get("msg")})
            break
    comp = oc.compile_cases(chk.tier, chk.seed)
    recs2 = oc.run_cases(chk, comp, "pipeline", INVS, nsamples=2 if chk.tier == "quick" else 6)
    chk.traces += sum(1 for r in recs2 if r["res"] == "ok")
    for r in recs[:3] + recs2[:2]:
        if r["res"] == "ok":
            chk.sample({"id": r["id"], "before": [n["op"] for n in r["before"]][:14], "after": [n["op"] for n in r["after"]][:14],
                        "map": r["map"][:14]})
    chk.note("rule", "cases = hand-picked rewrite patterns + seeded random DAGs (3-9 operations after 1-3 inputs) + the "
                     "uniquified->final step of compile_context on the C01 program families; values: all types at exact 8-bit ring, "
                     "sampled inputs/draws per case")
    chk.assumptions += ["TLA+ reference semantics CCOps (validated by C10) and typing CCTyping (validated by C09)",
                        "graphs are fully inlined (the optimiser's precondition)"]
