"""C06  Graph optimisation preserves meaning and interface.

The real optimize_context is run on generated fully inlined graphs (one hand-picked pattern per rewrite + seeded random DAGs over
the rewrite alphabet) and on the final optimisation step of real compilations; TLC judges spec/OptContract.tla on what it did:
every mapped node computes the same value for the same inputs and the same random draws (both graphs evaluated by the TLA+
interpreter), inputs kept in order with name and type, send markers of live nodes kept on the node carrying the same value and
none invented, recorded types = types re-inferred after a serde reload = OpType, reload evaluates identically.
"""
from . import lib, optgen, opt_common as oc

INVS = ["InvAccepted", "InvInterface", "InvSends", "InvTypes", "InvReload", "InvMeaning"]


def run(chk):
    gen = optgen.cases(chk.tier, chk.seed)
    recs = oc.run_cases(chk, gen, "gen", INVS, nsamples=6 if chk.tier == "quick" else 24)
    chk.traces += sum(1 for r in recs if r["res"] == "ok")
    comp = oc.compile_cases(chk.tier, chk.seed)
    recs2 = oc.run_cases(chk, comp, "pipeline", INVS, nsamples=2 if chk.tier == "quick" else 6)
    chk.traces += sum(1 for r in recs2 if r["res"] == "ok")
    for r in recs[:3] + recs2[:2]:
        if r["res"] == "ok":
            chk.sample({"id": r["id"], "before": [n["op"] for n in r["before"]][:14], "after": [n["op"] for n in r["after"]][:14],
                        "map": r["map"][:14]})
    chk.note("rule", "cases = hand-picked rewrite patterns + seeded random DAGs (3-9 operations after 1-3 inputs) + the "
                     "uniquified->final step of compile_context on the C01 program families; values: all types at exact 8-bit ring, "
                     "sampled inputs/draws per case")
    chk.assumptions += ["TLA+ reference semantics CCOps (validated by C10) and typing CCTyping (validated by C09)",
                        "graphs are fully inlined (the optimiser's precondition)"]
