"""Source programs for the compiler properties (C01-C04): small typed graphs as data.

A program is {"graphs":[{"nodes":[...],"out":k}],"main":1}; node = {"op":..., params, "deps":[1-based]}.
Families are chosen so that every MPC protocol of mpc_arithmetic / resharing / reveal is reached and so
that the propagation / resharing planner sees private-private, private-public and public-public operands.
"""
import itertools, random


def S(st):
    return {"k": "s", "st": st}


def A(st, sh):
    return {"k": "a", "st": st, "sh": list(sh)}


def T(st, sh=None):
    return S(st) if not sh else A(st, sh)


def inp(t):
    return {"op": "Input", "t": t, "deps": []}


def nd(op, deps, **kw):
    d = {"op": op, "deps": list(deps)}
    d.update(kw)
    return d


def prog(nodes, out=None):
    return {"graphs": [{"nodes": nodes, "out": out or len(nodes)}], "main": 1}


def sub(b=None, e=None, s=None):
    return {"e": "s", "hb": b is not None, "b": b or 0, "he": e is not None, "en": e or 0,
            "hs": s is not None, "s": s if s is not None else 1}


def idx(i):
    return {"e": "i", "i": i}


ELL = {"e": "e"}

# ---------------------------------------------------------------------------------------------
# families: each entry (name, program, number of inputs, class)
#   class "bit"  : all values are bits -> exhaustive at RingBits=1 (exact)
#   class "ring" : ring-only operations on integer types -> homomorphic images Z_2 / Z_4
#   class "x8"   : needs the exact 8-bit ring (A2B/B2A/Truncate) -> RingBits=8, simulation


def fam_binary(st, cls, shapes=((), (2,))):
    out = []
    for op in ("Add", "Subtract", "Multiply"):
        for sh in shapes:
            out.append(("%s_%s_%s" % (op, st, "x".join(map(str, sh)) or "s"),
                        prog([inp(T(st, sh)), inp(T(st, sh)), nd(op, [1, 2])]), 2, cls))
    return out


def fam_chain(st, cls):
    t = S(st)
    return [
        ("mul_add_mul_" + st, prog([inp(t), inp(t), inp(t), nd("Multiply", [1, 2]), nd("Add", [4, 3]), nd("Multiply", [5, 1])]), 3, cls),
        ("sub_mul_" + st, prog([inp(t), inp(t), nd("Subtract", [1, 2]), nd("Multiply", [3, 3])]), 2, cls),
        ("mul_mul_" + st, prog([inp(t), inp(t), inp(t), nd("Multiply", [1, 2]), nd("Multiply", [4, 3])]), 3, cls),
        ("add_only_" + st, prog([inp(t), inp(t), nd("Add", [1, 2]), nd("Add", [3, 1])]), 2, cls),
        ("unused_input_" + st, prog([inp(t), inp(t), inp(t), nd("Multiply", [1, 3])]), 3, cls),
        ("const_mul_" + st, prog([inp(t), nd("Ones", [], t=t), nd("Add", [1, 2]), inp(t), nd("Multiply", [3, 4])]), 2, cls),
    ]


def fam_broadcast(st, cls):
    return [
        ("bcast_priv_small_pub_big_sum_%s" % st, prog([inp(A(st, [1, 3])), inp(A(st, [2, 3])), nd("Add", [1, 2]), nd("Sum", [3], axes=[0])]), 2, cls),
        ("bcast_sub_then_sum_%s" % st, prog([inp(A(st, [2, 3])), inp(A(st, [3])), nd("Subtract", [2, 1]), nd("Sum", [3], axes=[1])]), 2, cls),
        ("bcast_mul_%s" % st, prog([inp(A(st, [2])), inp(S(st)), nd("Multiply", [1, 2])]), 2, cls),
        ("bcast_add_%s" % st, prog([inp(A(st, [2, 1])), inp(A(st, [2])), nd("Add", [1, 2]), nd("Multiply", [3, 3])]), 2, cls),
    ]


def fam_linear(st, cls):
    return [
        ("dot_vv_" + st, prog([inp(A(st, [2])), inp(A(st, [2])), nd("Dot", [1, 2])]), 2, cls),
        ("dot_mv_" + st, prog([inp(A(st, [2, 2])), inp(A(st, [2])), nd("Dot", [1, 2])]), 2, cls),
        ("matmul_" + st, prog([inp(A(st, [2, 2])), inp(A(st, [2, 2])), nd("Matmul", [1, 2])]), 2, cls),
        ("matmul_v_" + st, prog([inp(A(st, [2])), inp(A(st, [2, 2])), nd("Matmul", [1, 2])]), 2, cls),
        ("gemm_tt_" + st, prog([inp(A(st, [2, 1])), inp(A(st, [2, 1])), nd("Gemm", [1, 2], ta=True, tb=False)]), 2, cls),
        ("gemm_nt_" + st, prog([inp(A(st, [1, 2])), inp(A(st, [2, 2])), nd("Gemm", [1, 2], ta=False, tb=True)]), 2, cls),
        # the smallest product of each kind (a private x private product has to fit the exhaustive privacy budget)
        ("gemm_11_" + st, prog([inp(A(st, [1, 1])), inp(A(st, [1, 1])), nd("Gemm", [1, 2], ta=False, tb=True)]), 2, cls),
        ("matmul_11_" + st, prog([inp(A(st, [1, 1])), inp(A(st, [1, 1])), nd("Matmul", [1, 2])]), 2, cls),
        ("dot_1_" + st, prog([inp(A(st, [1])), inp(A(st, [1])), nd("Dot", [1, 2])]), 2, cls),
        ("dot_commutator_" + st, prog([inp(A(st, [2, 2])), inp(A(st, [2, 2])), nd("Dot", [1, 2]), nd("Dot", [2, 1]), nd("Subtract", [3, 4])]), 2, cls),
        ("matmul_commutator_" + st, prog([inp(A(st, [2, 2])), inp(A(st, [2, 2])), nd("Matmul", [1, 2]), nd("Matmul", [2, 1]), nd("Subtract", [3, 4])]), 2, cls),
    ]


def fam_struct(st, cls):
    a2 = A(st, [2])
    a22 = A(st, [2, 2])
    r = [
        ("slice_mul_" + st, prog([inp(a22), inp(a2), nd("GetSlice", [1], slice=[idx(1)]), nd("Multiply", [3, 2])]), 2, cls),
        ("mul_slice_" + st, prog([inp(a22), inp(a22), nd("Multiply", [1, 2]), nd("GetSlice", [3], slice=[ELL, sub(None, None, -1)]), nd("Multiply", [4, 1])]), 2, cls),
        ("get_" + st, prog([inp(a22), inp(a2), nd("Multiply", [1, 2]), nd("Get", [3], index=[1])]), 2, cls),
        ("sum_" + st, prog([inp(a22), inp(a22), nd("Multiply", [1, 2]), nd("Sum", [3], axes=[0])]), 2, cls),
        ("sum_mul_" + st, prog([inp(a22), inp(a2), nd("Sum", [1], axes=[1]), nd("Multiply", [3, 2])]), 2, cls),
        ("cumsum_" + st, prog([inp(a2), inp(a2), nd("Multiply", [1, 2]), nd("CumSum", [3], axis=0)]), 2, cls),
        ("permute_" + st, prog([inp(a22), inp(a22), nd("PermuteAxes", [1], perm=[1, 0]), nd("Multiply", [3, 2])]), 2, cls),
        ("reshape_" + st, prog([inp(a22), inp(A(st, [4])), nd("Reshape", [1], t=A(st, [4])), nd("Multiply", [3, 2])]), 2, cls),
        ("stack_" + st, prog([inp(S(st)), inp(S(st)), nd("Stack", [1, 2], sh=[2]), nd("Multiply", [3, 3])]), 2, cls),
        ("concat_" + st, prog([inp(a2), inp(a2), nd("Multiply", [1, 2]), nd("Concatenate", [3, 1], axis=0)]), 2, cls),
        ("tuple_" + st, prog([inp(S(st)), inp(S(st)), nd("Multiply", [1, 2]), nd("CreateTuple", [3, 1]), nd("TupleGet", [4], i=0), nd("Multiply", [5, 2])]), 2, cls),
        ("tuple_out_" + st, prog([inp(S(st)), inp(S(st)), nd("Multiply", [1, 2]), nd("CreateTuple", [3, 1])]), 2, cls),
        ("named_" + st, prog([inp(S(st)), inp(S(st)), nd("Multiply", [1, 2]), nd("CreateNamedTuple", [3, 2], nm=["p", "q"]), nd("NamedTupleGet", [4], key="q"), nd("Multiply", [5, 3])]), 2, cls),
        ("vector_" + st, prog([inp(S(st)), inp(S(st)), nd("Multiply", [1, 2]), nd("CreateVector", [3, 1], t=S(st)), nd("VectorToArray", [4]), nd("Multiply", [5, 5])]), 2, cls),
        ("vec_input_identity_" + st, prog([inp({"k": "v", "n": 2, "of": S(st)})]), 1, cls),
        ("vec_input_mul_" + st, prog([inp({"k": "v", "n": 2, "of": S(st)}), inp(S(st)), nd("VectorToArray", [1]), nd("Multiply", [3, 2])]), 2, cls),
        ("tuple_input_" + st, prog([inp({"k": "t", "el": [S(st), a2]}), inp(S(st)), nd("TupleGet", [1], i=1), nd("Multiply", [3, 2])]), 2, cls),
        ("a2v_" + st, prog([inp(a2), inp(a2), nd("Multiply", [1, 2]), nd("ArrayToVector", [3]), nd("VectorToArray", [4])]), 2, cls),
        ("repeat_" + st, prog([inp(S(st)), inp(S(st)), nd("Multiply", [1, 2]), nd("Repeat", [3], n=2), nd("VectorToArray", [4]), nd("Multiply", [5, 5])]), 2, cls),
        ("zip_" + st, prog([inp(a2), inp(a2), nd("ArrayToVector", [1]), nd("ArrayToVector", [2]), nd("Zip", [3, 4]),
                            nd("Constant", [], t=S("u64"), v=["1"]), nd("VectorGet", [5, 6]), nd("TupleGet", [7], i=0), nd("TupleGet", [7], i=1), nd("Multiply", [8, 9])]), 2, cls),
    ]
    return r


def fam_mixed(cls="ring"):
    return [
        ("mixmul_i32", prog([inp(S("i32")), inp(S("b")), nd("MixedMultiply", [1, 2])]), 2, cls),
        ("mixmul_arr", prog([inp(A("u8", [2])), inp(A("b", [2])), nd("MixedMultiply", [1, 2])]), 2, cls),
        ("mixmul_then_mul", prog([inp(S("i64")), inp(S("b")), inp(S("i64")), nd("MixedMultiply", [1, 2]), nd("Multiply", [4, 3])]), 3, cls),
    ]


def fam_conv():
    return [
        ("a2b_u8", prog([inp(S("u8")), nd("A2B", [1])]), 1, "x8"),
        ("b2a_u8", prog([inp(A("b", [8])), nd("B2A", [1], st="u8")]), 1, "x8"),
        ("a2b_b2a_i8", prog([inp(S("i8")), inp(S("i8")), nd("Add", [1, 2]), nd("A2B", [3]), nd("B2A", [4], st="i8")]), 2, "x8"),
    ]


def bshape(a, b):
    """numpy broadcast of two shapes (tuples)"""
    n = max(len(a), len(b))
    a2 = (1,) * (n - len(a)) + tuple(a)
    b2 = (1,) * (n - len(b)) + tuple(b)
    return tuple(max(x, y) for x, y in zip(a2, b2))


def fam_random_arith(st, cls, count, rng):
    """Random arithmetic DAGs with mixed shapes: products (3-out-of-3 results) of different sizes meet in
    broadcasting Add/Subtract/Multiply, sums and slices -- the inputs of the resharing planner."""
    shapes = [(), (3,), (2, 3), (2, 1)]
    out = []
    for k in range(count):
        n_in = rng.randint(2, 4)
        nodes, shs = [], []
        for _ in range(n_in):
            sh = rng.choice(shapes)
            nodes.append(inp(T(st, list(sh))))
            shs.append(sh)
        for _ in range(rng.randint(3, 6)):
            kind = rng.choice(["mul", "mul", "add", "add", "sub", "sum", "slice", "mul"])
            if kind in ("mul", "add", "sub"):
                a, b = rng.randint(1, len(nodes)), rng.randint(1, len(nodes))
                sa, sb = shs[a - 1], shs[b - 1]
                try:
                    r = bshape(sa, sb)
                    ok = all(x == y or x == 1 or y == 1 for x, y in zip((1,) * (len(r) - len(sa)) + sa, (1,) * (len(r) - len(sb)) + sb))
                except Exception:
                    ok = False
                if not ok:
                    continue
                nodes.append(nd({"mul": "Multiply", "add": "Add", "sub": "Subtract"}[kind], [a, b]))
                shs.append(r)
            elif kind == "sum":
                cands = [i + 1 for i, s0 in enumerate(shs) if len(s0) >= 1]
                if not cands:
                    continue
                a = rng.choice(cands)
                ax = rng.randrange(len(shs[a - 1]))
                nodes.append(nd("Sum", [a], axes=[ax]))
                shs.append(tuple(d for i, d in enumerate(shs[a - 1]) if i != ax))
            elif kind == "slice":
                cands = [i + 1 for i, s0 in enumerate(shs) if len(s0) == 2]
                if not cands:
                    continue
                a = rng.choice(cands)
                nodes.append(nd("GetSlice", [a], slice=[idx(rng.randrange(shs[a - 1][0]))]))
                shs.append(shs[a - 1][1:])
        if len(nodes) > n_in:
            out.append(("rand_arith_%s_%d" % (st, k), prog(nodes), n_in, cls))
    return out


def fam_reshare(st, cls):
    """Shapes the resharing planner has to get right: 3-out-of-3 values (products of private values) of different
    sizes meeting in broadcasting operations, consumed by operations that need 2-out-of-3 inputs or by the output."""
    full, small, col = A(st, [2, 3]), A(st, [3]), A(st, [2, 1])
    r = []
    for opn in ("Add", "Subtract"):
        r.append(("prod_full_%s_prod_small_%s" % (opn, st), prog([inp(full), inp(full), inp(small), inp(small),
                  nd("Multiply", [1, 2]), nd("Multiply", [3, 4]), nd(opn, [5, 6])]), 4, cls))
        r.append(("prod_small_%s_prod_full_%s" % (opn, st), prog([inp(full), inp(full), inp(small), inp(small),
                  nd("Multiply", [3, 4]), nd("Multiply", [1, 2]), nd(opn, [5, 6])]), 4, cls))
        r.append(("prod_full_%s_prod_col_then_mul_%s" % (opn, st), prog([inp(full), inp(full), inp(col), inp(col),
                  nd("Multiply", [1, 2]), nd("Multiply", [3, 4]), nd(opn, [5, 6]), nd("Multiply", [7, 1])]), 4, cls))
    r.append(("prod_small_plus_input_full_" + st, prog([inp(full), inp(small), inp(small), nd("Multiply", [2, 3]), nd("Add", [4, 1])]), 3, cls))
    r.append(("prod_full_sum_mul_" + st, prog([inp(full), inp(full), inp(small), nd("Multiply", [1, 2]), nd("Sum", [4], axes=[0]), nd("Multiply", [5, 3])]), 3, cls))
    r.append(("stack_prods_" + st, prog([inp(small), inp(small), inp(S(st)), inp(S(st)), nd("Multiply", [1, 2]), nd("Multiply", [3, 4]), nd("Stack", [5, 6], sh=[2])]), 4, cls))
    r.append(("two_prods_slice_" + st, prog([inp(full), inp(full), inp(small), nd("Multiply", [1, 2]), nd("GetSlice", [4], slice=[idx(1)]), nd("Multiply", [5, 3]), nd("Add", [6, 4])]), 3, cls))
    return r


def families(tier, seed=0):
    fs = []
    fs += fam_binary("b", "bit", shapes=((), (2,)))
    fs += fam_chain("b", "bit")
    fs += fam_binary("i32", "ring", shapes=((),))
    fs += fam_chain("u64", "ring")
    fs += fam_broadcast("b", "bit")
    fs += fam_linear("b", "bit")
    fs += fam_struct("b", "bit")
    fs += fam_mixed()
    fs += fam_reshare("b", "bit")
    fs += fam_reshare("i32", "ring")
    rng = random.Random(seed * 7919 + 13)
    fs += fam_random_arith("b", "bit", 25 if tier == "quick" else 300, rng)
    fs += fam_random_arith("i32", "ring", 10 if tier == "quick" else 150, rng)
    # random programs over all MPC-compilable operations on bits (containers, linear algebra, structural operations)
    from . import randprog
    for name, p, its in randprog.programs(seed + 5, 30 if tier == "quick" else 400, sts=("b",)):
        fs.append((name, p, len(its), "bit"))
    if tier == "thorough":
        fs += fam_binary("u8", "ring", shapes=((), (2,)))
        fs += fam_linear("i16", "ring")
        fs += fam_struct("u128", "ring")
        fs += fam_broadcast("i64", "ring")
    return fs


OWNERS = [0, 1, 2, "pub", "sh"]
OUTSETS = [[], [0], [1], [2], [0, 1], [1, 2], [2, 0], [0, 1, 2]]
MODES = ["Simple", "Default", "Extreme"]


def configs(n_inputs, tier, rng, per_prog):
    """Owner vectors x output sets x inline modes: all of them in thorough, a covering sample in quick.
    The sample always contains: all-private-distinct owners, one public, one shared, secret output."""
    allc = [(list(ow), o, m) for ow in itertools.product(OWNERS, repeat=n_inputs) for o in OUTSETS for m in MODES]
    if tier == "thorough" and per_prog is None:
        return allc
    base = []
    priv = [0, 1, 2][:n_inputs] if n_inputs <= 3 else [0] * n_inputs
    base.append((priv, [2, 0], "Simple"))
    base.append((priv[::-1], [], "Default"))
    base.append((["pub"] + priv[1:], [1], "Extreme"))
    base.append((priv[:1] + ["pub"] * (n_inputs - 1), [0], "Default"))
    base.append((["sh"] + priv[1:], [0, 1, 2], "Simple"))
    base.append(([1] * n_inputs, [0], "Simple"))
    # a public result returned in shared form (compile_to_mpc_context shares it on the way out): round-3 change C02_F
    base.append((["pub"] * n_inputs, [], "Simple"))
    extra = rng.sample(allc, min(len(allc), max(0, per_prog - len(base))))
    seen, out = set(), []
    for c in base + extra:
        k = repr(c)
        if k not in seen:
            seen.add(k)
            out.append(c)
    return out[:per_prog] if per_prog else out


def jobs(tier, seed, per_prog=None, only_cls=None):
    rng = random.Random(seed)
    js = []
    jid = 0
    for name, p, n, cls in families(tier, seed):
        if only_cls and cls not in only_cls:
            continue
        for ow, outs, mode in configs(n, tier, rng, per_prog):
            jid += 1
            js.append({"id": jid, "name": name, "cls": cls, "prog": p, "owners": ow, "outs": outs, "mode": mode})
    return js
