"""Bracket tables of the transcendental functions of C20 (run with python3-vt: needs mpmath).

    python3-vt c20_tables.py <jobs.ndjson> <tables.ndjson>

For every job (same order) one line {"id": ..} and, for op in exp / taylor / sigmoid / gelu, "lo": per input x the integer
lo with  lo <= f(x / 2^p) * 2^p <= lo + 1.  The value is computed with 256 bits; the guard eps = 2^-180 * max(1, |v|) is
astronomically larger than the error of mpmath's exp / erf at that precision, so floor(v - eps) is a rigorous lower end and
the script verifies floor(v + eps) <= lo + 1 (an exact integer value v = N gives the bracket [N - 1, N]).
enc = "int": integers saturated at +-2^30 (the specification skips rows at the saturation); enc = "limbs": 16
little-endian base-256 limbs of the 128-bit two's complement."""
import json, sys
import mpmath
from mpmath import mp, mpf

mp.prec = 256
SAT = 1 << 30


def exact(op, p, x):
    s = mpf(2) ** p
    r = mpf(x) / s
    if op in ("exp", "taylor"):
        return mpmath.exp(r) * s
    if op == "sigmoid":
        return s / (1 + mpmath.exp(-r))
    if op == "gelu":
        return mpf(x) * (1 + mpmath.erf(r / mpmath.sqrt(2))) / 2
    raise ValueError(op)


def bracket(op, p, x):
    if op in ("exp", "taylor") and x > 64 * (1 << p):
        return SAT << 70
    v = exact(op, p, x)
    eps = mpmath.ldexp(max(mpf(1), abs(v)), -180)
    lo = int(mpmath.floor(v - eps))
    hi = int(mpmath.floor(v + eps))
    assert hi <= lo + 1, (op, p, x)
    return lo


def enc(v, mode):
    if mode == "limbs":
        u = v & ((1 << 128) - 1)
        return [(u >> (8 * i)) & 0xFF for i in range(16)]
    return max(-SAT, min(SAT, v))


def main():
    jobs = [json.loads(l) for l in open(sys.argv[1]) if l.strip()]
    with open(sys.argv[2], "w") as out:
        for j in jobs:
            row = {"id": j["id"]}
            if j["op"] in ("exp", "taylor", "sigmoid", "gelu"):
                xs = list(range(j["xr"][0], j["xr"][0] + j["xr"][1])) if "xr" in j else j["x"]
                mode = j.get("enc", "int")
                row["lo"] = [enc(bracket(j["op"], j["p"], x), mode) for x in xs]
            out.write(json.dumps(row, separators=(",", ":")) + "\n")


if __name__ == "__main__":
    main()
