"""Shared driver for the compiler/protocol properties: compile with the real pipeline, import into ABY3Run."""
import json, math, os, re
from . import lib, progs

BITS = {"b": 1, "u8": 8, "i8": 8, "u16": 16, "i16": 16, "u32": 32, "i32": 32, "u64": 64, "i64": 64, "u128": 128, "i128": 128}


def numel(t):
    if t["k"] == "s":
        return 1
    n = 1
    for d in t["sh"]:
        n *= d
    return n


def type_bits(t, ring):
    """log2 of the number of values of type t in the ring Z_{2^min(w,ring)}."""
    k = t["k"]
    if k in ("s", "a"):
        return numel(t) * min(BITS[t["st"]], ring)
    if k == "v":
        return t["n"] * type_bits(t["of"], ring)
    return sum(type_bits(e, ring) for e in t["el"])


def tape_bits(rec, ring):
    """(tape bits, input bits) of a program record in the given ring."""
    tb = 0.0
    for n in rec["mpc"]:
        if n["op"] == "PRF":
            tb += type_bits(n["t"], ring)
        elif n["op"] == "PermutationFromPRF":
            tb += math.log2(math.factorial(n["n"]))
    ib = 0
    for n in rec["src"]:
        if n["op"] == "Input":
            ib += type_bits(n["t"], ring)
    # secret-shared inputs add two free shares each
    k = 0
    for n in rec["src"]:
        if n["op"] == "Input":
            if rec["owners"][k] == "sh":
                ib += 2 * type_bits(n["t"], ring)
            k += 1
    return tb, ib


def compile_jobs(chk, jobs, tag="jobs", src_stage="prep.inlined"):
    """Run the real compile_context (with the stage tracer) on every job; returns list of program records."""
    jp = chk.path(tag + ".ndjson")
    op = chk.path(tag + ".progs.ndjson")
    lib.write_ndjson(jp, jobs)
    p = lib.harness(["compile-progs", jp, op, src_stage], timeout=3600)
    recs = lib.read_ndjson(op)
    byid = {j["id"]: j for j in jobs}
    for r in recs:
        j = byid[r["id"]]
        r["name"], r["cls"] = j["name"], j["cls"]
    failed = [l for l in p.stderr.splitlines() if l.startswith("job ")]
    return recs, failed


def describe(r):
    return {"program": r["name"], "owners": r["owners"], "outs": r["outs"], "mode": r["mode"]}


def strip(r):
    """the part of a program record the TLA+ modules read"""
    return {"id": r["id"], "src": r["src"], "mpc": r["mpc"], "owners": r["owners"], "outs": r["outs"]}


def run_aby3(chk, recs, mode, ring, tag, simulate=None, workers=8, timeout=1500, cfgname=None, seed=None):
    """TLC on ABY3Run for the given program records. Returns (ok, result, violating record or None)."""
    if not recs:
        return True, None, None
    path = chk.path("%s.progs.ndjson" % tag)
    lib.write_ndjson(path, [strip(r) for r in recs])
    cfg = cfgname or ("MC_ABY3_%s_r%d%s.cfg" % (mode, ring, "_sim" if simulate else ""))
    cfgpath = os.path.join(lib.SPEC, cfg)
    if not os.path.exists(cfgpath):
        raise lib.ToolError("missing cfg " + cfg)
    depth = max(len(r["mpc"]) for r in recs) + 3
    res = lib.tlc("ABY3Run", cfg, env={"PROGS": path}, workers=workers, simulate=simulate,
                  depth=depth if simulate else None, timeout=timeout, seed=seed)
    chk.add_tlc(res, tag)
    if res.ok:
        return True, res, None
    m = re.search(r"/\\ g = (\d+)", res.trace)
    bad = recs[int(m.group(1)) - 1] if m else None
    return False, res, bad


def last_state(trace, var):
    """value text of variable `var` in the last state of a TLC counterexample"""
    vals = re.findall(r"^/\\ %s = (.*)$" % re.escape(var), trace, flags=re.M)
    return vals[-1] if vals else None
