"""Shared driver for the compiler/protocol properties: compile with the real pipeline, import into ABY3Run."""
import json, math, os, re
from . import lib, progs

BITS = {"b": 1, "u8": 8, "i8": 8, "u16": 16, "i16": 16, "u32": 32, "i32": 32, "u64": 64, "i64": 64, "u128": 128, "i128": 128}


def numel(t):
    if t["k"] == "s":
        return 1
    n = 1
    for d in t["sh"]:
        n *= d
    return n


def type_bits(t, ring):
    """log2 of the number of values of type t in the ring Z_{2^min(w,ring)}."""
    k = t["k"]
    if k in ("s", "a"):
        return numel(t) * min(BITS[t["st"]], ring)
    if k == "v":
        return t["n"] * type_bits(t["of"], ring)
    return sum(type_bits(e, ring) for e in t["el"])


def tape_bits(rec, ring):
    """(tape bits, input bits) of a program record in the given ring."""
    tb = 0.0
    for n in rec["mpc"]:
        if n["op"] == "PRF":
            tb += type_bits(n["t"], ring)
        elif n["op"] == "PermutationFromPRF":
            tb += math.log2(math.factorial(n["n"]))
    ib = 0
    for n in rec["src"]:
        if n["op"] == "Input":
            ib += type_bits(n["t"], ring)
    # secret-shared inputs add two free shares each
    k = 0
    for n in rec["src"]:
        if n["op"] == "Input":
            if rec["owners"][k] == "sh":
                ib += 2 * type_bits(n["t"], ring)
            k += 1
    return tb, ib


def compile_jobs(chk, jobs, tag="jobs", src_stage="prep.inlined"):
    """Run the real compile_context (with the stage tracer) on every job; returns list of program records."""
    jp = chk.path(tag + ".ndjson")
    op = chk.path(tag + ".progs.ndjson")
    lib.write_ndjson(jp, jobs)
    p = lib.harness(["compile-progs", jp, op, src_stage], timeout=3600)
    recs = lib.read_ndjson(op)
    byid = {j["id"]: j for j in jobs}
    for r in recs:
        j = byid[r["id"]]
        r["name"], r["cls"] = j["name"], j["cls"]
    failed = [l for l in p.stderr.splitlines() if l.startswith("job ")]
    return recs, failed


def typecheck(chk, recs, tag="types"):
    """TLC pre-pass (spec/ProgTypes.tla): recorded node types of the exported graphs must equal CCTyping!OpType.
    Returns (well-typed records, [(ill-typed record, detail)])."""
    if not recs:
        return [], []
    path = chk.path(tag + ".progs.ndjson")
    lib.write_ndjson(path, [strip(r) for r in recs])
    res = lib.tlc("ProgTypes", "MC_ProgTypes.cfg", env={"PROGS": path}, workers=8, timeout=900, coverage=False)
    chk.add_tlc(res, tag)
    if not res.ok:
        raise lib.ToolError("type pre-pass failed: " + str(res.error))
    badidx = {}
    for l in res.printed:
        m = re.match(r'<<"BADTYPE", (\d+), "(\w+)", (.*)>>$', l)
        if m:
            badidx.setdefault(int(m.group(1)), []).append("%s graph, nodes %s" % (m.group(2), m.group(3)))
    good = [r for i, r in enumerate(recs, 1) if i not in badidx]
    bad = [(r, badidx[i]) for i, r in enumerate(recs, 1) if i in badidx]
    return good, bad


def describe(r):
    return {"program": r["name"], "owners": r["owners"], "outs": r["outs"], "mode": r["mode"]}


def strip(r):
    """the part of a program record the TLA+ modules read"""
    return {"id": r["id"], "src": r["src"], "mpc": r["mpc"], "owners": r["owners"], "outs": r["outs"]}


def supported_at(rec, ring):
    """mirror of the one data-dependent `Unsupported` clause of spec/CCOps.tla that the program classes do not already
    exclude: VectorGet needs the vector length to fit the index type's image in the ring"""
    for key in ("src", "mpc"):
        g = rec[key]
        for n in g:
            if n["op"] == "VectorGet":
                vt, it = g[n["deps"][0] - 1]["ty"], g[n["deps"][1] - 1]["ty"]
                if BITS[it["st"]] > ring and vt["n"] > 2 ** min(BITS[it["st"]], ring):
                    return False
    return True


def run_aby3(chk, recs, mode, ring, tag, sample_runs=None, workers=8, timeout=1500, module="ABY3Run", invariant=None, view_roots=False, spec="MacroSpec", progvar="g", exhaust_inputs=False):
    """TLC on ABY3Run for the given program records.
    sample_runs=None: every choice explored (exhaustive); sample_runs=K: K independent random runs per
    program (Sample = TRUE; explored breadth-first, so it parallelises and avoids TLC's -simulate mode).
    Returns (ok, result, violating record or None)."""
    # the interpreter gives no meaning to a lookup by an integer index in a ring too small to hold the index
    # (CCOps!Plan: "VectorGet index outside the exact ring"): such programs are left to the rings that can, and to the wide phase
    kept = [r for r in recs if supported_at(r, ring)]
    if len(kept) != len(recs):
        chk.count("programs_not_interpretable_in_ring_%d" % ring, len(recs) - len(kept))
    recs = kept
    if not recs:
        return True, None, None
    path = chk.path("%s.progs.ndjson" % tag)
    lib.write_ndjson(path, [strip(r) for r in recs])
    inv = invariant or ("C01Single" if mode == "single" else "C02Three")
    cfg = chk.path("%s.cfg" % tag)
    with open(cfg, "w") as f:
        f.write("\\* generated by checks/mpc_common.py (same shape as spec/MC_ABY3_%s_r%d%s.cfg)\n" % (mode, ring, "_sim" if sample_runs else ""))
        f.write("CONSTANTS\n  RingBits = %d\n  Mode = \"%s\"\n  Sample = %s\n  Runs = %d\n" %
                (ring, mode, "TRUE" if sample_runs else "FALSE", sample_runs or 1))
        f.write("  ViewRoots = %s\n  ExhaustInputs = %s\n" % ("TRUE" if view_roots else "FALSE", "TRUE" if exhaust_inputs else "FALSE"))
        f.write("SPECIFICATION %s\nINVARIANT %s\nCHECK_DEADLOCK FALSE\n" % (spec, inv))
    res = lib.tlc(module, cfg, env={"PROGS": path}, workers=workers, timeout=timeout, coverage=not sample_runs)
    chk.add_tlc(res, tag)
    if res.ok:
        return True, res, None
    ms = re.findall(r"/\\ %s = (\d+)" % progvar, res.trace)
    m = ms[-1] if ms else None
    bad = recs[int(m) - 1] if m else None
    return False, res, bad


def last_state(trace, var):
    """value text of variable `var` in the last state of a TLC counterexample"""
    vals = re.findall(r"^/\\ %s = (.*)$" % re.escape(var), trace, flags=re.M)
    return vals[-1] if vals else None
