"""C19  Joins implement the documented relational semantics (plaintext part).

The four joins are specified in spec/Relational.tla (JoinEntry / IsJoin) from the doc comments of Graph::join and
Graph::join_with_column_masks and the result type of join_inference.  The harness runs the real plaintext
Join / JoinWithColumnMasks (SimpleEvaluator) on pairs of tables; TLC (spec/RelTrace.tla) judges the returned named
tuple of every case: column order, column types, row count, row order, zero filling, null markers, masks.

Cases: for three key configurations (one u8 key column; two key columns i16 x bit[2] with different header names;
one u64[2] key column with values above 2^32) ALL pairs of tables with 0..3 live rows in 1..N slots (null rows
anywhere, junk in null rows, keys from a 3-element domain that contains the all-zero key, so that disjoint / partial /
full overlaps all occur), x 4 join types x unmasked / masked (masked: additionally every live row with its key masked
out or not); plus sampled tables up to 8 rows from a larger key domain.

Key-header pairing family (MULTI): 2 and 3 key columns (equal types u8 x u8, where a wrong pairing of the key columns makes
spurious matches; mixed u16 x bit[2] x u16), for EVERY pairing of the sorted first-table key headers with the sorted
second-table key headers (all k! permutations; header names distinct in the two tables, or the same names crossed over),
the same exhaustive row patterns; the position of null / key / payload columns in both tables is shuffled per case, so
that pairing order, header-name order and table-column order of the key columns are mutually independent.  Masked variant:
rows with only SOME key entries masked out.  A few of these table pairs also go through the compiled join.
"""
import itertools, random
from . import lib
from . import bitrel_common as bc

# key domains: element = tuple of per-key-column rows (each a list of values); first element = all-zero key
CONFIGS = {
    "u8": {
        "keys": [("id", "id", "u8", [])],
        "dom": [([0],), ([1],), ([2],)],
        "more": [([v],) for v in (3, 7, 200, 255, 9, 17, 33)],
        "A": ["null", "id", "va"], "B": ["null", "vb", "id"], "B2": ["id", "null", "vb"],
        "pay": {"va": ("i32", []), "vb": ("u16", [2])},
    },
    "i16xb2": {
        "keys": [("k1", "j1", "i16", []), ("k2", "k2", "b", [2])],
        "dom": [([0], [0, 0]), ([65535], [0, 1]), ([65535], [1, 0])],
        "more": [([5], [0, 1]), ([5], [1, 1]), ([0], [0, 1]), ([32768], [0, 0]), ([1], [1, 1]), ([5], [0, 0]), ([32767], [1, 0])],
        "A": ["k2", "pa", "null", "k1"], "B": ["null", "j1", "k2", "pb"], "B2": ["j1", "k2", "pb", "null"],
        "pay": {"pa": ("u64", []), "pb": ("u8", [])},
    },
    "u64x2": {
        "keys": [("kk", "kk", "u64", [2])],
        "dom": [([0, 0],), ([1 << 40, 7],), ([1 << 40, 8],)],
        "more": [([7, 1 << 40],), ([(1 << 64) - 1, 0],), ([0, 1],), ([1, 0],), ([1 << 63, 1 << 63],), ([5, 5],), ([1 << 40, 0],)],
        "A": ["kk", "null", "ba"], "B": ["null", "bb", "kk"], "B2": ["bb", "kk", "null"],
        "pay": {"ba": ("b", []), "bb": ("i64", [1])},
    },
}
# key-header pairing family: key column i has type ktypes[i]; names are assigned by multi_cfg()
MULTI = {
    "u8u8": {
        "ktypes": [("u8", []), ("u8", [])],
        "dom": [([0], [0]), ([1], [2]), ([2], [1])],
        "more": [([1], [1]), ([2], [2]), ([0], [1]), ([1], [0]), ([255], [7]), ([7], [255]), ([3], [3])],
        "pay": {"va": ("i32", []), "vb": ("u16", [2])}, "payA": "va", "payB": "vb",
    },
    "u16b2u16": {
        "ktypes": [("u16", []), ("b", [2]), ("u16", [])],
        "dom": [([0], [0, 0], [0]), ([1], [0, 1], [2]), ([2], [1, 0], [1])],
        "more": [([2], [0, 1], [1]), ([1], [1, 0], [2]), ([1], [0, 1], [1]), ([0], [0, 1], [0]), ([65535], [1, 1], [0]),
                 ([0], [1, 1], [65535]), ([1], [0, 0], [0])],
        "pay": {"pa": ("u64", []), "pb": ("u8", [])}, "payA": "pa", "payB": "pb",
    },
}
ANAMES, BNAMES = ["ka", "kb", "kc"], ["ja", "jb", "jc"]


def namings(k, styles=("distinct", "crossed")):
    """every pairing of the (sorted) first-table key headers with the (sorted) second-table key headers"""
    return [(perm, st) for perm in itertools.permutations(range(k)) for st in styles]


def multi_cfg(base, perm, style):
    """key column i: header ANAMES[i] in the first table, paired with the perm[i]-th of the second table's key headers
    (distinct: ja jb jc; crossed: the first table's names, permuted; partial: the first name shared, the others distinct)"""
    k = len(base["ktypes"])
    bn = {"distinct": BNAMES, "crossed": ANAMES, "partial": ANAMES[:1] + BNAMES[1:]}[style][:k]
    keys = [(ANAMES[i], bn[perm[i]], base["ktypes"][i][0], base["ktypes"][i][1]) for i in range(k)]
    cfg = {"keys": keys, "dom": base["dom"], "more": base["more"], "pay": base["pay"], "partial_masks": True}
    # default column orders (compiled cases; null is never first in A, see the recorded column-order finding)
    cfg["A"] = [keys[-1][0], "null"] + [x[0] for x in keys[:-1]] + [base["payA"]]
    cfg["B"] = ["null", base["payB"]] + sorted(x[1] for x in keys)
    cfg["B2"] = cfg["B"][1:] + ["null"]
    return cfg


def shuffled_names(cfg, rnd):
    """column orders of both tables: null / key / payload columns anywhere"""
    a, b = list(cfg["A"]), list(cfg["B"])
    rnd.shuffle(a)
    rnd.shuffle(b)
    return a, b


BITS = {"b": 1, "u8": 8, "i8": 8, "u16": 16, "i16": 16, "u32": 32, "i32": 32, "u64": 64, "i64": 64}


def prod(sh):
    n = 1
    for d in sh:
        n *= d
    return n


def patterns(n, ndom, masked, max_live=3):
    """all assignments slot -> 'd' (null row) | 'm' (live, key masked out; masked variant only) | key index,
    with distinct key indices and at most max_live live rows"""
    opts = ["d"] + (["m"] if masked else []) + list(range(ndom))
    out = []
    for t in itertools.product(opts, repeat=n):
        ks = [x for x in t if isinstance(x, int)]
        if len(set(ks)) == len(ks) and sum(1 for x in t if x != "d") <= max_live:
            out.append(t)
    return out


def build_table(cfg, side, pat, masked, rnd, dom, alt=False, names=None):
    """side 0 = first table (A), 1 = second (B).  Live rows get the key of the pattern; null rows and masked entries get junk."""
    n = len(pat)
    names = names or (cfg["A"] if side == 0 else (cfg["B2"] if alt else cfg["B"]))
    # masked-out rows: all key entries, or (partial_masks) a non-empty subset of them - the others carry a live key
    nk = len(cfg["keys"])
    drop = {}
    for r, p in enumerate(pat):
        if p == "m":
            sub = [i for i in range(nk) if rnd.randint(0, 1)] if cfg.get("partial_masks") else []
            drop[r] = sub or list(range(nk))
    keycols = {(k[0] if side == 0 else k[1]): (i, k[2], k[3]) for i, k in enumerate(cfg["keys"])}
    cols = []
    alldom = cfg["dom"] + cfg["more"]
    for nm in names:
        if nm == "null":
            cols.append({"name": "null", "st": "b", "shape": [n], "vals": [0 if p == "d" else 1 for p in pat]})
            continue
        if nm in keycols:
            ki, st, rs = keycols[nm]
            vals, mask = [], []
            for r, p in enumerate(pat):
                if isinstance(p, int):
                    vals += dom[p][ki]
                    mask.append(1)
                elif p == "m":
                    vals += rnd.choice(alldom)[ki]          # whatever: no content (or the rest of a key that is incomplete)
                    mask.append(0 if ki in drop[r] else 1)
                else:
                    vals += rnd.choice(alldom)[ki]          # junk in a null row (may duplicate a live key)
                    mask.append(rnd.randint(0, 1))
            c = {"name": nm, "st": st, "shape": [n] + rs, "vals": [str(v) for v in vals]}
        else:
            st, rs = cfg["pay"][nm]
            w = BITS[st]
            vals, mask = [], []
            for r in range(n):
                vals += [(rnd.getrandbits(w) or 1) for _ in range(prod(rs))]    # non-zero, so that zero filling is visible
                mask.append(rnd.randint(0, 1) if masked else 1)
            c = {"name": nm, "st": st, "shape": [n] + rs, "vals": [str(v) for v in vals]}
        if masked:
            c["mask"] = mask
        cols.append(c)
    return cols


def run(chk):
    quick = chk.tier == "quick"
    rnd = random.Random(chk.seed + 19)
    jobs, claims = [], []

    def add(j):
        j["id"] = len(jobs)
        jobs.append(j)

    def headers(cfg):
        return [[k[0], k[1]] for k in cfg["keys"]]

    plan = {  # config -> (max slots exhaustive unmasked, masked)
        "u8": (3, 3) if quick else (4, 3),
        "i16xb2": (3, 2) if quick else (4, 3),
        "u64x2": (2, 2) if quick else (4, 3),
    }
    for cname, cfg in CONFIGS.items():
        for masked in (0, 1):
            nmax = plan[cname][masked]
            grp = "join-%s-%s-exh%d" % (cname, "masked" if masked else "plain", nmax)
            cnt = 0
            for n0 in range(1, nmax + 1):
                for n1 in range(1, nmax + 1):
                    for pa in patterns(n0, 3, masked):
                        for pb in patterns(n1, 3, masked):
                            add({"kind": "join", "grp": grp, "masked": masked, "headers": headers(cfg),
                                 "A": build_table(cfg, 0, pa, masked, rnd, cfg["dom"]),
                                 "B": build_table(cfg, 1, pb, masked, rnd, cfg["dom"])})
                            cnt += 1
            claims.append({"grp": grp, "what": "count", "n": nmax, "b": 3, "count": cnt})
            # the same with the null column of the second table not in first position (all pairs up to 2 slots)
            grp = "join-%s-%s-altorder-exh%d" % (cname, "masked" if masked else "plain", min(2, nmax))
            cnt = 0
            for n0 in range(1, min(2, nmax) + 1):
                for n1 in range(1, min(2, nmax) + 1):
                    for pa in patterns(n0, 3, masked):
                        for pb in patterns(n1, 3, masked):
                            add({"kind": "join", "grp": grp, "masked": masked, "headers": headers(cfg),
                                 "A": build_table(cfg, 0, pa, masked, rnd, cfg["dom"]),
                                 "B": build_table(cfg, 1, pb, masked, rnd, cfg["dom"], alt=True)})
                            cnt += 1
            claims.append({"grp": grp, "what": "count", "n": min(2, nmax), "b": 3, "count": cnt})
    # key-header pairing family: every pairing of the key headers x exhaustive row patterns, column positions shuffled
    rnd2 = random.Random(chk.seed * 7 + 1919)
    mplan = {  # (slot pairs unmasked, slot pairs masked, header-name styles)
        "u8u8": ([(a, b) for a in (1, 2) for b in (1, 2)], [(1, 1), (1, 2), (2, 1)], ("distinct", "crossed")),
        "u16b2u16": ([(a, b) for a in (1, 2) for b in (1, 2)], [(1, 1), (1, 2), (2, 1)], ("alternate",)),
    } if quick else {
        "u8u8": ([(a, b) for a in (1, 2, 3) for b in (1, 2, 3)], [(a, b) for a in (1, 2) for b in (1, 2)], ("distinct", "crossed", "partial")),
        "u16b2u16": ([(a, b) for a in (1, 2, 3) for b in (1, 2, 3) if a + b < 6], [(a, b) for a in (1, 2) for b in (1, 2)], ("distinct", "crossed")),
    }
    multi_cfgs = []
    for mname, base in MULTI.items():
        k = len(base["ktypes"])
        styles = mplan[mname][2]
        if styles == ("alternate",):     # quick: all k! pairings, header-name style alternating
            nms = [(perm, ("distinct", "crossed")[i % 2]) for i, perm in enumerate(itertools.permutations(range(k)))]
        else:
            nms = namings(k, styles)
        for perm, style in nms:
            cfg = multi_cfg(base, perm, style)
            multi_cfgs.append((mname, perm, style, cfg))
            for masked in (0, 1):
                grp = "join-%s-pair%s-%s-%s" % (mname, "".join(str(x) for x in perm), style, "masked" if masked else "plain")
                cnt = 0
                for n0, n1 in mplan[mname][masked]:
                    for pa in patterns(n0, 3, masked):
                        for pb in patterns(n1, 3, masked):
                            na, nb = shuffled_names(cfg, rnd2)
                            add({"kind": "join", "grp": grp, "masked": masked, "headers": headers(cfg),
                                 "A": build_table(cfg, 0, pa, masked, rnd2, cfg["dom"], names=na),
                                 "B": build_table(cfg, 1, pb, masked, rnd2, cfg["dom"], names=nb)})
                            cnt += 1
                claims.append({"grp": grp, "what": "count", "n": max(x for x, _ in mplan[mname][masked]), "b": 3, "count": cnt})
    # sampled: up to 4 slots from the small domain, up to 8 rows from the larger domain
    nsamp = 800 if quick else 20000
    for s in range(nsamp):
        if s % 4 == 3:       # key-header pairing family: random pairing, header style, column positions
            mname = rnd2.choice(list(MULTI))
            k = len(MULTI[mname]["ktypes"])
            cfg = multi_cfg(MULTI[mname], rnd2.choice(list(itertools.permutations(range(k)))), rnd2.choice(("distinct", "crossed", "partial")))
            masked = rnd2.randint(0, 1)
            big = s % 8 == 3
            dom = (cfg["dom"] + cfg["more"]) if big else cfg["dom"]
            tabs = []
            nms = shuffled_names(cfg, rnd2)
            for side in (0, 1):
                n = rnd2.randint(1, 8) if big else rnd2.randint(3, 4)
                ks = list(range(len(dom)))
                rnd2.shuffle(ks)
                pat = []
                for r in range(n):
                    x = rnd2.random()
                    pat.append("d" if x < 0.25 or not ks and not (masked and x < 0.4) else "m" if masked and x < 0.4 else ks.pop())
                tabs.append(build_table(cfg, side, tuple(pat), masked, rnd2, dom, names=nms[side]))
            add({"kind": "join", "grp": "join-sampled-pairing", "masked": masked, "headers": headers(cfg), "A": tabs[0], "B": tabs[1]})
            continue
        cname = rnd.choice(list(CONFIGS))
        cfg = CONFIGS[cname]
        masked = rnd.randint(0, 1)
        big = s % 2 == 0
        dom = (cfg["dom"] + cfg["more"]) if big else cfg["dom"]
        tabs = []
        for side in (0, 1):
            n = rnd.randint(1, 8) if big else rnd.randint(3, 4)
            ks = list(range(len(dom)))
            rnd.shuffle(ks)
            pat = []
            for r in range(n):
                x = rnd.random()
                if x < 0.25:
                    pat.append("d")
                elif masked and x < 0.4:
                    pat.append("m")
                elif ks:
                    pat.append(ks.pop())
                else:
                    pat.append("d")
            tabs.append(build_table(cfg, side, tuple(pat), masked, rnd, dom, alt=(s % 5 == 0)))
        add({"kind": "join", "grp": "join-sampled", "masked": masked, "headers": headers(cfg), "A": tabs[0], "B": tabs[1]})
    # the compiled (secure) join: the same relational semantics, any protocol randomness; it may abort (hash failure) but
    # must never return a wrong table. Tables with many live rows and large key overlaps, many seeds per table.
    ncomp, nseeds = (6, 40) if quick else (40, 200)
    comp_rnd = random.Random(chk.seed * 31 + 5)
    for s in range(ncomp):
        cname = list(CONFIGS)[s % len(CONFIGS)]
        cfg = CONFIGS[cname]
        masked = s % 2
        dom = cfg["dom"] + cfg["more"]
        tabs = []
        common = list(range(len(dom)))
        comp_rnd.shuffle(common)
        for side in (0, 1):
            n = 8 if s % 3 else 5
            ks = list(common)             # both tables draw their keys from the same order: large intersections
            pat = []
            for r in range(n):
                x = comp_rnd.random()
                if x < 0.1:
                    pat.append("d")
                elif masked and x < 0.2:
                    pat.append("m")
                elif ks:
                    pat.append(ks.pop())
                else:
                    pat.append("d")
            comp_rnd.shuffle(pat)
            tabs.append(build_table(cfg, side, tuple(pat), masked, comp_rnd, dom, alt=False))
        for k in range(nseeds):
            add({"kind": "join", "grp": "join-compiled", "masked": masked, "headers": headers(cfg), "A": tabs[0], "B": tabs[1],
                 "compiled": chk.seed % 1000 + 1000 * s + k})
    # ... and table pairs of the key-header pairing family (pairings other than the identity first)
    mcomp, mseeds = (2, 12) if quick else (12, 100)
    order = sorted(multi_cfgs, key=lambda m: (m[1] == tuple(range(len(m[1]))), m[2] != "crossed"))
    picked = [[m for m in order if m[0] == mname] for mname in MULTI]
    for s in range(mcomp):
        fam = picked[s % len(picked)]
        mname, perm, style, cfg = fam[(s // len(picked)) % len(fam)]
        masked = (s // len(picked) + s) % 2
        dom = cfg["dom"] + cfg["more"]
        common = list(range(len(dom)))
        comp_rnd.shuffle(common)
        tabs = []
        for side in (0, 1):
            ks = list(common)
            pat = []
            for r in range(6):
                x = comp_rnd.random()
                pat.append("d" if x < 0.1 or not ks and not (masked and x < 0.25) else "m" if masked and x < 0.25 else ks.pop())
            comp_rnd.shuffle(pat)
            tabs.append(build_table(cfg, side, tuple(pat), masked, comp_rnd, dom))
        for k in range(mseeds):
            add({"kind": "join", "grp": "join-compiled-pairing", "masked": masked, "headers": headers(cfg), "A": tabs[0], "B": tabs[1],
                 "compiled": chk.seed % 1000 + 1000 * (ncomp + s) + k})
    add({"kind": "claims", "grp": "claims", "claims": claims})

    recs, bad = bc.run_rel(chk, jobs, "join", workers=bc.workers(4 if quick else 8), timeout=1500 if quick else 9000)
    for rec, v in bad:
        job = jobs[rec["id"]]
        if rec["kind"] == "claims":
            raise lib.ToolError("exhaustive group incomplete: %s" % v)
        jt = v["at"] if isinstance(v["at"], str) else v["why"]
        sig = {"join": jt, "masked": rec["masked"], "second_table_first_column": "null" if job["B"][0]["name"] == "null" else "other",
               "why": "outcome" if isinstance(v["at"], str) else "table", "column": None if isinstance(v["at"], str) else v["at"][0],
               "compiled": rec.get("compiled", 0)}
        if sig["compiled"]:
            # position of the null column and of the key columns in the first table decides the compiled column order
            sig["first_table_starts_with_null_then_keys"] = int([c["name"] for c in job["A"]][:1 + len(job["headers"])] ==
                                                                ["null"] + [h[0] for h in job["headers"]])
            sig.pop("second_table_first_column")
        chk.violation(sig, {"cmd": "rel", "jobs_file": chk.path("jobs_join.ndjson"), "job_id": rec["id"], "verdict": v, "job": job, "returned": rec["res"].get(jt)})
    per = {}
    for r in recs:
        if r["kind"] == "join":
            per[r["grp"]] = per.get(r["grp"], 0) + 1
    chk.note("cases_per_group", per)
    chk.note("join_evaluations", 4 * sum(per.values()))
    chk.note("exhaustive_groups", {c["grp"]: c["count"] for c in claims})
    chk.note("failing_records", len(bad))
    chk.exhaustive = True
    for r in recs:
        if r["kind"] == "join" and r["grp"] == "join-sampled" and r["masked"] == 0 and r["A"]["cols"]["null"]["n"] == 3 \
                and "id" in r["A"]["cols"] and r["res"]["Full"]["out"] == "ok":
            chk.sample({"A": {c: r["A"]["cols"][c]["rows"] for c in r["A"]["names"]},
                        "B": {c: r["B"]["cols"][c]["rows"] for c in r["B"]["names"]},
                        "Full": {c: r["res"]["Full"]["cols"][c]["rows"] for c in r["res"]["Full"]["names"]}}, cap=2)
    if not chk.samples:
        r = recs[0]
        chk.sample({"A": {c: r["A"]["cols"][c]["rows"] for c in r["A"]["names"]}, "B": {c: r["B"]["cols"][c]["rows"] for c in r["B"]["names"]},
                    "Left": {c: r["res"]["Left"]["cols"][c]["rows"] for c in r["res"]["Left"]["names"]}})
    chk.assumptions += [
        "row placement is taken from the result type (Inner/Left: row i of the result belongs to row i of the first table; "
        "Union/Full: rows of the first table, then rows of the second), zero rows carry null marker 0",
        "entries without content (mask 0) are returned as zeros with mask 0 ('filled with zeros where no data can be retrieved')",
        "live rows have unique row keys (precondition stated by the documentation); null rows may duplicate keys",
        "the compiled (secure) join is judged by the C01/C02 machinery, not here",
    ]


def replay(path):
    return bc.replay(path)
