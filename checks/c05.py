"""C05  Secure truncation stays within its documented error.

The real compile_context compiles Truncate programs at the exact 8-bit types; TLC runs the three-party runtime
spec/ABY3Run.tla on the compiled graphs: EVERY input value (256 residues per element, the documented range is applied
inside the invariant) x sampled idealised tapes, invariant C05Trunc (floor quotient or +1 for 2^k; within one unit of
the quotient, modulo the documented share wrap-around, for general divisors). Public truncation is exact (mode single,
invariant C01Single against the TLA+ plaintext Truncate).
"""
from . import lib, mpc_common as mc
from .progs import S, A, inp, nd, prog


def jobs(tier):
    js, jid = [], 0
    pow2 = [2, 4, 8, 16, 32, 64]
    general = [3, 5, 6, 7, 10, 100]
    cfgs = [([0], [1], "Simple"), ([2], [0, 2], "Default"), (["sh"], [], "Extreme"), ([1], [], "Simple")]
    if tier == "thorough":
        cfgs += [([1], [2], "Simple"), ([0], [0, 1, 2], "Default"), (["sh"], [1], "Simple")]
    for st in ("i8", "u8"):
        scales = pow2 + (general if st == "i8" else [])
        for scale in scales:
            shapes = [()] if tier == "quick" and scale not in (4, 5) else [(), (2,)]
            for sh in shapes:
                t = S(st) if not sh else A(st, list(sh))
                for ow, outs, mode in (cfgs if scale in (2, 4, 32, 5, 10) or tier == "thorough" else cfgs[:2]):
                    jid += 1
                    js.append({"id": jid, "name": "trunc_%s_%d_%s" % (st, scale, "x".join(map(str, sh)) or "s"), "cls": "x8",
                               "prog": prog([inp(t), nd("Truncate", [1], scale_s=str(scale))]), "owners": ow, "outs": outs, "mode": mode})
        # the truncated value is itself computed from two private inputs
        for scale in (4, 7) if st == "i8" else (8,):
            jid += 1
            js.append({"id": jid, "name": "trunc_sum_%s_%d" % (st, scale), "cls": "x8",
                       "prog": prog([inp(S(st)), inp(S(st)), nd("Add", [1, 2]), nd("Truncate", [3], scale_s=str(scale))]),
                       "owners": [0, 1], "outs": [2], "mode": "Simple"})
    # several truncations in one graph (the compiler distributes truncation keys per graph, not per node): a tuple of a
    # 2^k truncation and a general one, in both orders, of one private value and of two
    for a, b in ((4, 5), (5, 4), (8, 3), (2, 4)):
        for ow, outs, mode in (([0], [1], "Simple"), ([2], [0, 2], "Default")):
            jid += 1
            js.append({"id": jid, "name": "trunc_pair_i8_%d_%d" % (a, b), "cls": "x8", "pair": True,
                       "prog": prog([inp(S("i8")), nd("Truncate", [1], scale_s=str(a)), nd("Truncate", [1], scale_s=str(b)), nd("CreateTuple", [2, 3])]),
                       "owners": ow, "outs": outs, "mode": mode})
    pub = []
    for st in ("i8", "u8"):
        for scale in (2, 3, 16, 100):
            jid += 1
            pub.append({"id": jid, "name": "trunc_public_%s_%d" % (st, scale), "cls": "x8",
                        "prog": prog([inp(S(st)), nd("Truncate", [1], scale_s=str(scale))]), "owners": ["pub"], "outs": [0], "mode": "Simple"})
    return js, pub


BITS = {"u16": 16, "i16": 16, "u32": 32, "i32": 32, "u64": 64, "i64": 64, "u128": 128, "i128": 128}


def limbs(v, w):
    return [(v >> (8 * i)) & 255 for i in range((w + 7) // 8)]


def wide_jobs(tier, seed):
    """Truncate programs at 16..128 bits: boundary and random inputs of the documented range, every k class, general divisors"""
    import random
    rng = random.Random(seed * 7 + 5)
    n = 12 if tier == "quick" else 24
    js, jid = [], 0
    cfgs = [([0], [1], "Simple"), ([2], [0, 2], "Default"), (["sh"], [], "Extreme"), ([1], [], "Simple")]
    for st, w in BITS.items():
        sg = st[0] == "i"
        m = 1 << w
        lo, hi = (-(m // 4), m // 4) if sg else (0, m // 2)
        ks = sorted({1, 2, 3, w // 2 - 1, w // 2, w - 8, w - 3, w - 2}) if tier == "thorough" else sorted({1, 3, w // 2, w - 3, w - 2})
        scales = [(1 << k, True) for k in ks]
        if sg:
            scales += [(d, False) for d in ([3, 10, 1000, (1 << (w // 2)) + 1, 3 << (w - 6)] if tier == "thorough" else [3, 1000, (1 << (w // 2)) + 1])]
        for ci, (scale, pow2) in enumerate(scales):
            for ow, outs, mode in (cfgs if tier == "thorough" else [cfgs[ci % 4], cfgs[(ci + 1) % 4]]):
                vals = {lo, lo + 1, hi - 1, hi - 2, 0, 1, scale - 1, scale, scale + 1, 2 * scale - 1, hi - hi % scale - 1, hi - hi % scale}
                if sg:
                    vals |= {-1, -scale, -scale + 1, -scale - 1, lo - lo % scale, lo - lo % scale + 1}
                vals = [v for v in vals if lo <= v < hi]
                while len(vals) < n:
                    r = rng.random()
                    v = rng.randrange(lo, hi) if r < 0.5 else rng.randrange(max(lo, -(1 << 20)), min(hi, 1 << 20)) if r < 0.8 else rng.randrange(lo // scale, max(lo // scale + 1, hi // scale)) * scale + rng.choice([-1, 0, 1])
                    if lo <= v < hi:
                        vals.append(v)
                rng.shuffle(vals)
                vals = vals[:n]
                jid += 1
                t = A(st, [n])
                js.append({"id": jid, "name": "trunc_%s_%s" % (st, ("2^%d" % (scale.bit_length() - 1)) if pow2 else str(scale)), "family": "trunc",
                           "prog": prog([inp(t), nd("Truncate", [1], scale_s=str(scale))]), "owners": ow, "outs": outs, "mode": mode,
                           "inputs": [[str(v % m) for v in vals]], "seeds": [seed % 1000 + s for s in range(2 if tier == "quick" else 6)], "junk": ["random"],
                           "w": w, "sg": sg, "pow2": pow2, "s": limbs(scale, w), "pre": [limbs(v % m, w) for v in vals]})
        # the truncated value is computed from two private inputs (sum in range)
        if sg or st in ("u64",):
            scale = 1 << (w // 2 + 1)
            a = [rng.randrange(lo // 2, hi // 2) for _ in range(n)]
            b = [rng.randrange(lo // 2, hi // 2) for _ in range(n)]
            jid += 1
            t = A(st, [n])
            js.append({"id": jid, "name": "trunc_sum_%s" % st, "family": "trunc",
                       "prog": prog([inp(t), inp(t), nd("Add", [1, 2]), nd("Truncate", [3], scale_s=str(scale))]), "owners": [0, 1], "outs": [2], "mode": "Simple",
                       "inputs": [[str(v % m) for v in a], [str(v % m) for v in b]], "seeds": [seed % 1000 + s for s in range(2)], "junk": ["random"],
                       "w": w, "sg": sg, "pow2": True, "s": limbs(scale, w), "pre": [limbs((x + y) % m, w) for x, y in zip(a, b)]})
    return js


def wide_phase(chk):
    """C05 at 16..128 bits: the compiled Truncate graphs run as three parties (and on one store) on the real evaluator;
    TLC (spec/Trunc3Trace.tla, relation TruncLimb!ElemOK, proved equal to ABY3Run!TruncOutcomeOK at width 8 by
    spec/Trunc3Lemma.tla) judges every recorded outcome."""
    res = lib.tlc("Trunc3Lemma", "MC_Trunc3Lemma%s.cfg" % ("_thorough" if chk.tier == "thorough" else ""), workers=8, timeout=3000)
    chk.add_tlc(res, "trunc_limb_lemma")
    if not res.ok:
        if res.violated:
            raise lib.ToolError("Trunc3Lemma: the limb relation differs from ABY3Run!TruncOutcomeOK:\n" + res.trace[-1500:])
        raise lib.ToolError("Trunc3Lemma did not complete: %s" % res.error)
    js = wide_jobs(chk.tier, chk.seed)
    jp, op, tp = chk.path("wide.jobs.ndjson"), chk.path("wide.run3.ndjson"), chk.path("wide.trace.ndjson")
    lib.write_ndjson(jp, [{k: j[k] for k in ("id", "name", "family", "prog", "owners", "outs", "mode", "inputs", "seeds", "junk")} for j in js])
    p = lib.harness(["run3", jp, op], timeout=3000)
    failed = [l for l in p.stderr.splitlines() if l.startswith("job ")]
    byid = {j["id"]: j for j in js}
    recs = lib.read_ndjson(op)
    for l in failed:
        # every job is inside the documented domain: a compilation or evaluation error is an outcome of the code
        jid = int(l.split()[1].rstrip(":"))
        j = byid[jid]
        chk.violation({"phase": "wide-truncate", "st_bits": j["w"], "signed": j["sg"], "pow2": j["pow2"], "why": "error"},
                      {"job": {k: j[k] for k in ("id", "name", "prog", "owners", "outs", "mode", "inputs")}, "harness": l})
    if not recs:
        raise lib.ToolError("run3 produced no records for the wide truncation phase: " + " | ".join(failed[:3]))
    trace = []
    for r in recs:
        j = byid[r["id"]]
        trace.append({"id": r["id"], "outs": r["outs"], "ok": r["ok"], "out": r["out"], "single_ok": r["single_ok"], "single": r["single"],
                      "w": j["w"], "sg": j["sg"], "pow2": j["pow2"], "s": j["s"], "pre": j["pre"]})
    lib.write_ndjson(tp, trace)
    res = lib.tlc("Trunc3Trace", "MC_Trunc3Trace.cfg", env={"TRACE": tp}, workers=8, timeout=2400, coverage=False)
    chk.add_tlc(res, "trunc_wide")
    if not res.ok:
        raise lib.ToolError("Trunc3Trace did not complete: %s" % res.error)
    import re
    seen = set()
    for l in res.printed:
        mm = re.match(r'<<"BAD([13])", (\d+)>>', l)
        if not mm:
            continue
        r = recs[int(mm.group(2)) - 1]
        j = byid[r["id"]]
        key = (mm.group(1), j["name"], tuple(map(str, j["owners"])), tuple(j["outs"]))
        if key in seen:
            continue
        seen.add(key)
        chk.violation({"phase": "wide-truncate", "store": "three" if mm.group(1) == "3" else "single", "st_bits": j["w"], "signed": j["sg"], "pow2": j["pow2"], "why": "outcome"},
                      {"job": {k: j[k] for k in ("id", "name", "prog", "owners", "outs", "mode", "inputs", "w", "sg", "pow2")},
                       "seed": r["seed"], "junk": r["junk"], "pre": j["pre"], "out": r["out"], "ok": r["ok"], "single": r["single"], "scale_limbs": j["s"]})
    chk.traces += len(recs)
    chk.note("wide_truncate_runs", len(recs))
    chk.note("wide_truncate_programs", len(js))
    chk.note("wide_truncate_elements", sum(len(byid[r["id"]]["pre"]) for r in recs))
    if js:
        chk.sample({"wide_truncate_job": {k: js[0][k] for k in ("name", "owners", "outs", "mode", "w", "sg", "pow2")}, "inputs": js[0]["inputs"][0][:4]})


def run(chk):
    tier = chk.tier
    js, pub = jobs(tier)
    recs, failed = mc.compile_jobs(chk, js + pub)
    chk.note("programs_compiled", len(recs))
    chk.note("rejected_by_compiler", failed[:20])     # e.g. general divisors of unsigned types are documented as unsupported
    chk.traces += len(recs)
    recs, illtyped = mc.typecheck(chk, recs)
    for b, detail in illtyped:
        chk.violation(dict(mc.describe(b), invariant="WellTyped"), {"job": b["name"], "tlc": detail})
    pubids = {j["id"] for j in pub}
    priv = [r for r in recs if r["id"] not in pubids]
    pubr = [r for r in recs if r["id"] in pubids]
    runs = 6 if tier == "quick" else 40
    def is_scalar(r):
        ins = [n for n in r["src"] if n["op"] == "Input"]
        return len(ins) == 1 and ins[0]["ty"]["k"] == "s"
    pairids = {j["id"] for j in js if j.get("pair")}
    pairs = [r for r in priv if r["id"] in pairids]
    priv = [r for r in priv if r["id"] not in pairids]
    groups = [
        ([r for r in priv if is_scalar(r)], "three", "C05Trunc", "trunc3_scalar", True, runs),
        (pairs, "three", "C05Tuple", "trunc3_pairs", True, runs),
        ([r for r in priv if not is_scalar(r)], "three", "C05Trunc", "trunc3_array", False, 60 if tier == "quick" else 2000),
        (pubr, "three", "C02Three", "public3", True, 1),
        (pubr, "single", "C01Single", "public1", True, 1),
    ]
    for rs, mode, inv, tag, exhaust, nruns in groups:
        rs = list(rs)
        rounds = 0
        chk.count("programs_" + tag, len(rs))
        while rs and rounds < 6:
            rounds += 1
            ok, res, bad = mc.run_aby3(chk, rs, mode, 8, tag, sample_runs=nruns, invariant=inv, exhaust_inputs=exhaust,
                                       timeout=1500 if tier == "quick" else 12000)
            if ok:
                break
            if bad is None:
                raise lib.ToolError("violation without program index:\n" + res.trace[:2000])
            chk.violation(dict(mc.describe(bad), invariant=res.violated),
                          {"job": {k: bad[k] for k in ("id", "name", "owners", "outs", "mode")}, "x": mc.last_state(res.trace, "x"),
                           "tlc": res.trace[-5000:]})
            rs = [r for r in rs if r is not bad]
    # --- plaintext / public truncation at every width: the TLA+ reference semantics of Truncate (CCOps, exact on limbs)
    # judges the real evaluator on the Truncate cases of the C10 enumeration (all 11 scalar types, negative values,
    # power-of-two and general scales up to 2^127): "truncation of public (unshared) values is exact"
    from . import ops_common as oc
    import json as _json
    files, fams, _ = oc.enumerate_cases(chk, "MC_OpsCases_v_%s.cfg" % tier, chk.path("opcases_"))
    tfiles = [f for f in files if any('"op":"Truncate"' in l.replace(" ", "") for l in open(f))]
    if tfiles:
        vals = chk.path("trunc_vals.ndjson")
        lib.harness(["eval", vals, chk.seed, {"quick": 3, "thorough": 12}[tier]] + tfiles, binary="ops", timeout=3000)
        trecs = [r for r in lib.read_ndjson(vals) if r["rec"]["op"] == "Truncate"]
        lib.write_ndjson(vals, trecs)
        if trecs:
            bad, _res = oc.judge(chk, vals, "plain_truncate")
            chk.traces += len(trecs)
            chk.note("plaintext_truncate_cases", len(trecs))
            seen = set()
            for r in trecs:
                if r["id"] in bad and (r["st"], r.get("mode")) not in seen:
                    seen.add((r["st"], r.get("mode")))
                    chk.violation({"phase": "plaintext-truncate", "st": r["st"]},
                                  {"case": {k: r[k] for k in ("id", "rec", "ats", "ty", "mode")}, "argument_values": r.get("exact"),
                                   "observed": {"res": r["res"], "out": r["out"]}})
    wide_phase(chk)
    for r in recs[:4]:
        chk.sample(dict(mc.describe(r), mpc_nodes=len(r["mpc"]), prf_nodes=sum(1 for n in r["mpc"] if n["op"] == "PRF")))
    chk.note("rule", "scalar programs: every residue of the input is explored (ExhaustInputs) with %d sampled idealised tapes per input; array programs: inputs and tapes sampled" % runs)
    chk.assumptions += ["TLC interprets the compiled graphs at the exact 8-bit types only (32-bit integers); at 16..128 bits the compiled graphs are executed by the three-party executor on the real evaluator and TLC judges the recorded outcomes on limbs (Trunc3Trace)",
                        "for general divisors the documented wrap-around of the additive shares (k = +-1) is accepted as an outcome; its probability is not measured"]
