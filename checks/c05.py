"""C05  Secure truncation stays within its documented error.

The real compile_context compiles Truncate programs at the exact 8-bit types; TLC runs the three-party runtime
spec/ABY3Run.tla on the compiled graphs: EVERY input value (256 residues per element, the documented range is applied
inside the invariant) x sampled idealised tapes, invariant C05Trunc (floor quotient or +1 for 2^k; within one unit of
the quotient, modulo the documented share wrap-around, for general divisors). Public truncation is exact (mode single,
invariant C01Single against the TLA+ plaintext Truncate).
"""
from . import lib, mpc_common as mc
from .progs import S, A, inp, nd, prog


def jobs(tier):
    js, jid = [], 0
    pow2 = [2, 4, 8, 16, 32, 64]
    general = [3, 5, 6, 7, 10, 100]
    cfgs = [([0], [1], "Simple"), ([2], [0, 2], "Default"), (["sh"], [], "Extreme"), ([1], [], "Simple")]
    if tier == "thorough":
        cfgs += [([1], [2], "Simple"), ([0], [0, 1, 2], "Default"), (["sh"], [1], "Simple")]
    for st in ("i8", "u8"):
        scales = pow2 + (general if st == "i8" else [])
        for scale in scales:
            shapes = [()] if tier == "quick" and scale not in (4, 5) else [(), (2,)]
            for sh in shapes:
                t = S(st) if not sh else A(st, list(sh))
                for ow, outs, mode in (cfgs if scale in (2, 4, 32, 5, 10) or tier == "thorough" else cfgs[:2]):
                    jid += 1
                    js.append({"id": jid, "name": "trunc_%s_%d_%s" % (st, scale, "x".join(map(str, sh)) or "s"), "cls": "x8",
                               "prog": prog([inp(t), nd("Truncate", [1], scale_s=str(scale))]), "owners": ow, "outs": outs, "mode": mode})
        # the truncated value is itself computed from two private inputs
        for scale in (4, 7) if st == "i8" else (8,):
            jid += 1
            js.append({"id": jid, "name": "trunc_sum_%s_%d" % (st, scale), "cls": "x8",
                       "prog": prog([inp(S(st)), inp(S(st)), nd("Add", [1, 2]), nd("Truncate", [3], scale_s=str(scale))]),
                       "owners": [0, 1], "outs": [2], "mode": "Simple"})
    # several truncations in one graph (the compiler distributes truncation keys per graph, not per node): a tuple of a
    # 2^k truncation and a general one, in both orders, of one private value and of two
    for a, b in ((4, 5), (5, 4), (8, 3), (2, 4)):
        for ow, outs, mode in (([0], [1], "Simple"), ([2], [0, 2], "Default")):
            jid += 1
            js.append({"id": jid, "name": "trunc_pair_i8_%d_%d" % (a, b), "cls": "x8", "pair": True,
                       "prog": prog([inp(S("i8")), nd("Truncate", [1], scale_s=str(a)), nd("Truncate", [1], scale_s=str(b)), nd("CreateTuple", [2, 3])]),
                       "owners": ow, "outs": outs, "mode": mode})
    pub = []
    for st in ("i8", "u8"):
        for scale in (2, 3, 16, 100):
            jid += 1
            pub.append({"id": jid, "name": "trunc_public_%s_%d" % (st, scale), "cls": "x8",
                        "prog": prog([inp(S(st)), nd("Truncate", [1], scale_s=str(scale))]), "owners": ["pub"], "outs": [0], "mode": "Simple"})
    return js, pub


def run(chk):
    tier = chk.tier
    js, pub = jobs(tier)
    recs, failed = mc.compile_jobs(chk, js + pub)
    chk.note("programs_compiled", len(recs))
    chk.note("rejected_by_compiler", failed[:20])     # e.g. general divisors of unsigned types are documented as unsupported
    chk.traces += len(recs)
    recs, illtyped = mc.typecheck(chk, recs)
    for b, detail in illtyped:
        chk.violation(dict(mc.describe(b), invariant="WellTyped"), {"job": b["name"], "tlc": detail})
    pubids = {j["id"] for j in pub}
    priv = [r for r in recs if r["id"] not in pubids]
    pubr = [r for r in recs if r["id"] in pubids]
    runs = 6 if tier == "quick" else 40
    def is_scalar(r):
        ins = [n for n in r["src"] if n["op"] == "Input"]
        return len(ins) == 1 and ins[0]["ty"]["k"] == "s"
    pairids = {j["id"] for j in js if j.get("pair")}
    pairs = [r for r in priv if r["id"] in pairids]
    priv = [r for r in priv if r["id"] not in pairids]
    groups = [
        ([r for r in priv if is_scalar(r)], "three", "C05Trunc", "trunc3_scalar", True, runs),
        (pairs, "three", "C05Tuple", "trunc3_pairs", True, runs),
        ([r for r in priv if not is_scalar(r)], "three", "C05Trunc", "trunc3_array", False, 60 if tier == "quick" else 2000),
        (pubr, "three", "C02Three", "public3", True, 1),
        (pubr, "single", "C01Single", "public1", True, 1),
    ]
    for rs, mode, inv, tag, exhaust, nruns in groups:
        rs = list(rs)
        rounds = 0
        chk.count("programs_" + tag, len(rs))
        while rs and rounds < 6:
            rounds += 1
            ok, res, bad = mc.run_aby3(chk, rs, mode, 8, tag, sample_runs=nruns, invariant=inv, exhaust_inputs=exhaust,
                                       timeout=1500 if tier == "quick" else 12000)
            if ok:
                break
            if bad is None:
                raise lib.ToolError("violation without program index:\n" + res.trace[:2000])
            chk.violation(dict(mc.describe(bad), invariant=res.violated),
                          {"job": {k: bad[k] for k in ("id", "name", "owners", "outs", "mode")}, "x": mc.last_state(res.trace, "x"),
                           "tlc": res.trace[-5000:]})
            rs = [r for r in rs if r is not bad]
    # --- plaintext / public truncation at every width: the TLA+ reference semantics of Truncate (CCOps, exact on limbs)
    # judges the real evaluator on the Truncate cases of the C10 enumeration (all 11 scalar types, negative values,
    # power-of-two and general scales up to 2^127): "truncation of public (unshared) values is exact"
    from . import ops_common as oc
    import json as _json
    files, fams, _ = oc.enumerate_cases(chk, "MC_OpsCases_v_%s.cfg" % tier, chk.path("opcases_"))
    tfiles = [f for f in files if any('"op":"Truncate"' in l.replace(" ", "") for l in open(f))]
    if tfiles:
        vals = chk.path("trunc_vals.ndjson")
        lib.harness(["eval", vals, chk.seed, {"quick": 3, "thorough": 12}[tier]] + tfiles, binary="ops", timeout=3000)
        trecs = [r for r in lib.read_ndjson(vals) if r["rec"]["op"] == "Truncate"]
        lib.write_ndjson(vals, trecs)
        if trecs:
            bad, _res = oc.judge(chk, vals, "plain_truncate")
            chk.traces += len(trecs)
            chk.note("plaintext_truncate_cases", len(trecs))
            seen = set()
            for r in trecs:
                if r["id"] in bad and (r["st"], r.get("mode")) not in seen:
                    seen.add((r["st"], r.get("mode")))
                    chk.violation({"phase": "plaintext-truncate", "st": r["st"]},
                                  {"case": {k: r[k] for k in ("id", "rec", "ats", "ty", "mode")}, "argument_values": r.get("exact"),
                                   "observed": {"res": r["res"], "out": r["out"]}})
    for r in recs[:4]:
        chk.sample(dict(mc.describe(r), mpc_nodes=len(r["mpc"]), prf_nodes=sum(1 for n in r["mpc"] if n["op"] == "PRF")))
    chk.note("rule", "scalar programs: every residue of the input is explored (ExhaustInputs) with %d sampled idealised tapes per input; array programs: inputs and tapes sampled" % runs)
    chk.assumptions += ["exact 8-bit types only; wider types share the protocol code but are not interpreted by TLC (32-bit integers)",
                        "for general divisors the documented wrap-around of the additive shares (k = +-1) is accepted as an outcome; its probability is not measured"]
