"""C04  Every pseudo-random mask is fresh: no PRF input reused, no randomness merged.

(a) stage invariants of the real compilation pipeline, recorded by the stage tracer hook: counters pairwise distinct after
uniquify_prf_id and in the final graph, uniquify neither drops nor adds PRF nodes, one graph after inlining, final counters are
a subset of the uniquified ones; (b) the optimiser contract OptContract!Fresh on the final optimisation step of those compilations
and on generated graphs with Random / PRF nodes: no randomising / PRF node becomes a constant or anything else, none merged, none
duplicated, dropped only when dead. All judged by TLC.
"""
from . import lib, optgen, progs, opt_common as oc

INVS = ["InvAccepted", "InvFresh", "InvStages"]


def extra_programs(tier="quick"):
    """sources whose compilation requests several masks from one key or inlines a body many times"""
    from .progs import S, A, inp, nd, prog
    i32, i8 = S("i32"), S("i8")
    ps = [
        ("mixmul_chain", prog([inp(S("i64")), inp(S("b")), inp(S("b")), nd("MixedMultiply", [1, 2]), nd("MixedMultiply", [4, 3])]), 3),
        ("trunc_pow2", prog([inp(i32), inp(i32), nd("Multiply", [1, 2]), nd("Truncate", [3], scale_s="8")]), 2),
        ("trunc_general", prog([inp(i32), inp(i32), nd("Multiply", [1, 2]), nd("Truncate", [3], scale_s="10")]), 2),
        ("a2b_b2a", prog([inp(i8), inp(i8), nd("Add", [1, 2]), nd("A2B", [3]), nd("B2A", [4], st="i8"), nd("Multiply", [5, 1])]), 2),
        ("permute", prog([inp(A("i32", [3])), inp(A("u64", [3])), nd("ApplyPermutation", [1, 2], inv=False)]), 2),
        ("sort", prog([inp(A("b", [3, 2])), inp(A("i32", [3])), nd("CreateNamedTuple", [1, 2], nm=["k", "v"]), nd("Sort", [3], key="k")]), 2),
    ]
    # an Iterate whose body multiplies private values: inlined several times in the depth-optimised modes
    body = {"nodes": [inp({"k": "t", "el": []}), inp(S("i32")), nd("Multiply", [2, 2]), nd("CreateTuple", [1, 3])], "out": 4}
    main = {"nodes": [inp(A("i32", [3])), nd("ArrayToVector", [1]), nd("CreateTuple", []), {"op": "Iterate", "deps": [3, 2], "gdeps": [1]},
                      nd("TupleGet", [4], i=1), nd("VectorToArray", [5])], "out": 6}
    ps.append(("iterate_mul", {"graphs": [body, main], "main": 2}, 1))
    # graphs with randomness of their own that are inlined more than once: a called graph with a Random node (the source
    # side), two private joins (their protocol graphs draw random permutations), two sorts
    callee = {"nodes": [inp(i32), nd("Random", [], t=i32), nd("Add", [1, 2])], "out": 3}
    main = {"nodes": [inp(i32), {"op": "Call", "deps": [1], "gdeps": [1]}, {"op": "Call", "deps": [2], "gdeps": [1]}, nd("Add", [2, 3])], "out": 4}
    ps.append(("call_random_twice", {"graphs": [callee, main], "main": 2}, 1))
    from . import wide3
    import random as _r
    rng = _r.Random(5)
    ta, _ = wide3.table(rng, 3, "u8", "pa", list(range(1, 9)))
    tb, _ = wide3.table(rng, 2, "u8", "pb", list(range(1, 9)))
    tc, _ = wide3.table(rng, 2, "u8", "pc", list(range(1, 9)))
    # (two private joins are ~27 MB of exported graphs: TLC needs minutes only to read them -> thorough tier)
    if tier == "thorough":
        ps.append(("join_twice", prog([inp(ta), inp(tb), inp(tc), nd("Join", [1, 2], jt="Inner", hd=[["k", "k"]]), nd("Join", [4, 3], jt="Inner", hd=[["k", "k"]])]), 3))
    ps.append(("sort_twice", prog([inp(A("b", [3, 2])), inp(A("i32", [3])), nd("CreateNamedTuple", [1, 2], nm=["k", "v"]), nd("Sort", [3], key="k"),
                                   nd("NamedTupleGet", [4], key="v"), nd("CreateNamedTuple", [1, 5], nm=["k", "v"]), nd("Sort", [6], key="k")]), 2))
    return ps


def run(chk):
    tier = chk.tier
    comp = oc.compile_cases(tier, chk.seed)
    k = len(comp)
    import itertools
    for name, p, n in extra_programs(tier):
        for ow, outs, mode in [([0, 1, 2][:n], [0], "Simple"), ([1] * n, [2, 0], "Default"), ([0, 1, 2][:n][::-1], [], "Extreme")][:1 if name == "join_twice" else 3]:
            k += 1
            comp.append({"id": 100000 + k, "name": "compile:" + name, "prog": p, "owners": ow, "outs": outs, "mode": mode, "seed": chk.seed})
    # (0) trace validation of the stage events recorded inside the real compile_context against spec/Pipeline.tla:
    #     stages occur in the pipeline's order, none missing, every pass contract holds (uniquify after the last inlining,
    #     counters distinct, final counters a subset, interface kept, ...)
    import re as _re
    jp, tp = chk.path("stage.jobs.ndjson"), chk.path("stage.trace.ndjson")
    # (the two-join context has ~1 000 instantiated graphs: the call-structure count of Pipeline!InlinedCount overflowed TLC's
    #  stack in one environment; its stages are judged by OptContract!InvStages below instead)
    pending = [j for j in comp if not j["name"].endswith("join_twice")]
    rounds = 0
    while pending and rounds < 6:
        rounds += 1
        lib.write_ndjson(jp, pending)
        lib.harness(["stage-trace", jp, tp], timeout=3000)
        trace = lib.read_ndjson(tp)
        res = lib.tlc("PipelineTrace", "MC_PipelineTrace.cfg", env={"TRACE": tp}, workers=1, deque=True, timeout=1500, coverage=False, xss="1g")
        chk.add_tlc(res, "pipeline_trace")
        if rounds == 1:
            chk.note("stage_events_validated", len(trace))
            chk.traces += sum(1 for r in trace if r["ev"] == "begin")
        if res.ok:
            break
        um = [l for l in res.printed if l.startswith('<<"UNMATCHED"')]
        m = _re.match(r'<<"UNMATCHED", (\d+),', um[0]) if um else None
        if not m:
            raise lib.ToolError("PipelineTrace rejected the trace without naming the event:\n" + res.trace[:1500])
        pos = int(m.group(1))
        jobid = [r["job"] for r in trace[:pos] if r["ev"] == "begin"][-1]
        job = [j for j in pending if j["id"] == jobid][0]
        chk.violation({"phase": "pipeline-trace", "case": job["name"], "owners": job["owners"], "outs": job["outs"], "mode": job["mode"],
                       "event": trace[pos - 1]["ev"]},
                      {"job": job, "unmatched_event": trace[pos - 1], "previous_event": trace[pos - 2] if pos >= 2 else None})
        pending = [j for j in pending if j["id"] != jobid]
    recs = oc.run_cases(chk, comp, "pipeline", INVS)
    ok = [r for r in recs if r["res"] == "ok"]
    chk.traces += len(ok)
    chk.note("pipeline_prf_nodes_total", sum(len(r["before_prf"]["prf"]) for r in ok))
    chk.note("pipeline_failed_to_compile", [r.get("msg", "")[:120] for r in recs if r["res"] != "ok"][:10])
    gen = [c for c in optgen.cases(tier, chk.seed)]
    recs2 = oc.run_cases(chk, gen, "gen", INVS)
    with_rand = [r for r in recs2 if r["res"] == "ok" and (r["before_prf"]["prf"] or r["before_prf"]["rnd"])]
    chk.traces += len(with_rand)
    chk.note("generated_graphs_with_randomness", len(with_rand))
    for r in ok[:3] + with_rand[:2]:
        chk.sample({"id": r["id"], "prf_before": r["before_prf"]["prf"][:6], "prf_after": r["after_prf"]["prf"][:6]})
    chk.assumptions += ["stage contexts are those recorded by the verif-hooks stage tracer inside compile_context"]
