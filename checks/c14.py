"""C14  Secret sharing reconstructs, with the documented per-party layout.

1. TLC on spec/Sharing.tla: exhaustive small models over Z_2, Z_4, Z_8 (scalars, small arrays, vector,
   named tuple, one nested container): every (secret, r0, r1) reconstructs; any two parties reconstruct
   whatever the junk; for every party the map (r0, r1) -> its two genuine slots is a bijection for every
   secret, i.e. the bag of single-party views is the same (uniform) for every secret -- decided exactly.
2. `values c14` runs the real code (TypedValue::secret_share / get_local_shares_for_each_party /
   secret_share_reveal, ReplicatedShares::secret_share_for_local_evaluation / secret_share_for_parties /
   reveal / from_tuple, mpc::utils::share_vector, get_evaluator_result) over all 11 scalar types x shapes x
   nested types x boundary secrets x seeds and records shares, party tuples and revealed values as limb trees;
   a shape sweep (leaf types by byte length: every residue modulo 8 after 0, 1, 2, ... whole 64-bit words, bit arrays
   byte-aligned and not, up to rank 7, long leaves inside containers; thorough: every bit length 1..300) and the
   re-typing path of get_evaluator_result (a plain input declared with type dt offered for a (gt,gt,gt) graph input,
   for all ordered pairs of the layout classes 1..320 bits and containers of them: the triple handed to the graph and
   the revealed output must be the input re-read as a gt -- spec/Sharing.tla Reinterp / SameLayout).
3. TLC on spec/SharingTrace.tla judges every record with multi-limb arithmetic (B2).
"""
import json
from . import lib
from .c13 import judge, bad_records


def _sig(rec, facets):
    return {"record": "retyped_plain_input" if rec.get("kind") == "ly" else "sharing", "type": json.dumps(rec["t"], sort_keys=True), "facets": facets}


def _replay(rec, facets):
    first = rec["seeds"][0]
    if rec.get("kind") == "ly":
        bad = [rn for rn in first["runs"] if rn["api"] != "ger" or rn["reveal"] != rn["secret"] or rn["dt"] != rec["t"]]
        return {"graph_input_type": ["t", [rec["t"]] * 3], "failing_facets": facets,
                "first_runs_with_another_declared_type": [{k: rn[k] for k in ("api", "dt", "secret", "shares", "reveal")} for rn in bad[:3]],
                "how": "graph: i = input(tuple(gt,gt,gt)); output i.  get_evaluator_result(context, [TypedValue::new(dt, secret)], "
                       "reveal_output = false / true, SimpleEvaluator): the triple must sum (in the rings of gt) to the secret "
                       "re-read as a gt (spec/Sharing.tla Reinterp)"}
    return {"type": rec["t"], "failing_facets": facets, "seeds": [s["seed"] for s in rec["seeds"]],
            "first_seed_runs": first["runs"][:3],
            "how": "PRNG::new(Some(seed)); TypedValue::new(type, secret).secret_share(&mut prng) / "
                   "get_local_shares_for_each_party / secret_share_reveal; compare with spec/Sharing.tla"}


def run(chk):
    tier = chk.tier
    cfg = "MC_Sharing.cfg" if tier == "quick" else "MC_Sharing_thorough.cfg"
    r1 = lib.tlc("Sharing", cfg, workers=4 if tier == "quick" else 8, timeout=600 if tier == "quick" else 7200)
    chk.add_tlc(r1, "Sharing")
    if not r1.ok:
        # the abstract scheme itself fails: a specification error, not a finding about the code
        raise lib.ToolError("small model of the sharing scheme violated %s:\n%s" % (r1.violated, r1.trace[:2000]))
    chk.note("small_model_states", r1.distinct)
    chk.note("small_models", "Z_2, Z_4, Z_8 scalars; arrays [2],[3]; vector; named tuple; nested tuple(scalar, array)"
             + ("; Z_8 array [2], Z_4 nested" if tier != "quick" else ""))
    nseeds = 6 if tier == "quick" else 64
    lib.harness(["c14", chk.path("trace.ndjson"), chk.seed, nseeds] + (["full"] if tier != "quick" else []),
                binary="values", timeout=3000)
    recs = lib.read_ndjson(chk.path("trace.ndjson"))
    apis = {}
    for r in recs:
        for s in r["seeds"]:
            for rn in s["runs"]:
                apis[rn["api"]] = apis.get(rn["api"], 0) + 1
    chk.note("runs_by_api", apis)
    chk.note("types", len([r for r in recs if r["kind"] == "sh"]))
    chk.note("retyped_plain_input_records", len([r for r in recs if r["kind"] == "ly"]))
    chk.note("retyped_plain_input_pairs", len({(json.dumps(rn["dt"], sort_keys=True), json.dumps(r["t"], sort_keys=True))
                                               for r in recs for rn in r["seeds"][0]["runs"] if "dt" in rn and rn["dt"] != r["t"]}))
    blens = sorted({r["bits"] for r in recs if r["t"]["k"] == "a" and r["t"]["st"] == "b"})
    chk.note("bit_array_sizes", "%d sizes, %d..%d bits, %d not byte-aligned, %d beyond one 64-bit word and not word-aligned" % (
        len(blens), blens[0], blens[-1], len([b for b in blens if b % 8]), len([b for b in blens if b > 64 and ((b + 7) // 8) % 8])))
    chk.note("seeds_per_type", "%d (catalogue), %d (shape sweep)" % (nseeds, 2 if tier == "quick" else 3))
    sv_err = sorted({json.dumps(r["t"], sort_keys=True) for r in recs for s in r["seeds"] for rn in s["runs"] if rn["api"] == "sv-err"})
    chk.note("share_vector_returned_Err_for", sv_err if len(sv_err) <= 6 else sv_err[:6] + ["... %d types in all" % len(sv_err)])
    res, bad = judge(chk, "SharingTrace", "MC_SharingTrace.cfg", recs, "trace.ndjson", _sig, _replay,
                     timeout=1500 if tier == "quick" else 7200)
    chk.traces += sum(apis.values()) - len(recs)
    for r in [r for r in recs if r["kind"] == "ly" and r["t"]["k"] == "a" and r["t"]["st"] == "b" and r["bits"] == 32][:1]:
        for rn in [rn for rn in r["seeds"][0]["runs"] if rn["dt"] == {"k": "s", "st": "i32"}][:1]:
            chk.sample({"graph_type": r["t"], "declared_type": rn["dt"], "api": rn["api"], "secret": rn["secret"],
                        "shares": rn["shares"], "reveal": rn["reveal"]})
    chk.note("records_rejected", len(bad))
    for r in recs[:40:9]:
        rn = r["seeds"][0]["runs"][1]
        chk.sample({"type": r["t"], "api": rn["api"], "secret": rn["secret"], "shares": rn["shares"], "reveal": rn["reveal"]})
    chk.note("binding_demonstrated", "corrupted records (share limb, reveal, junk = share, junk depending on secret) and a code mutation in a scratch copy (party 1 receives share 0 instead of junk) were rejected by SharingTrace, 2026-09-23")
    chk.exhaustive = False
    chk.assumptions += [
        "uniformity of a single party's view is decided exactly in the small models (bijection (r0,r1) -> view for every "
        "secret); on the code its observable deterministic consequences are checked: with the same seed another secret "
        "yields the same r0, r1 and the same junk (the masks are drawn before the secret is used, typed_value.rs:844-853), "
        "shares are in-domain outputs of the generator whose quality is C15's subject",
        "junk_is_not_the_share is required only where a coincidence has probability < 2^-40 (or is impossible: party 0)",
        "get_evaluator_result draws its masks from an unseeded generator: for it reconstruction (of the triple the graph "
        "receives and of the revealed output) is judged, not the order of the draws; a declared type is only offered when "
        "every leaf has exactly the bit size of the graph's leaf (the documented use)",
        "share_vector returns Err for bit arrays longer than 1 (it draws one byte per element); an Err is not a wrong "
        "sharing and is only counted",
        "the CLI ciphercore_split_parties is not executed (it uses an unseeded generator); its sharing logic is the "
        "call TypedValue::get_local_shares_for_each_party, which is covered",
    ]


def replay(path):
    print("re-run `bin/check C14` with the VERIF_SEED of the evidence file; the replay file holds seeds, type and secrets")
    return 2
