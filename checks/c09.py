"""C09  Type inference is sound for evaluation; well-typed programs never crash.

Spec: spec/CCTyping.tla (OpType, transcribed from the typing rules).  On the specification itself TLC checks
OpType # Err => HasType(OpEval(args), OpType) for every enumerated accepted case (invariant Sound of OpsCases).
On the code, with TLC (spec/OpsTrace.tla) as the judge of every record:
 (i)   acceptance: TLC enumerates (operation, parameters, argument types) - shapes of rank <= 3 over {1,2,3}, scalar
       types {b,u8,i8,u64,i128}, containers, wrong kinds, wrong arity, invalid types - with the predicted type or Err;
       the harness calls the real add_node; the recorded Ok(type)/Err must equal OpType;
 (ii)  seeded random programs (<= 12 operation nodes, all 11 scalar types): every add_node attempt is judged like
       (i); every node value produced by SimpleEvaluator::evaluate_node must satisfy the real check_type and the byte
       layout CCValues!HasType prescribes for the node's type (leaf byte lengths and container arities are logged);
 (iii) whole-graph evaluation (Evaluator::evaluate_graph, modelled by spec/EvalGraph.tla whose invariants TLC checks on
       every DAG of <= 5 nodes and every output choice): on every random program, with the output set to the last node or
       to any node, evaluate_graph must return the node-by-node value of the output (same inputs, same PRNG seed), or a
       runtime error iff some node failed;
 (iv)  outcome of every evaluation is a value or a runtime error of an operation that may fail (indices,
       permutations, assertions); a panic anywhere (add_node, evaluate_node, check_type) is a violation.
"""
import json, os
from collections import Counter
from . import lib, ops_common as oc

PROGRAMS = {"quick": 1500, "thorough": 30000}
DEPTH = 12


def run(chk):
    tier = chk.tier
    prefix = chk.path("cases_")
    files, fams, _ = oc.enumerate_cases(chk, "MC_OpsCases_t_%s.cfg" % tier, prefix)
    chk.note("enumerated_cases_per_operation", {k: {"cases": v[0], "accepted_by_OpType": v[1]} for k, v in sorted(fams.items())})
    types = chk.path("types.ndjson")
    lib.harness(["types", types] + files, binary="ops", timeout=3000)
    fuzz = chk.path("fuzz.ndjson")
    p = lib.harness(["fuzz", fuzz, chk.seed, PROGRAMS[tier], DEPTH], binary="ops", timeout=3000)
    chk.note("random_programs", {"programs": PROGRAMS[tier], "max_operation_nodes": DEPTH, "summary": p.stderr.strip().splitlines()[-1:]})
    # one-node evaluations of every accepted enumerated case: only crashes / ill-typed results are forwarded here
    # (TLC rejects them unconditionally); their values are the subject of C10
    ev = chk.path("eval.ndjson")
    oc.eval_parallel(chk, ev, chk.seed, 2, files)
    nev = 0
    crashes = []
    for r in lib.read_ndjson(ev):
        nev += 1
        if r["res"] in ("panic", "illtyped"):
            crashes.append({"kind": "panic", "id": "eval:" + r["id"], "op": r["rec"]["op"], "rec": r["rec"], "ats": r["ats"],
                            "msg": r.get("msg", ""), "loc": r.get("loc", r["res"])})
    chk.note("one_node_evaluations", nev)
    # design model of whole-graph evaluation (value release after the last consumer): every DAG of <= N nodes, every output
    res = lib.tlc("EvalGraph", "MC_EvalGraph_%s.cfg" % tier, workers=4, timeout=1500)
    chk.add_tlc(res, "EvalGraph")
    if not res.ok:
        chk.violation({"class": "design model of evaluate_graph", "invariant": res.violated}, {"tlc": res.trace[-3000:]})
    trace = chk.path("trace.ndjson")
    recs = lib.read_ndjson(types) + lib.read_ndjson(fuzz) + crashes
    lib.write_ndjson(trace, recs)
    chk.traces += len(recs)
    kinds = Counter(r["kind"] for r in recs)
    chk.note("records_judged_by_kind", dict(kinds))
    chk.note("runtime_errors_by_operation", dict(Counter(r["op"] for r in recs if r["kind"] == "rt")))
    bad, res = oc.judge(chk, trace, "judge")
    expected = {}
    if bad:
        for f in files:
            for c in lib.read_ndjson(f):
                if c["id"] in bad:
                    expected[c["id"]] = c["ty"]
    groups = {}
    for r in recs:
        if r["id"] not in bad:
            continue
        k = r["kind"]
        if k == "type":
            if r["ty"]["k"] == "panic":
                sig = {"op": r["rec"]["op"], "class": "panic in add_node", "location": r.get("loc", "")}
            else:
                actual = "rejected" if r["ty"]["k"] == "err" else "accepted"
                sig = {"op": r["rec"]["op"], "class": "acceptance", "add_node": actual,
                       "source": "random program" if r["id"].startswith("fuzz/") else "enumerated"}
        elif k == "panic":
            sig = {"op": r["op"], "class": "panic", "location": r.get("loc", "")}
        elif k == "shape":
            sig = {"op": r["op"], "class": "value does not fit the node type", "check_type": r["chk"]}
        elif k == "rt":
            sig = {"op": r["op"], "class": "runtime error of an operation that cannot fail"}
        elif k == "graph":
            sig = {"class": "evaluate_graph disagrees with node-by-node evaluation", "result": r["res"], "output_is_last_node": r["out"] == r["nodes"] - 1,
                   "location": r.get("loc", "")}
        else:
            sig = {"class": "unknown record", "kind": k}
        key = json.dumps(sig, sort_keys=True)
        g = groups.setdefault(key, {"sig": sig, "n": 0, "first": r})
        g["n"] += 1
    for g in groups.values():
        r = g["first"]
        chk.violation(g["sig"], {"failing_records": g["n"], "record": r, "OpType_predicted": expected.get(r["id"]),
                                 "how": "harness/target/release/ops types <out> <file with {id,rec,ats}> re-runs add_node on the case"})
    chk.note("rejected_records", len(bad))
    for r in recs[:: max(1, len(recs) // 6)][:6]:
        chk.sample({k: r[k] for k in ("kind", "id", "rec", "ats", "ty", "op") if k in r})
    chk.assumptions += [
        "typing rules of 45 operations are modelled (spec/CCTyping.tla); Join, Sort, Shard, Call, Iterate, Custom and CuckooHash are not part of this check",
        "value layout is judged on logged leaf byte lengths and container arities (an element of w >= 8 bits can hold no residue >= 2^w; padding bits of bit arrays are not constrained by the documentation)",
        "Constant is enumerated with values that fit its type",
    ]


def replay(path):
    d = json.load(open(path))
    r = d["replay"]["record"]
    if "rec" not in r or "ats" not in r:
        print("record has no (rec, ats); nothing to replay")
        return 2
    work = os.path.join(lib.WORK, "C09")
    os.makedirs(work, exist_ok=True)
    cf = os.path.join(work, "replay_case.ndjson")
    lib.write_ndjson(cf, [{"id": "replay/1", "rec": r["rec"], "ats": r["ats"]}])
    out = os.path.join(work, "replay_types.ndjson")
    lib.harness(["types", out, cf], binary="ops")
    chk = oc.Stub()
    bad, _ = oc.judge(chk, out, "replay")
    print(open(out).read()[:1500])
    if bad:
        print("VIOLATION property=C09 replay=%s" % path)
        return 1
    print("TLC accepts the replayed record")
    return 0
