"""Shared machinery of the CipherCore TLA+ verification checks.

Every check is  `bin/check <ID> quick|thorough`; it
  1. rebuilds the conformance harness against /repo's current working tree,
  2. lets the harness drive / export from the real code,
  3. runs TLC on the specification in /verif/spec (TLC is always the judge),
  4. writes /verif/evidence/<ID>.json and exits 0 / 1 (+VIOLATION line) / 2 (tool error).
"""
import json, os, re, subprocess, sys, time, shutil, hashlib, glob

VERIF = os.path.dirname(os.path.dirname(os.path.abspath(__file__)))
SPEC = os.path.join(VERIF, "spec")
HARNESS = os.path.join(VERIF, "harness")
WORK = os.path.join(VERIF, "work")
EVID = os.path.join(VERIF, "evidence")
GEN = os.path.join(VERIF, "gen")
BIN = os.path.join(HARNESS, "target", "release", "cc-conform")
TLA_CP = "/opt/veriftools/tla/tla2tools.jar:/opt/veriftools/tla/CommunityModules-deps.jar"


class ToolError(Exception):
    pass


def log(*a):
    print(*a, file=sys.stderr, flush=True)


# --------------------------------------------------------------------------- harness

_built = False


def build_harness():
    """cargo build of the harness against /repo's working tree (incremental)."""
    global _built
    if _built:
        return BIN
    t0 = time.time()
    env = dict(os.environ, CARGO_NET_OFFLINE="true")
    p = subprocess.run(["cargo", "build", "--release", "--offline", "-q"], cwd=HARNESS, env=env,
                       stdout=subprocess.PIPE, stderr=subprocess.STDOUT, text=True)
    if p.returncode != 0:
        sys.stdout.write(p.stdout[-6000:])
        raise ToolError("harness build failed (does /repo still compile?)")
    log("[build] harness up to date in %.1fs" % (time.time() - t0))
    _built = True
    return BIN


def harness(args, timeout=3600, stdin=None, env=None, check=True, binary="cc-conform"):
    """Run one of the harness binaries (src/bin/<binary>.rs) with the given arguments."""
    build_harness()
    e = dict(os.environ)
    e.setdefault("RUST_BACKTRACE", "0")
    if env:
        e.update({k: str(v) for k, v in env.items()})
    t0 = time.time()
    try:
        exe = os.path.join(HARNESS, "target", "release", binary)
        p = subprocess.run([exe] + [str(a) for a in args], input=stdin, stdout=subprocess.PIPE,
                           stderr=subprocess.PIPE, text=True, timeout=timeout, env=e)
    except subprocess.TimeoutExpired:
        raise ToolError("harness timeout: %s" % " ".join(map(str, args)))
    if check and p.returncode != 0:
        sys.stderr.write(p.stderr[-4000:])
        raise ToolError("harness %s exited %d" % (" ".join(map(str, args[:3])), p.returncode))
    log("[harness] %s  %.1fs" % (" ".join(map(str, args[:4])), time.time() - t0))
    return p


# --------------------------------------------------------------------------- TLC


class TlcResult:
    def __init__(self):
        self.ok = False            # finished and no error found
        self.error = None          # text of the first error
        self.violated = None       # name of violated invariant / property / "postcondition" / "assumption"
        self.generated = 0
        self.distinct = 0
        self.depth = 0
        self.traces = 0            # simulation: number of behaviours generated
        self.printed = []          # PrintT / Print output lines (raw)
        self.coverage = {}         # action name -> (distinct, total)
        self.trace = ""            # counterexample text
        self.wall = 0.0
        self.stdout = ""
        self.cmd = ""


_cov_re = re.compile(r"^<(\w+) line (\d+), col \d+ to line \d+, col \d+ of module (\w+)>: (\d+):(\d+)")


def _run_watchdog(cmd, env, timeout, startup_timeout):
    """Run TLC; kill it if it has not computed its initial states `startup_timeout` seconds after start
    (TLC 1.8 occasionally fails evaluating an ASSUME over big imported data and then spends tens of
    minutes formatting the error). Returns (stdout, returncode, None | "startup-hang" | "timeout")."""
    import threading
    proc = subprocess.Popen(cmd, cwd=SPEC, env=env, stdout=subprocess.PIPE, stderr=subprocess.STDOUT, text=True)
    lines = []
    started = {"init": False}

    def reader():
        for line in proc.stdout:
            lines.append(line)
            if ("initial state" in line) or ("Progress" in line) or ("Model checking completed" in line) \
                    or line.startswith("Error") or ("states generated" in line):
                started["init"] = True

    th = threading.Thread(target=reader, daemon=True)
    th.start()
    t0 = time.time()
    why = None
    while proc.poll() is None:
        time.sleep(0.5)
        el = time.time() - t0
        if not started["init"] and el > startup_timeout:
            why = "startup-hang"
            break
        if el > timeout:
            why = "timeout"
            break
    if why:
        proc.kill()
    proc.wait()
    th.join(timeout=5)
    return "".join(lines), proc.returncode, why


def tlc(module, cfg=None, env=None, workers=8, simulate=None, depth=None, timeout=1800,
        metadir=None, xss="256m", xmx="8g", extra=None, deque=False, coverage=True, seed=None,
        want_dump=None, startup_timeout=150):
    """Run TLC on /verif/spec/<module>.tla with /verif/spec/<cfg>. Returns TlcResult.
    A timeout or a crash of TLC raises ToolError (never a pass, never a violation)."""
    cfg = cfg or (module + ".cfg")
    if simulate:
        workers = 1   # TLC 1.8 -simulate with several workers intermittently fails while evaluating ASSUMEs (observed 3 of 4 runs)
    import uuid
    metadir = metadir or os.path.join(WORK, "tlc", "%s-%d-%s" % (module, os.getpid(), uuid.uuid4().hex[:12]))
    os.makedirs(metadir, exist_ok=True)
    jopts = "-Xss%s" % xss
    if deque:
        jopts += " -Dtlc2.tool.queue.IStateQueue=StateDeque"
    cmd = ["java", "-XX:+UseParallelGC", "-Xmx" + xmx, "-cp", TLA_CP, "tlc2.TLC",
           "-workers", str(workers), "-metadir", metadir, "-cleanup", "-noGenerateSpecTE",
           "-config", cfg]
    if coverage and not simulate:
        cmd += ["-coverage", "1"]
    if simulate:
        s = "num=%d" % simulate
        cmd += ["-simulate", s]
        if depth:
            cmd += ["-depth", str(depth)]
    if seed is not None:
        cmd += ["-seed", str(seed)]
    if want_dump:
        cmd += ["-dump", "dot,actionlabels", want_dump]
    if extra:
        cmd += extra
    cmd += [module + ".tla"]
    e = dict(os.environ)
    e["JAVA_TOOL_OPTIONS"] = jopts
    if env:
        e.update({k: str(v) for k, v in env.items()})
    # reading the imported data (ndJsonDeserialize of the files named in `env`) happens before the initial states:
    # give the start-up watchdog 10 s per MB on top
    if env:
        nbytes = sum(os.path.getsize(str(v)) for v in env.values() if isinstance(v, str) and os.path.isfile(str(v)))
        startup_timeout += nbytes // 100000
    r = TlcResult()
    r.cmd = " ".join(cmd)
    t0 = time.time()
    out, rc = None, None
    for attempt in range(2):
        out, rc, why = _run_watchdog(cmd, e, timeout, startup_timeout)
        if why is None:
            break
        log("[tlc] %s: %s (attempt %d)" % (module, why, attempt + 1))
        shutil.rmtree(metadir, ignore_errors=True)
        os.makedirs(metadir, exist_ok=True)
        if why == "timeout":
            raise ToolError("TLC timeout after %ds: %s" % (timeout, r.cmd))
    else:
        raise ToolError("TLC did not get past start-up in 2 attempts (an ASSUME over the imported data probably failed): %s" % r.cmd)

    class _P:
        pass
    p = _P()
    p.stdout, p.returncode = out, rc
    r.wall = time.time() - t0
    out = p.stdout
    r.stdout = out
    shutil.rmtree(metadir, ignore_errors=True)
    in_trace = False
    trace = []
    for line in out.splitlines():
        m = re.match(r"^(\d+) states generated, (\d+) distinct states found", line)
        if m:
            r.generated, r.distinct = int(m.group(1)), int(m.group(2))
        m = re.match(r"^The number of states generated: (\d+)", line)
        if m:
            r.generated = max(r.generated, int(m.group(1)))
            r.distinct = max(r.distinct, int(m.group(1)))
        m = re.match(r"^Progress: (\d+) states checked, (\d+) traces generated", line)
        if m:
            r.traces = int(m.group(2))
        m = re.match(r"^The depth of the complete state graph search is (\d+)", line)
        if m:
            r.depth = int(m.group(1))
        m = _cov_re.match(line)
        if m:
            name = m.group(1)
            d, t = int(m.group(4)), int(m.group(5))
            od, ot = r.coverage.get(name, (0, 0))
            r.coverage[name] = (od + d, ot + t)
        if line.startswith("Error:"):
            if r.error is None:
                r.error = line
            m = re.match(r"Error: Invariant (\w+) is violated", line)
            if m and not r.violated:
                r.violated = m.group(1)
            m = re.match(r"Error: Action property (\w+) is violated", line)
            if m and not r.violated:
                r.violated = m.group(1)
            if "Temporal properties were violated" in line and not r.violated:
                r.violated = "temporal"
            if "POSTCONDITION" in line.upper() and not r.violated:
                r.violated = "postcondition"
            if "Assumption" in line and "is false" in line and not r.violated:
                r.violated = "assumption"
            if "Deadlock reached" in line and not r.violated:
                r.violated = "deadlock"
            in_trace = True
        if in_trace:
            trace.append(line)
        # PrintT output of JSON payloads: lines starting with a quote or "<<"
        if line.startswith('"') or line.startswith("<<") or line.startswith("[") or line.startswith("{"):
            r.printed.append(line)
    r.trace = "\n".join(trace[:400])
    finished = ("Model checking completed. No error has been found." in out) or \
               (simulate and "states generated" in out and r.error is None and
                ("The number of states generated" in out or "Progress" in out or True))
    if r.error is None and finished and p.returncode == 0:
        r.ok = True
    elif r.error is None:
        # TLC died without a recognisable verdict
        sys.stderr.write(out[-5000:])
        raise ToolError("TLC ended without verdict (rc=%d): %s" % (p.returncode, r.cmd))
    elif r.violated is None:
        # an evaluation error inside the spec (not a property violation) is a tool error
        i = out.find('Error:')
        sys.stderr.write(out[max(0, i - 200):i + 3000])
        raise ToolError("TLC evaluation error: %s" % r.error)
    log("[tlc] %s/%s  %d generated, %d distinct, %.1fs%s" % (module, cfg, r.generated, r.distinct, r.wall,
                                                           "" if r.ok else "  VIOLATED " + str(r.violated)))
    return r


def printed_json(res, tag):
    """Extract JSON payloads printed by the spec as  PrintT(<<"TAG", ToJson(x)>>)  or PrintT("TAG " \\o ToJson(x))."""
    outs = []
    pre = '<<"%s", "' % tag
    for line in res.printed:
        if line.startswith(pre) and line.endswith('">>'):
            s = line[len(pre):-3]
            s = s.encode("utf-8").decode("unicode_escape") if "\\" in s else s
            outs.append(json.loads(s))
    return outs


# --------------------------------------------------------------------------- findings / evidence


def load_known():
    path = os.path.join(VERIF, "known_findings.jsonl")
    ks = []
    if os.path.exists(path):
        for l in open(path):
            l = l.strip()
            if l and not l.startswith("#"):
                ks.append(json.loads(l))
    return ks


class Check:
    """Book-keeping for one run of one property check."""

    def __init__(self, pid, tier, seed):
        self.pid, self.tier, self.seed = pid, tier, seed
        self.t0 = time.time()
        self.states = 0
        self.transitions = 0
        self.traces = 0
        self.samples = []
        self.violations = []     # (signature dict, replay path)
        self.known_hits = []
        self.notes = {}
        self.assumptions = []
        self.exhaustive = None
        self.cov = {}
        self.workdir = os.path.join(WORK, pid)
        os.makedirs(self.workdir, exist_ok=True)
        self.viodir = os.path.join(self.workdir, "violations")
        shutil.rmtree(self.viodir, ignore_errors=True)
        os.makedirs(self.viodir, exist_ok=True)
        self.known = [k for k in load_known() if k.get("property") == pid and k.get("status") == "known"]

    def path(self, name):
        return os.path.join(self.workdir, name)

    def add_tlc(self, res, label=None):
        self.states += res.distinct
        self.transitions += res.generated
        for k, (d, t) in res.coverage.items():
            key = (label + ":" if label else "") + k
            od, ot = self.cov.get(key, (0, 0))
            self.cov[key] = (od + d, ot + t)

    def sample(self, s, cap=6):
        if len(self.samples) < cap:
            self.samples.append(s)

    def note(self, k, v):
        self.notes[k] = v

    def count(self, k, n=1):
        self.notes[k] = self.notes.get(k, 0) + n

    def violation(self, signature, replay):
        """signature: dict identifying the failing input/call site; replay: JSON-able object."""
        for k in self.known:
            sig = k.get("signature", {})
            if all(signature.get(f) == v for f, v in sig.items()):
                if not any(h is k for h, _ in self.known_hits):
                    self.known_hits.append((k, signature))
                return False
        h = hashlib.sha1(json.dumps(signature, sort_keys=True, default=str).encode()).hexdigest()[:12]
        path = os.path.join(self.viodir, "%s-%s.json" % (self.pid, h))
        if not os.path.exists(path):
            with open(path, "w") as f:
                json.dump({"property": self.pid, "signature": signature, "replay": replay}, f, indent=1, default=str)
            self.violations.append((signature, path))
        return True

    def finish(self):
        wall = time.time() - self.t0
        cov = {
            "states": max(self.states, 0),
            "transitions": max(self.transitions, 0),
            "traces_validated_against_impl": self.traces,
            "samples": self.samples[:8] if self.samples else [],
            "tlc_action_coverage": {k: {"distinct": d, "total": t} for k, (d, t) in sorted(self.cov.items())},
        }
        if self.exhaustive is not None:
            cov["exhaustive"] = self.exhaustive
        cov.update(self.notes)
        ev = {
            "property_id": self.pid, "tier": self.tier, "seed": self.seed, "level": "model_checking",
            "coverage": cov, "assumptions": self.assumptions, "wall_s": round(wall, 2),
            "violations": len(self.violations),
        }
        os.makedirs(EVID, exist_ok=True)
        with open(os.path.join(EVID, self.pid + ".json"), "w") as f:
            json.dump(ev, f, indent=1, default=str)
        for k, sig in self.known_hits:
            print("KNOWN-FINDING: property=%s %s" % (self.pid, k.get("what", json.dumps(k.get("signature")))))
        for sig, path in self.violations[:20]:
            print("VIOLATION property=%s replay=%s" % (self.pid, path))
        sys.stdout.flush()
        if self.violations:
            return 1
        if self.states < 1 or not self.samples:
            log("check explored nothing: treat as tool error")
            return 2
        return 0


def write_ndjson(path, records):
    with open(path, "w") as f:
        for r in records:
            f.write(json.dumps(r, separators=(",", ":")) + "\n")


def read_ndjson(path):
    out = []
    with open(path) as f:
        for l in f:
            l = l.strip()
            if l:
                out.append(json.loads(l))
    return out
