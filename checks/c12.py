"""C12  Contexts survive serialization; malformed input is an error, not a crash.

spec/Serialization.tla: Ser(state) (= ContextAPI!SerOf) and Recover = the replay order of
recover_original_context expressed with the ContextAPI mutators; catalogue of single-field corruptions.

  spec level   TLC (SerializationMC) over every reachable state of the bounded ContextAPI models:
               Recover(Ser(s)) = Ok(s); every catalogue corruption is Err or Ok(well-formed);
  on the code  (a) base contexts = a seeded sample of those model states rebuilt with the real API +
               richer contexts (every annotation kind, names, 128-bit constants, custom operations,
               compiler output, final contexts of random histories): to_string -> from_str ->
               contexts_deep_equal, second serialization byte-identical, evaluation equal, projection
               unchanged - judged by TLC (SerializationCases, MODE gen), which also checks that the
               REAL serial form recovers in the specification to the REAL projection;
               (b) TLC enumerates the catalogue for every base it can interpret; `ctxapi mutate`
               renders each case into the real JSON text and deserializes it; TLC (MODE judge)
               compares the outcome class / recovered context with the specification's prediction;
               (c) byte-level mutations (truncation at every offset, bit flips, digit changes,
               deletions, insertions, envelope/payload splices) and malformed Value payloads:
               Err or Ok(well-formed, as predicted where the specification can interpret the text);
               a panic is a violation.
"""
import json, os, random
from . import lib

NNAMES = "4"
MODEL = {"quick": "MC_Serialization_quick.cfg", "thorough": "MC_Serialization_thorough.cfg"}
NBASES = {"quick": 120, "thorough": 1500}
NFLIPS = {"quick": 1200, "thorough": 20000}


def parse_paths(res):
    import re
    cfg = lib.printed_json(res, "CFG")[0]
    fidx = {f["name"]: i + 1 for i, f in enumerate(cfg["feats"])}
    paths = []
    for line in res.printed:
        m = re.match(r'^"H (\w+) <<(.*)>>"$', line)
        if m:
            paths.append({"f": fidx[m.group(1)], "path": [int(x) for x in m.group(2).split(",") if x.strip()]})
    return cfg, paths


def panic_where(msg):
    w = (msg or "").split(" ")[0]
    return w if ":" in w else "unknown"


def signature(rec, why):
    first = why[0]
    if first == "panic":
        cls = rec["kind"]
        if rec["src"] == "bytes":
            cls = "byte-mutation:" + ("payload-not-decodable" if not rec.get("shape_ok") else "decodable-payload")
        return {"kind": "panic", "where": panic_where(rec.get("msg")), "input_class": cls}
    return {"kind": first, "input_class": rec["kind"], "src": rec["src"]}


def judge_outcomes(chk, path, recs):
    res = lib.tlc("SerializationCases", "MC_SerializationCases.cfg", workers=4, coverage=False, timeout=3000,
                  env={"NNAMES": NNAMES, "MODE": "judge", "TRACE": path})
    chk.add_tlc(res, "judge")
    if not res.ok:
        raise lib.ToolError("outcome judge: %s\n%s" % (res.violated, res.trace[:1500]))
    fails = lib.printed_json(res, "FAIL")
    for f in fails:
        rec = recs[f["rec"] - 1]
        chk.violation(signature(rec, f["why"]),
                      {"src": rec["src"], "kind": rec["kind"], "base": rec.get("base"), "why": f["why"], "out": rec["out"],
                       "msg": rec.get("msg", ""), "text": rec["text"], "expect": rec.get("expect", "")})
    return fails


def run(chk):
    tier = chk.tier
    # ---- spec level: the two theorems over the reachable states (and one history per state)
    res = lib.tlc("SerializationMC", MODEL[tier], workers=4, coverage=False, timeout=3000, env={"NNAMES": "2", "EMIT": "1"})
    chk.add_tlc(res, "theorems")
    if not res.ok:
        raise lib.ToolError("Serialization theorems violated in the specification: %s\n%s" % (res.violated, res.trace[:3000]))
    chk.note("spec_theorems", {"model": MODEL[tier], "distinct_states": res.distinct, "transitions": res.generated,
                               "invariants": ["RoundTrip", "CorruptionsSafe", "NumCorruptions"]})
    chk.exhaustive = True
    cfg, paths = parse_paths(res)
    rng = random.Random(chk.seed)
    # prefer deeper states (more structure), keep a few shallow ones
    paths.sort(key=lambda p: (len(p["path"]), p["path"]))
    deep = paths[len(paths) // 3:]
    sample = rng.sample(deep, min(NBASES[tier], len(deep))) + paths[:5]
    cfgp, pathp, basep = chk.path("cfg.json"), chk.path("paths.ndjson"), chk.path("bases.ndjson")
    json.dump(cfg, open(cfgp, "w"))
    lib.write_ndjson(pathp, sample)
    # ---- (a) bases with their observed round trip
    lib.harness(["bases", cfgp, pathp, chk.seed, basep], binary="ctxapi", timeout=3000)
    bases = lib.read_ndjson(basep)
    broken = [b for b in bases if "failed" in b]
    for b in broken:
        chk.violation({"kind": "serialize-failed", "src": b["src"]}, b)
    bases = [b for b in bases if "failed" not in b]
    lib.write_ndjson(basep, bases)
    gen = lib.tlc("SerializationCases", "MC_SerializationCases.cfg", workers=4, coverage=False, timeout=3000,
                  env={"NNAMES": NNAMES, "MODE": "gen", "TRACE": basep})
    chk.add_tlc(gen, "gen")
    if not gen.ok:
        raise lib.ToolError("case generation: %s\n%s" % (gen.violated, gen.trace[:1500]))
    for f in lib.printed_json(gen, "FAIL"):
        b = bases[f["rec"] - 1]
        chk.violation({"kind": f["why"][0], "src": b["src"].split(":")[0], "input_class": "roundtrip"},
                      {"src": b["src"], "why": f["why"], "rt": b["rt"], "text": b["text"], "kind": "roundtrip", "base": b["id"]})
    chk.traces += len(bases)
    cases = lib.printed_json(gen, "CASE")
    casep = chk.path("cases.ndjson")
    lib.write_ndjson(casep, cases)
    srcs = {}
    for b in bases:
        k = b["src"].split(":")[0] if b["src"].startswith("model") else b["src"]
        srcs[k] = srcs.get(k, 0) + 1
    chk.note("bases", {"total": len(bases), "with_catalogue": sum(1 for b in bases if b["catalogue"]), "by_source": srcs,
                       "max_nodes": max(b["nodes"] for b in bases)})
    # ---- (b) catalogue on the real JSON, (c) byte-level mutations, Value payloads
    mutp, bytep, valp, outp = chk.path("mut.ndjson"), chk.path("bytes.ndjson"), chk.path("val.ndjson"), chk.path("outcomes.ndjson")
    p1 = lib.harness(["mutate", basep, casep, mutp], binary="ctxapi", timeout=3000)
    p2 = lib.harness(["bytes", chk.seed, basep, bytep, NFLIPS[tier]], binary="ctxapi", timeout=3000)
    lib.harness(["value-cases", valp], binary="ctxapi")
    with open(outp, "w") as f:
        for q in (mutp, bytep, valp):
            f.write(open(q).read())
    recs = lib.read_ndjson(outp)
    fails = judge_outcomes(chk, outp, recs)
    chk.note("catalogue_cases", {"cases": len(cases), "by_kind_and_outcome": json.loads(p1.stdout.strip().splitlines()[-1])["by_kind_outcome"]})
    chk.note("byte_mutations", json.loads(p2.stdout.strip().splitlines()[-1])["by_kind_outcome"])
    chk.note("outcomes_judged", {"records": len(recs), "rejected_by_TLC": len(fails),
                                 "spec_predicted_class": sum(1 for r in recs if r.get("predictable") and r["src"] != "value")})
    for c in cases[:3]:
        chk.sample({"base": c["base"], "kind": c["kind"], "env": c["env"]})
    for r in recs:
        if r["src"] == "bytes" and r["out"] == "ok":
            chk.sample({"src": "bytes", "kind": r["kind"], "out": r["out"], "predictable": r["predictable"]}, cap=6)
    chk.assumptions += [
        "the serialization format is decoded independently by a mirror of SerializableContextBody in the harness (format version 2)",
        "the specification predicts the outcome for payloads made of the operations it models (Input, Add, Subtract, Multiply, "
        "CreateTuple, TupleGet, Call) and names a-d; for other payloads an Ok result is judged for well-formedness only",
        "evaluation equality uses the simple evaluator with a fixed PRNG seed on all-zero inputs",
    ]


def replay(path):
    v = json.load(open(path))
    rp = v["replay"]
    chk = lib.Check("C12-replay", "replay", 0)
    if rp.get("kind") == "roundtrip":
        print("round-trip violations are replayed by re-running the check")
        return 2
    inp, outp = chk.path("replay.in.ndjson"), chk.path("replay.out.ndjson")
    lib.write_ndjson(inp, [{"text": rp["text"], "src": rp["src"], "kind": rp["kind"], "base": rp.get("base") or 0, "expect": rp.get("expect", "")}])
    lib.harness(["outcome", inp, outp], binary="ctxapi")
    recs = lib.read_ndjson(outp)
    judge_outcomes(chk, outp, recs)
    for sig, p in chk.violations:
        print("VIOLATION property=C12 replay=%s" % p)
    return 1 if chk.violations else 0
