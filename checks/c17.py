"""C17  Bit-level arithmetic helpers are exact (BinaryAdd, Mux, Clip2K, LongDivision).

1. design check (TLC, spec/BitOpsAlg.tla): generate/propagate carry tree = sum mod 2^w with the true carry-out,
   OR-reduction clip = documented clipping, restoring division + sign adjustment = floored division, and the
   bit-string definitions used for wide operands (ripple-carry add, shift-and-add product, division identity in
   2w bits incl. uniqueness of its solution) = the integer definitions, for EVERY operand pair of the small widths.
2. conformance (B2): the harness runs the real custom operations on all operand pairs of the small widths
   (adder 1,2,4,8; clip every k of widths 2..8; division 2,4,(8) without divisor 0), on boundary / random operands of
   widths 16..128, on broadcast shapes, and the multiplexer on bit and integer choices; TLC judges every element.
"""
import random
from . import lib
from . import bitrel_common as bc

MUX_TYPES = ["b", "u8", "i8", "u16", "i16", "u32", "i32", "u64", "i64", "u128", "i128"]
BITS = {"b": 1, "u8": 8, "i8": 8, "u16": 16, "i16": 16, "u32": 32, "i32": 32, "u64": 64, "i64": 64, "u128": 128, "i128": 128}


def prod(sh):
    n = 1
    for d in sh:
        n *= d
    return n


def run(chk):
    quick = chk.tier == "quick"
    rnd = random.Random(chk.seed + 17)
    env = {"MAXW": 8, "MAXWDIV": 4 if quick else 8, "MAXWUNIQ": 3 if quick else 4}
    res = lib.tlc("BitOpsAlg", "MC_BitOpsAlg_arith.cfg", env=env, workers=bc.workers(8 if quick else 12),
                  timeout=600 if quick else 6000, coverage=False)
    chk.add_tlc(res, "design")
    if not res.ok:
        chk.violation({"level": "design", "invariant": res.violated}, {"tlc": res.trace[-4000:]})
    chk.note("design", {"all_pairs_widths": "1..8", "division_identity_widths": "1..%d" % env["MAXWDIV"],
                        "identity_uniqueness_widths": "1..%d" % env["MAXWUNIQ"]})

    # long division with a divisor of another width than the dividend (the documentation gives the remainder the
    # divisor's length): algorithm vs definition for all operands of widths {2,4,8} x {2,4,8}, signed and unsigned
    design_mixed = {}     # sg -> counterexamples of the modelled algorithm (reported together with the code-level result)
    for sg in (1, 0):
        rm = lib.tlc("BitOpsAlg", "MC_BitOpsAlg_divmixed.cfg", env={"MAXW": 8, "SG": sg}, workers=bc.workers(4), timeout=600, coverage=False)
        chk.add_tlc(rm, "design_divmixed_sg%d" % sg)
        if not rm.ok:
            design_mixed[sg] = lib.printed_json(rm, "DIVMIXED")[:3]

    jobs = []

    def add(j):
        j["id"] = len(jobs)
        jobs.append(j)

    # ---- adder: sg = overflow_bit
    for w in (1, 2, 4, 8):
        for ov in (0, 1):
            add({"op": "add", "sg": ov, "w": w, "exh": True})
    for w in (16, 32, 64, 128):
        m = (1 << w) - 1
        pairs = bc.operand_pairs(w, rnd, nrand=20 if quick else 150, onebit=False)
        pairs += [((1 << i) - 1, 1) for i in range(1, w + 1)]            # carry chains of every length
        pairs += [(m, m), (m, 1), (1, m)]
        for _ in range(10):
            x = rnd.getrandbits(w)
            pairs += [(x, m ^ x), (x, ((m ^ x) + 1) & m)]
        a, b = [bc.s(p[0]) for p in pairs], [bc.s(p[1]) for p in pairs]
        for ov in (0, 1):
            add({"op": "add", "sg": ov, "w": w, "a": a, "b": b})
    for w in (3, 5, 6, 12, 24):                                           # only powers of two are supported
        add({"op": "add", "sg": 1, "w": w, "a": ["1"], "b": ["1"]})
    # ---- clip
    for w in range(2, 9 if quick else 11):
        for k in range(0, w - 1):
            add({"op": "clip", "w": w, "k": k, "exh": True})
        for k in (w - 1, w):
            add({"op": "clip", "w": w, "k": k, "a": ["0", "1"]})
    for w in (16, 32, 64, 128):
        m = (1 << w) - 1
        for k in sorted({0, 1, w // 2, w - 3, w - 2}):
            vals = bc.boundary(w) + [(1 << k) - 1, 1 << k, (1 << k) + 1, (1 << (k + 1)) & m, (-(1 << k)) & m,
                                     (-(1 << k) - 1) & m, (-1) & m]
            vals += [rnd.getrandbits(w) for _ in range(20)] + [rnd.getrandbits(k + 1) for _ in range(20)]
            add({"op": "clip", "w": w, "k": k, "a": [bc.s(v & m) for v in vals]})
    # ---- long division: sg = signed
    for w in ((2, 4) if quick else (2, 4, 8)):
        for sg in (0, 1):
            add({"op": "div", "sg": sg, "w": w, "exh": True})
    if quick:   # 8-bit: every dividend against boundary and random divisors (all 65536 pairs in the thorough tier)
        ds = sorted(set(bc.boundary(8) + [3, 5, 7, 10, 100, 200, 253] + [rnd.randint(1, 255) for _ in range(6)]) - {0})
        for sg in (0, 1):
            add({"op": "div", "sg": sg, "w": 8, "a": [bc.s(a) for a in range(256) for _ in ds], "b": [bc.s(d) for _ in range(256) for d in ds]})
    for w in (16, 32, 64):
        m = (1 << w) - 1
        mn = 1 << (w - 1)
        bs = bc.boundary(w)
        if quick and w == 64:
            bs = [0, 1, m, bs[5], mn, mn - 1, mn + 1, 1 << (w // 2)]
        pairs = [(a, d) for a in bs for d in bs if d != 0]
        pairs += [(mn, m), (0, m), (0, 1), (mn, 1), (m, m), (mn, mn), (mn - 1, mn)]
        for _ in range((5 if w == 64 else 15) if quick else 150):
            a, d = rnd.getrandbits(w), rnd.getrandbits(w) or 1
            sd = rnd.getrandbits(rnd.randint(1, w // 2)) or 1             # small divisors: long quotients
            pairs += [(a, d), (a, sd), (a, (-sd) & m), ((-a) & m, sd), (a, 1), (a, m), (a, a or 1), (a, ((-a) & m) or 1),
                      (sd, a or 1)]
        a, d = [bc.s(p[0]) for p in pairs], [bc.s(p[1]) for p in pairs]
        for sg in (0, 1):
            add({"op": "div", "sg": sg, "w": w, "a": a, "b": d})
    for w in (3, 6, 12):
        add({"op": "div", "sg": 0, "w": w, "a": ["1"], "b": ["1"]})
    # dividend and divisor of different widths: all operand pairs for the small combinations, sampled for 16/8
    for w, wb in ((4, 2), (2, 4), (8, 4), (4, 8), (8, 2), (2, 8), (16, 8), (8, 16)):
        if w + wb <= 12:
            pairs = [(a, d) for a in range(1 << w) for d in range(1, 1 << wb)]
        else:
            pairs = [(a, d) for a in bc.boundary(w) + [rnd.getrandbits(w) for _ in range(20)]
                     for d in [x for x in bc.boundary(wb) if x] + [rnd.getrandbits(wb) or 1 for _ in range(6)]]
        for sg in (0, 1):
            add({"op": "div", "sg": sg, "w": w, "wb": wb, "a": [bc.s(p[0]) for p in pairs], "b": [bc.s(p[1]) for p in pairs]})
    for sg in (0, 1):
        add({"op": "div", "sg": sg, "w": 1, "a": ["1", "0"], "b": ["1", "1"]})  # degenerate width: value or error
    # ---- broadcasting (row shapes without the bit dimension)
    shapes = [([2, 1], [3]), ([3], [2, 1, 1]), ([1], [4]), ([], [2]), ([], []), ([2, 1, 3], [1, 2, 1])]
    rank1_div = []      # LongDivision of two plain bitstrings [w] (no row dimension)
    for w in (4, 8, 16):
        pool = bc.boundary(w) + [rnd.getrandbits(w) for _ in range(6)]
        nz = [v for v in pool if v != 0]
        for sa, sb in shapes:
            for op, sg in (("add", 0), ("add", 1), ("div", 0), ("div", 1)):
                if op == "div" and sa == [] and sb == []:
                    rank1_div.append(len(jobs))
                add({"op": op, "sg": sg, "w": w, "sa": sa, "sb": sb,
                     "a": [bc.s(rnd.choice(pool)) for _ in range(prod(sa))],
                     "b": [bc.s(rnd.choice(nz)) for _ in range(prod(sb))]})
            add({"op": "clip", "w": w, "k": 1, "sa": sa, "a": [bc.s(rnd.choice(pool)) for _ in range(prod(sa))]})
    # ---- multiplexer
    for st in MUX_TYPES:
        wbits = BITS[st]
        m = (1 << wbits) - 1
        if st == "b":
            f = [i >> 2 & 1 for i in range(8)]
            x1 = [i >> 1 & 1 for i in range(8)]
            x0 = [i & 1 for i in range(8)]
        else:
            pool = bc.boundary(wbits) + [rnd.getrandbits(wbits) for _ in range(8)]
            f = [rnd.randint(0, 1) for _ in range(40)] + [0, 1, 0, 1]
            x1 = [rnd.choice(pool) for _ in range(40)] + [0, 0, m, m]
            x0 = [rnd.choice(pool) for _ in range(40)] + [m, m, 0, 0]
        n = len(f)
        add({"op": "mux", "st": st, "sf": [n], "s1": [n], "s0": [n], "f": f, "x1": [bc.s(v) for v in x1], "x0": [bc.s(v) for v in x0]})
        for sf, s1, s0 in (([3, 1], [1, 5], [6, 1, 1]), ([], [4], [4]), ([], [], []), ([2, 2], [], [2]), ([2], [3, 1], [1])):
            pool = [0, 1] if st == "b" else bc.boundary(wbits)
            add({"op": "mux", "st": st, "sf": sf, "s1": s1, "s0": s0,
                 "f": [rnd.randint(0, 1) for _ in range(prod(sf))],
                 "x1": [bc.s(rnd.choice(pool)) for _ in range(prod(s1))],
                 "x0": [bc.s(rnd.choice(pool)) for _ in range(prod(s0))]})

    recs, bad = bc.run_ops(chk, jobs, "arith", workers=bc.workers(4 if quick else 8), timeout=1500 if quick else 6000)
    r1 = [recs[i]["out"] for i in rank1_div]
    chk.note("long_division_of_rank1_bitstrings", {"outcomes": sorted(set(r1)),
             "remark": "operands of shape [w] (no row dimension): the library returns an error; counted as an observation, not judged"})
    bad = [(r, v) for r, v in bad if not (r["id"] in rank1_div and r["out"] == "err")]
    mixed_code_bad = set()
    for rec, v in bad:
        if rec["op"] == "mux":
            sig = {"op": "mux", "choices": "bit" if rec["st"] == "b" else "integer", "why": v["why"]}
        elif rec["op"] == "div" and rec["wb"] != rec["w"]:
            sig = {"op": "div", "signed": rec["sg"], "mixed_widths": True, "why": v["why"]}
        else:
            sig = {"op": rec["op"], "flag": rec["sg"], "w": rec["w"], "k": rec["k"], "why": v["why"]}
        extra = {}
        if sig.get("mixed_widths") and rec["sg"] in design_mixed:
            extra = {"design_level (TLC, spec/BitOpsAlg.tla DivMixedInv: modelled algorithm vs definition; alg/def = <<quotient, remainder>>)": design_mixed[rec["sg"]]}
            mixed_code_bad.add(rec["sg"])
        chk.violation(sig, {**extra, "cmd": "ops", "jobs_file": chk.path("jobs_arith.ndjson"), "job_id": rec["id"], "verdict": v, "case": bc.small(rec, v["idx"]),
                            "job": {k: (v if not isinstance(v, list) or len(v) <= 24 else "%d values (seed %d)" % (len(v), chk.seed)) for k, v in jobs[rec["id"]].items()}})
    # the modelled algorithm disagrees with the definition for mixed widths: a finding only together with the code
    # (the model follows the code; if the code no longer fails, the model of the restoring register is out of date)
    for sg, ex in design_mixed.items():
        if sg not in mixed_code_bad:
            chk.note("design_model_of_mixed_width_division_differs_from_code_sg%d" % sg,
                     {"examples": ex, "remark": "the code returned the defined results on all mixed-width cases; update DivAlg2 in spec/BitOps.tla"})
    chk.note("mixed_width_division", {"design_counterexamples": {str(k): v for k, v in design_mixed.items()},
                                      "code_failing_signedness": sorted(mixed_code_bad)})
    per_op = {}
    for r in recs:
        d = per_op.setdefault(r["op"], {"batches": 0, "elements": 0, "exhaustive_elements": 0, "errors_expected": 0})
        d["batches"] += 1
        d["elements"] += bc.n_elems(r)
        if r.get("exh") == 1:
            d["exhaustive_elements"] += bc.n_elems(r)
        if r["out"] == "err":
            d["errors_expected"] += 1
    chk.note("per_operation", per_op)
    chk.note("mux_batches_failing", sum(1 for r, v in bad if r["op"] == "mux"))
    chk.exhaustive = True
    for r in recs:
        if r["out"] == "ok" and r["op"] == "div" and r["w"] == 16 and len(r["a"]) > 200 and r["sa"] == r["so"]:
            chk.sample({"op": "div", "signed": r["sg"], "w": 16, "dividend": r["a"][170], "divisor": r["b"][170],
                        "quotient": r["r"][170], "remainder": r["r2"][170], "encoding": "unsigned reading of the bit pattern"})
        if r["out"] == "ok" and r["op"] == "add" and r["w"] == 8 and r["sg"] == 1 and r.get("exh") == 1:
            chk.sample({"op": "add", "w": 8, "a": r["a"][65535], "b": r["b"][65535], "sum": r["r"][65535], "carry": r["r2"][65535]})
    if not chk.samples:
        r = recs[0]
        chk.sample({"op": r["op"], "w": r["w"], "a": r["a"][:4], "b": r["b"][:4], "result": r["r"][:4]})
    chk.assumptions += [
        "division results are w-bit patterns: signed min / -1 wraps to min (quotient not representable), as NumPy does",
        "division by zero is outside the property (excluded from judgement)",
        "1-bit long division: the library may return a value or an error",
    ]


def replay(path):
    return bc.replay(path)
