"""C03  A party's view reveals nothing beyond its own inputs and outputs.

Decided by TLC on spec/ABY3Priv.tla over compiled graphs exported from the real compile_context:
for every observer and every class of inputs the observer must not distinguish (same own/public
inputs, same own output) the BAGS of its views over all idealised tapes are equal -- exact equality of
distributions, for bit-typed graphs and for the Z_2 (and, within budget, Z_4) homomorphic image of
ring-only graphs.  The protocols outside that budget (A2B, B2A, Truncate, comparisons, sort) are run at their real
widths by the harness as three parties on the real evaluator, the observer's randomness fixed and everybody else's
fresh, and TLC (spec/DetLeakTrace.tla) checks deterministic-leak freedom, a consequence of Private, on every
value of the observer's store.
"""
from . import lib, progs, mpc_common as mc

RUNS_PER_PROG = {"quick": 2 ** 13, "thorough": 2 ** 16}   # 2^(input bits + tape bits) per program
RUNS_TOTAL = {"quick": 150000, "thorough": 1200000}


def run(chk):
    tier = chk.tier
    per_prog = 4 if tier == "quick" else 12
    jobs = progs.jobs(tier, chk.seed, per_prog=per_prog)
    recs, failed = mc.compile_jobs(chk, jobs)
    chk.note("programs_compiled", len(recs))
    chk.traces += 0
    sel = {1: [], 2: []}
    budget = {1: RUNS_TOTAL[tier], 2: RUNS_TOTAL[tier] // 4}
    skipped = 0
    for r in sorted(recs, key=lambda r: sum(mc.tape_bits(r, 1))):
        if r["cls"] == "x8":
            skipped += 1
            continue
        took = False
        for ring in ([1] if r["cls"] == "bit" else [1, 2]):
            tb, ib = mc.tape_bits(r, ring)
            runs = 2 ** (tb + ib)
            if runs <= RUNS_PER_PROG[tier] and 3 * runs <= budget[ring]:
                budget[ring] -= 3 * runs
                sel[ring].append(r)
                took = True
        if not took:
            skipped += 1
    chk.note("programs_outside_exhaustive_budget", skipped)
    for ring in (1, 2):
        rs = list(sel[ring])
        rounds = 0
        chk.count("graphs_exact_ring%d" % ring, len(rs))
        chk.traces += len(rs)
        while rs and rounds < 5:
            rounds += 1
            ok, res, bad = mc.run_aby3(chk, rs, "three", ring, "priv_r%d" % ring, module="ABY3Priv", invariant="Private",
                                       view_roots=True, spec="PSpec", timeout=1500 if tier == "quick" else 12000,
                                       progvar="pg")
            if ok:
                break
            if bad is None:
                raise lib.ToolError("violation without program index:\n" + res.trace[:2000])
            obs = mc.last_state(res.trace, "obs")
            sig = dict(mc.describe(bad), ring=ring, observer=obs)
            chk.violation(sig, {"job": {k: bad[k] for k in ("id", "name", "owners", "outs", "mode")},
                                "observer": obs, "class": mc.last_state(res.trace, "cls"), "tlc": res.trace[-4000:], "ring": ring})
            rs = [r for r in rs if r is not bad]
    # --- real widths, real evaluator: deterministic-leak freedom (a consequence of Private) on the protocols whose
    # tape space cannot be enumerated; TLC (spec/DetLeakTrace.tla) judges every record
    from . import detleak
    js, drecs, leaks, dfailed, masked = detleak.run(chk)
    chk.traces += len(drecs)
    chk.note("wide_detleak_records", len(drecs))
    chk.note("wide_detleak_runs_per_record", 2 * detleak.RUNS[tier])
    chk.note("wide_detleak_programs", sorted({j["name"] for j in js if j["family"] == "core"}))
    chk.note("wide_detleak_random_programs", len({j["name"] for j in js if j["family"] == "rand"}))
    chk.note("wide_detleak_rejected_by_compiler", dfailed[:10])
    chk.note("wide_detleak_records_without_masked_values", sum(1 for i in range(1, len(drecs) + 1) if masked.get(i, 0) == 0))
    chk.note("wide_detleak_store_values_compared", sum(r["nodes"] for r in drecs))
    byid = {j["id"]: j for j in js}
    for r, nodes in leaks:
        job = byid[r["id"]]
        sig = {"phase": "wide", "program": r["name"], "owners": r["owners"], "observer": r["observer"]}
        chk.violation(sig, {"job": job, "leaking_nodes_1based": nodes[:40], "nodes": r["flagged"][:40], "known_keys": r["known_keys"],
                            "what": "the observer computes a value that is determined by the other parties' secrets and the randomness the observer holds, and that differs between the two input vectors",
                            "how": "cc-conform detleak <job> <out>; spec/DetLeakTrace.tla"})
    for r in (sel[1] + sel[2])[:5]:
        chk.sample(dict(mc.describe(r), mpc_nodes=len(r["mpc"]), tape_bits=mc.tape_bits(r, 1)[0],
                        sends=sum(len(n["sends"]) for n in r["mpc"])))
    chk.exhaustive = True
    chk.assumptions += [
        "PRF idealised as a random function of (key, counter, type); junk held by non-owners fixed to zero",
        "exact view distributions only for graphs whose input x tape space fits the budget (bit-typed graphs and Z_2/Z_4 images of ring-only graphs); larger protocols (A2B, B2A, sort, join) are outside this check",
        "three-party runtime semantics as defined in spec/ABY3Run.tla",
        "wide phase: a necessary condition of Private only (values the observer computes that are determined by secrets and its own randomness); observers that are output parties and already shared inputs are not part of it; a private protocol is flagged with probability at most 2*4^-R per store value (R runs per input vector)",
    ]
