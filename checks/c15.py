"""C15  PRF and PRNG are deterministic, in-domain and unbiased.

1. TLC on spec/Rejection.tla: for scaled-down uniform sources (2^8; units of 2 bits; real bytes with k = 16) and
   every modulus <= 64, enumerating all draws: the code's rejection bound is floor(2^k/m)*m - 1, every residue is
   produced by exactly the same number of accepted draws, fewer than half of the draws are rejected.
2. TLC on spec/PRFModel.tla enumerates every history of 4 PRF calls drawn from 2 keys x 2 counters x 2 types over
   3 evaluator instances (instances numbered by first use) plus fixed histories for large / nested types (buffer
   growth 64 -> 512 bytes), permutations, and a generated family of composite types (every vector length in
   0, 1, 2, 3, 40, 70, 600 over leaves with / without unused bits, all pairs of leaves as tuples / named tuples,
   vector-of-tuple, vector-of-vector, tuple-of-vector; GenLevel 2 in the thorough tier) (B1); `values c15-prf` executes each history through fresh
   SimpleEvaluator instances (evaluate_node on PRF / PermutationFromPRF nodes); TLC on spec/PRFTrace.tla requires all
   outputs of all histories to be explained by ONE function table, different (key, counter) to give different wide
   outputs, outputs to be valid encodings with zero unused bits, permutations to be permutations.
3. `values c15-rej` (no hooks): equally seeded generators, one giving the raw byte stream; TLC on
   spec/RejectionTrace.tla recomputes rejections and results of get_random_in_range (moduli 1..300 and boundary moduli
   up to 2^64-1), replays the Fisher-Yates shuffles of PermutationFromPRF / RandomPermutation from the raw stream
   (sessions of up to 1500 / 5000 draws of 2 and 3 bytes under 4 (key, counter) pairs, so that the batches of the stream
   cut the draws at every offset; `permext` records: the shuffle of n elements continues the shuffle of n0 elements,
   n up to 68000, i.e. draws of 4 bytes), and checks that a seeded generator replays exactly and that generated values
   (the types of step 2, incl. the generated family of composite types) are valid encodings with zero unused bits.
"""
import json
from . import lib
from .c13 import judge, bad_records


def _orders(res):
    h = lib.printed_json(res, "H")
    f = lib.printed_json(res, "F")
    hd = lib.printed_json(res, "HDR")
    if len(hd) < 1:
        raise lib.ToolError("PRFModel printed no header")
    cases = [hd[0]] + f
    for x in h:
        p = x["pre"]
        for l in x["last"]:
            cases.append({"kind": "h", "ev": p["ev"] + [l[0]], "key": p["key"] + [l[1]], "ctr": p["ctr"] + [l[2]],
                          "ty": p["ty"] + [l[3]]})
    return cases, len(h), len(f)


def run(chk):
    tier = chk.tier
    # 1. rejection sampling, exact on scaled sources
    r0 = lib.tlc("Rejection", "MC_Rejection.cfg" if tier == "quick" else "MC_Rejection_thorough.cfg", workers=4,
                 timeout=900 if tier == "quick" else 7200)
    chk.add_tlc(r0, "Rejection")
    if not r0.ok:
        # the code's formula, instantiated on a small source, is biased / suboptimal: a finding about random.rs
        chk.violation({"record": "rejection_model", "invariant": r0.violated},
                      {"tlc": r0.trace[:4000], "how": "spec/Rejection.tla instantiates the bound formulas of random.rs:110-111, 315-320"})
    chk.note("rejection_model_states", r0.distinct)

    # 2. PRF purity
    r1 = lib.tlc("PRFModel", "MC_PRFModel.cfg" if tier == "quick" else "MC_PRFModel_thorough.cfg", workers=4, timeout=1800)
    chk.add_tlc(r1, "PRFModel")
    if not r1.ok:
        raise lib.ToolError("PRFModel: %s\n%s" % (r1.violated, r1.trace[:1500]))
    cases, nprefix, nfixed = _orders(r1)
    nh = len(cases) - 1
    if nh + 0 < r1.distinct - 60000 or nfixed < 1:
        raise lib.ToolError("history corpus incomplete")
    lib.write_ndjson(chk.path("orders.ndjson"), cases)
    chk.note("histories_enumerated", nh)
    chk.note("fixed_histories_large_types_and_permutations", nfixed)
    kinds_t = {}
    for t in cases[0]["types"]:
        kinds_t[t["k"]] = kinds_t.get(t["k"], 0) + 1
    chk.note("output_types_by_kind", kinds_t)
    lib.harness(["c15-prf", chk.path("orders.ndjson"), chk.path("prf.ndjson")], binary="values", timeout=3000)
    recs = lib.read_ndjson(chk.path("prf.ndjson"))
    types = recs[0]["types"]
    if sum(1 for r in recs if r["kind"] == "h") != nh:
        raise lib.ToolError("harness did not execute every history")

    def sig_prf(rec, facets):
        s = {"record": "prf_" + rec["kind"], "facets": facets}
        if rec["kind"] == "out":
            s["type"] = json.dumps(types[rec["ty"] - 1], sort_keys=True)
        else:
            s["types"] = sorted({json.dumps(types[t - 1], sort_keys=True) for t in rec["ty"]})
        return s

    def replay_prf(rec, facets):
        r = dict(rec)
        r["failing_facets"] = facets
        r["types_table"] = types
        r["how"] = ("keys: values.rs key_bytes(id); counters: ctr_value(id); each history uses fresh SimpleEvaluator "
                    "instances ev[i]; evaluate_node(PRF/PermutationFromPRF node, [key]); digest = bytes:fnv64")
        return r

    res, bad = judge(chk, "PRFTrace", "MC_PRFTrace.cfg", recs, "prf.ndjson", sig_prf, replay_prf, workers=1,
                     timeout=1800, label="PRFTrace")
    chk.traces -= 1 + sum(1 for r in recs if r["kind"] == "out")     # header / detail records are not traces
    outs = [r for r in recs if r["kind"] == "out"]
    chk.note("distinct_key_counter_type_triples", len(outs))
    chk.note("prf_records_rejected", len(bad))
    chk.note("largest_output_bytes", max(int(r["dg"].split(":")[0]) for r in outs))

    # 3. bounded draws, permutations, replay
    lib.harness(["c15-rej", chk.path("rej.ndjson"), chk.seed, tier, chk.path("orders.ndjson")], binary="values", timeout=3000)
    rj = lib.read_ndjson(chk.path("rej.ndjson"))

    def sig_rj(rec, facets):
        s = {"record": rec["kind"], "facets": facets}
        if rec["kind"] == "range":
            s["modulus"] = str(sum(l << (8 * i) for i, l in enumerate(rec["m"])))
        if rec["kind"] in ("permprf", "permrng", "permext"):
            s["n"] = rec["n"]
        if rec["kind"] == "permext":
            s["n0"] = rec["n0"]
        return s

    def replay_rj(rec, facets):
        r = {k: v for k, v in rec.items() if k not in ("outs",)}
        if rec["kind"] == "permext":      # megabytes: keep what identifies the case
            r = {k: v for k, v in rec.items() if k in ("kind", "n0", "n", "key", "ctr")}
            r["note"] = "PermutationFromPRF(key_bytes(key), ctr_value(ctr), n) vs (.., n0) and PRF(.., u8[N]); see values.rs c15-rej"
        r["failing_facets"] = facets
        r["how"] = "values c15-rej <out> %d %s (seeds derive from VERIF_SEED)" % (chk.seed, tier)
        return r

    res2, bad2 = judge(chk, "RejectionTrace", "MC_RejectionTrace.cfg", rj, "rej.ndjson", sig_rj, replay_rj,
                       timeout=1800 if tier == "quick" else 7200, label="RejectionTrace")
    kinds = {}
    for r in rj:
        kinds[r["kind"]] = kinds.get(r["kind"], 0) + 1
    chk.note("rng_records", kinds)
    chk.note("permutation_sessions_n", sorted({r["n"] for r in rj if r["kind"] in ("permprf", "permext")}))
    ndraws = sum(len(r["res"]) for r in rj if r["kind"] == "range")
    nrej = sum((len(r["raw"]) - 16) // 8 - len(r["res"]) for r in rj if r["kind"] == "range")
    chk.note("bounded_draws_validated", ndraws)
    chk.note("rejected_draws_seen", nrej)
    chk.note("rng_records_rejected", len(bad2))
    chk.note("moduli", "1..300, 2^32-1, 2^32, 2^32+1, 2^63-1, 2^63, 2^63+1, 2^63+2, 2^63+2^62, 2^64-1, 2^64-2, ... (see values.rs)")
    for r in outs[:2]:
        chk.sample({"key": r["key"], "counter": r["ctr"], "type": types[r["ty"] - 1], "digest": r["dg"], "layout": r["lay"]})
    for r in [r for r in recs if r["kind"] == "h"][30:32]:
        chk.sample({"history": {k: r[k] for k in ("ev", "key", "ctr", "ty")}, "digests": r["dg"]})
    for r in [r for r in rj if r["kind"] == "range" and len(r["raw"]) > 16 + 8 * len(r["res"])][:1]:
        chk.sample({"modulus": sig_rj(r, [])["modulus"], "raw_draws_consumed": (len(r["raw"]) - 16) // 8, "results": len(r["res"])})
    chk.note("binding_demonstrated", "corrupted records (digest, stray bit, non-permutation, equal outputs, draw result, tail, quotient hint) and a code mutation in a scratch copy (Prf keeps a call counter between calls) were rejected by PRFTrace (41520 histories: single_table) / RejectionTrace, 2026-09-23")
    chk.exhaustive = False
    chk.assumptions += [
        "\"unbiased\" is decided as correctness of the rejection rule (exactly uniform given a uniform byte source, proved "
        "by enumeration on scaled sources and validated draw by draw on the real constants) and of the flushing of "
        "unused bits; it is not a statistical test of AES",
        "outputs larger than a few bytes are compared by digest (total length + FNV-1a 64 of the structured bytes); "
        "\"unrelated values for different keys/counters\" is checked as inequality of outputs of at least 64 bits",
        "evaluator instances are interchangeable, so histories are enumerated up to renaming of instances",
        "generate_u32_in_range is private: it is exercised through PermutationFromPRF, whose raw stream is obtained "
        "from PRF(key, iv, u8[N]) of another evaluator instance (same key and counter give the same AES counter stream)",
        "draws of 5 bytes need permutations of more than 2^24 elements and draws of 6..8 bytes are unreachable through "
        "the API (the modulus is a u32): they are not exercised; draws of 4 bytes are validated on the last steps of "
        "shuffles of 2^16 + k elements, starting from the code's own shuffle of n0 elements (permext)",
    ]


def replay(path):
    print("re-run `bin/check C15` with the VERIF_SEED of the evidence file; the replay file holds the failing record")
    return 2
