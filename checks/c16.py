"""C16  Comparison operations equal integer comparison.

1. design check (TLC, spec/BitOpsAlg.tla): the comparison algorithm of the code (two-bit state, priority join,
   odd/even shrink with remainders, MSB flip) = integer comparison of the encoded numbers, and = the bit-string
   definitions used to judge wide operands, for EVERY operand pair of every width 1..MAXW, signed and unsigned.
2. conformance (B2): the harness runs the real custom operations (GreaterThan, ..., Equal, Min, Max; instantiate +
   SimpleEvaluator) on ALL operand pairs of widths 1..6 (8), on boundary / adjacent / one-bit-apart / random pairs of
   widths up to 128, and on broadcast shapes; TLC (spec/BitOpsTrace.tla) judges every element and the exhaustiveness.
"""
import random
from . import lib
from . import bitrel_common as bc

OPS = ["eq", "ne", "lt", "le", "gt", "ge", "min", "max"]


def variants():
    for op in OPS:
        for sg in ((0,) if op in ("eq", "ne") else (0, 1)):
            yield op, sg


def run(chk):
    quick = chk.tier == "quick"
    rnd = random.Random(chk.seed)
    # 1. design level
    maxw = 8 if quick else 11
    res = lib.tlc("BitOpsAlg", "MC_BitOpsAlg_cmp.cfg", env={"MAXW": maxw}, workers=bc.workers(8 if quick else 12),
                  timeout=600 if quick else 3000, coverage=False)
    chk.add_tlc(res, "design")
    if not res.ok:
        chk.violation({"level": "design", "invariant": res.violated}, {"tlc": res.trace[-4000:]})
    chk.note("design_widths_all_pairs", "1..%d" % maxw)
    chk.note("design_operand_pairs", sum(4 ** w for w in range(1, maxw + 1)))

    # 2. the code
    jobs = []
    exh_w = range(1, 7) if quick else range(1, 9)
    for w in exh_w:
        for op, sg in variants():
            jobs.append({"id": len(jobs), "op": op, "sg": sg, "w": w, "exh": True})
    wide = [7, 9, 12, 16, 17, 31, 32, 33, 63, 64, 65, 100, 127, 128]
    for w in wide:
        pairs = bc.operand_pairs(w, rnd, nrand=30 if quick else 200)
        a, b = [bc.s(p[0]) for p in pairs], [bc.s(p[1]) for p in pairs]
        for op, sg in variants():
            jobs.append({"id": len(jobs), "op": op, "sg": sg, "w": w, "a": a, "b": b})
    # broadcasting: row shapes (without the bit dimension) with size-1 and missing dimensions
    shapes = [([2, 1], [3]), ([3], [2, 1, 1]), ([1], [4]), ([], [2]), ([], []), ([2, 1, 3], [1, 2, 1]), ([1, 1], [1])]
    for w in (1, 3, 8, 64):
        for sa, sb in shapes:
            na = 1
            for d in sa:
                na *= d
            nb = 1
            for d in sb:
                nb *= d
            pool = bc.boundary(w) + [rnd.getrandbits(w) for _ in range(6)]
            for op, sg in variants():
                a = [bc.s(rnd.choice(pool)) for _ in range(na)]
                b = [bc.s(rnd.choice(pool)) for _ in range(nb)]
                jobs.append({"id": len(jobs), "op": op, "sg": sg, "w": w, "a": a, "b": b, "sa": sa, "sb": sb})
    recs, bad = bc.run_ops(chk, jobs, "cmp", workers=bc.workers(4 if quick else 8))
    for rec, v in bad:
        sig = {"op": rec["op"], "signed": rec["sg"], "w": rec["w"], "why": v["why"],
               "broadcast": rec["sa"] != rec["sb"]}
        chk.violation(sig, {"cmd": "ops", "jobs_file": chk.path("jobs_cmp.ndjson"), "job_id": rec["id"], "verdict": v, "case": bc.small(rec, v["idx"]), "job": {k: (v if not isinstance(v, list) or len(v) <= 24 else "%d values (seed %d)" % (len(v), chk.seed)) for k, v in jobs[rec["id"]].items()}})
    chk.note("exhaustive_widths_on_code", list(exh_w))
    chk.note("exhaustive_pairs_on_code", sum(bc.n_elems(r) for r in recs if r["exh"] == 1))
    chk.note("wide_widths", wide)
    chk.note("elements_judged", sum(bc.n_elems(r) for r in recs))
    chk.note("batches", len(recs))
    chk.note("error_configs_checked", sum(1 for r in recs if r["out"] == "err"))
    chk.exhaustive = True
    for r in recs:
        if r["out"] == "ok" and r["exh"] == 0 and r["w"] >= 64 and r["sa"] == r["sb"] == r["so"] and len(r["a"]) > 7:
            chk.sample({"op": r["op"], "signed": r["sg"], "w": r["w"], "a": "".join(map(str, r["a"][7])),
                        "b": "".join(map(str, r["b"][7])), "result": r["r"][7], "bits": "LSB first"})
    if not chk.samples:
        r = recs[0]
        chk.sample({"op": r["op"], "signed": r["sg"], "w": r["w"], "a": r["a"][:4], "b": r["b"][:4], "result": r["r"][:4]})
    chk.assumptions += [
        "operands are bit arrays [..., w], least significant bit first (layout of A2B)",
        "signed comparison of 1-bit operands is rejected by the library (documented); the check expects the error",
    ]


def replay(path):
    return bc.replay(path)
