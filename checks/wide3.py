"""Three-party runs at the real widths (phase of C02, also used by C18/C19): the harness executes compiled graphs as three
separate parties with the REAL evaluator (harness/src/party3.rs: the runtime of spec/ABY3Run.tla) and TLC
(spec/Run3Trace.tla) judges the final condition of C02 on every run."""
import random
from . import lib
from .progs import S, A, inp, nd, prog

NULL = "row_mask_sentinel_639bcf36-a1b0-11ed-b93a-423c7c497182"   # type_inference.rs NULL_HEADER
MASK = {"b": 1, "u8": 8, "i8": 8, "u16": 16, "i16": 16, "u32": 32, "i32": 32, "u64": 64, "i64": 64, "u128": 128, "i128": 128}


def named(names, ts):
    return {"k": "n", "nm": list(names), "el": list(ts)}


def numel(t):
    n = 1
    for d in t.get("sh", []):
        n *= d
    return n


def rand_value(t, rng, small=False):
    """JSON value (decimal strings) of type t"""
    k = t["k"]
    if k in ("s", "a"):
        w = MASK[t["st"]]
        out = []
        for _ in range(numel(t)):
            r = rng.random()
            if w == 1:
                out.append(str(rng.randrange(2)))
            elif small or r < 0.3:
                out.append(str(rng.randrange(0, 8)))
            elif r < 0.5:
                out.append(str(rng.choice([0, 1, (1 << w) - 1, 1 << (w - 1), (1 << (w - 1)) - 1])))
            else:
                out.append(str(rng.randrange(1 << w)))
        return out
    if k == "v":
        return [rand_value(t["of"], rng, small) for _ in range(t["n"])]
    return [rand_value(e, rng, small) for e in t["el"]]


def table(rng, n, keyst, payload, key_pool, null_first=True):
    """a join table: null column, key column `k` (unique keys on live rows), one payload column"""
    keys = rng.sample(key_pool, n)
    nulls = [1 if rng.random() < 0.8 else 0 for _ in range(n)]
    cols = [(NULL, A("b", [n]), [str(x) for x in nulls]), ("k", A(keyst, [n]), [str(x) for x in keys]),
            (payload, A("i32", [n]), [str(rng.randrange(1, 1000)) for _ in range(n)])]
    if not null_first:
        cols = [cols[1], cols[0], cols[2]]
    return named([c[0] for c in cols], [c[1] for c in cols]), [c[2] for c in cols]


def programs(tier, seed):
    """(name, prog, input types, class) ; class 'exact' = output must equal the plaintext result"""
    ps = []
    for st in ("u64", "i32", "u128"):
        t, a3 = S(st), A(st, [3])
        ps.append(("mul_%s" % st, prog([inp(a3), inp(a3), nd("Multiply", [1, 2])]), [a3, a3]))
        ps.append(("mul_add_mul_%s" % st, prog([inp(t), inp(t), inp(t), nd("Multiply", [1, 2]), nd("Add", [4, 3]), nd("Multiply", [5, 1])]), [t, t, t]))
        ps.append(("prods_bcast_%s" % st, prog([inp(A(st, [2, 3])), inp(A(st, [2, 3])), inp(a3), inp(a3), nd("Multiply", [1, 2]), nd("Multiply", [3, 4]), nd("Add", [5, 6])]),
                   [A(st, [2, 3]), A(st, [2, 3]), a3, a3]))
    # rows built from private and public data, stacked through a vector, addressed by one and by two indices
    for ix in ([1], [2, 1], [0, 2]):
        t3 = A("i32", [3])
        ps.append(("stacked_rows_get_%s" % "_".join(map(str, ix)),
                   prog([inp(t3), inp(t3), inp(t3), nd("Multiply", [1, 2]), nd("Add", [2, 3]), nd("Subtract", [1, 3]),
                         nd("CreateVector", [4, 5, 6], t=t3), nd("VectorToArray", [7]), nd("Get", [8], index=ix)]), [t3, t3, t3]))
    m22 = A("i64", [2, 2])
    ps.append(("matmul_i64", prog([inp(m22), inp(m22), nd("Matmul", [1, 2])]), [m22, m22]))
    # two directly consecutive sums whose inner axis lies after the outer one (round-3 change C01_F: a fused Sum(Sum(x)))
    t334 = A("i32", [3, 3, 4])
    ps.append(("sum_of_sum_i32", prog([inp(t334), inp(t334), nd("Multiply", [1, 2]), nd("Sum", [3], axes=[2]), nd("Sum", [4], axes=[0])]), [t334, t334]))
    ps.append(("sum_of_sum_pub_i64", prog([inp(A("i64", [2, 3, 2])), inp(A("i64", [2, 3, 2])), nd("Add", [1, 2]), nd("Sum", [3], axes=[1, 2]), nd("Sum", [4], axes=[0])]),
               [A("i64", [2, 3, 2]), A("i64", [2, 3, 2])]))
    ps.append(("gemm_nt_i64", prog([inp(A("i64", [2, 3])), inp(A("i64", [2, 3])), nd("Gemm", [1, 2], ta=False, tb=True)]), [A("i64", [2, 3]), A("i64", [2, 3])]))
    ps.append(("gemm_tn_u64_then_mul", prog([inp(A("u64", [2, 2])), inp(A("u64", [2, 2])), nd("Gemm", [1, 2], ta=True, tb=False), nd("Multiply", [3, 1])]), [A("u64", [2, 2]), A("u64", [2, 2])]))
    ps.append(("dot_i32", prog([inp(A("i32", [3])), inp(A("i32", [3])), nd("Dot", [1, 2])]), [A("i32", [3]), A("i32", [3])]))
    ps.append(("mixmul_i64", prog([inp(A("i64", [3])), inp(A("b", [3])), nd("MixedMultiply", [1, 2])]), [A("i64", [3]), A("b", [3])]))
    ps.append(("a2b_u64", prog([inp(A("u64", [2])), inp(A("u64", [2])), nd("Add", [1, 2]), nd("A2B", [3])]), [A("u64", [2]), A("u64", [2])]))
    ps.append(("b2a_i32", prog([inp(A("b", [2, 32])), inp(A("b", [2, 32])), nd("Add", [1, 2]), nd("B2A", [3], st="i32")]), [A("b", [2, 32]), A("b", [2, 32])]))
    ps.append(("a2b_b2a_mul_i32", prog([inp(A("i32", [2])), inp(A("i32", [2])), nd("Multiply", [1, 2]), nd("A2B", [3]), nd("B2A", [4], st="i32"), nd("Multiply", [5, 1])]),
               [A("i32", [2]), A("i32", [2])]))
    for cname, sg in (("GreaterThan", True), ("LessThanEqualTo", False), ("Equal", False), ("Min", True), ("Max", False)):
        st = "i32" if sg else "u32"
        t3 = A(st, [3])
        ps.append(("%s_%s" % (cname, st), prog([inp(t3), inp(t3), nd("A2B", [1]), nd("A2B", [2]),
                                               {"op": "CustomNamed", "cname": cname, "signed": sg, "deps": [3, 4]}]), [t3, t3]))
    # library custom operations on bit strings, through the whole pipeline: clip, adder, multiplexer, long division, not / or
    def cn(name, deps, **kw):
        d = {"op": "CustomNamed", "cname": name, "deps": deps}
        d.update(kw)
        return d
    t2 = A("i32", [2])
    ps.append(("clip2k_i32", prog([inp(t2), inp(t2), nd("Add", [1, 2]), nd("A2B", [3]), cn("Clip2K", [4], k=5), nd("B2A", [5], st="i32")]), [t2, t2]))
    ps.append(("binary_add_u8", prog([inp(A("u8", [3])), inp(A("u8", [3])), nd("A2B", [1]), nd("A2B", [2]), cn("BinaryAdd", [3, 4], overflow=False), nd("B2A", [5], st="u8")]),
               [A("u8", [3]), A("u8", [3])]))
    ps.append(("mux_i32", prog([inp(A("b", [3])), inp(A("i32", [3])), inp(A("i32", [3])), cn("Mux", [1, 2, 3])]), [A("b", [3]), A("i32", [3]), A("i32", [3])]))
    ps.append(("mux_bits", prog([inp(A("b", [3, 1])), inp(A("b", [3, 4])), inp(A("b", [4])), cn("Mux", [1, 2, 3])]), [A("b", [3, 1]), A("b", [3, 4]), A("b", [4])]))
    ps.append(("not_or_bits", prog([inp(A("b", [4])), inp(A("b", [4])), cn("Not", [1]), cn("Or", [3, 2])]), [A("b", [4]), A("b", [4])]))
    for sg, st in ((True, "i8"), (False, "u8")):
        t1 = A(st, [2])
        ps.append(("long_division_%s" % st, prog([inp(t1), inp(t1), nd("A2B", [1]), nd("A2B", [2]), cn("LongDivision", [3, 4], signed=sg)]), [t1, t1]))
    # sorting and permutations
    kt, vt = A("b", [4, 3]), A("i64", [4])
    ps.append(("sort_bits", prog([inp(kt), inp(vt), nd("CreateNamedTuple", [1, 2], nm=["k", "v"]), nd("Sort", [3], key="k")]), [kt, vt]))
    ikt = A("i32", [4])
    ps.append(("sort_int_key", prog([inp(ikt), inp(vt), nd("CreateNamedTuple", [1, 2], nm=["k", "v"]),
                                     {"op": "CustomNamed", "cname": "SortByIntegerKey", "key": "k", "deps": [3]}]), [ikt, vt]))
    return ps


def iterate_programs():
    """(name, program with a body graph, input types): Iterate through the whole pipeline in every inlining mode; the
    annotated bodies select the depth-optimised inliners (associative: prefix sums over a NON-commutative product)"""
    ps = []
    m = A("i64", [2, 2])
    for n in (5, 16, 19):
        body = {"nodes": [inp(m), inp(m), nd("Matmul", [1, 2]), nd("CreateTuple", [3, 3])], "out": 4, "gann": ["AssociativeOperation"]}
        vt = {"k": "v", "n": n, "of": m}
        main = {"nodes": [inp(m), inp(vt), {"op": "Iterate", "deps": [1, 2], "gdeps": [1]}], "out": 3}
        ps.append(("iter_assoc_matmul_%d" % n, {"graphs": [body, main], "main": 2}, [m, vt]))
    # a general (unannotated) body: running sum of products, state and output differ
    t = A("i32", [2])
    body = {"nodes": [inp(t), inp(t), nd("Multiply", [1, 2]), nd("Add", [3, 2]), nd("CreateTuple", [4, 3])], "out": 5}
    vt = {"k": "v", "n": 4, "of": t}
    main = {"nodes": [inp(t), inp(vt), {"op": "Iterate", "deps": [1, 2], "gdeps": [1]}], "out": 3}
    ps.append(("iter_general_muladd_4", {"graphs": [body, main], "main": 2}, [t, vt]))
    # the body hands its current element on as the next state ("previous element" / adjacent differences): the returned
    # state is an input node of the body, but not the state input (round-3 change C01_E: a pass-through fast path)
    body = {"nodes": [inp(t), inp(t), nd("Subtract", [2, 1]), nd("CreateTuple", [2, 3])], "out": 4}
    vt5 = {"k": "v", "n": 5, "of": t}
    main = {"nodes": [inp(t), inp(vt5), {"op": "Iterate", "deps": [1, 2], "gdeps": [1]}], "out": 3}
    ps.append(("iter_prev_element_5", {"graphs": [body, main], "main": 2}, [t, vt5]))
    # ... and one that really passes its state through unchanged while emitting an output
    body = {"nodes": [inp(t), inp(t), nd("Multiply", [2, 1]), nd("CreateTuple", [1, 3])], "out": 4}
    main = {"nodes": [inp(t), inp(vt5), {"op": "Iterate", "deps": [1, 2], "gdeps": [1]}], "out": 3}
    ps.append(("iter_state_passthrough_5", {"graphs": [body, main], "main": 2}, [t, vt5]))
    # a Call of a graph used twice
    callee = {"nodes": [inp(t), inp(t), nd("Multiply", [1, 2]), nd("Subtract", [3, 1])], "out": 4}
    main = {"nodes": [inp(t), inp(t), {"op": "Call", "deps": [1, 2], "gdeps": [1]}, {"op": "Call", "deps": [3, 1], "gdeps": [1]}], "out": 4}
    ps.append(("call_twice", {"graphs": [callee, main], "main": 2}, [t, t]))
    return ps


def perm_jobs(rng):
    js = []
    for inv in (False, True):
        p = list(range(4))
        rng.shuffle(p)
        js.append(("apply_perm_inv%d" % inv, prog([inp(A("i32", [4, 2])), inp(A("u64", [4])), nd("ApplyPermutation", [1, 2], inv=inv)]),
                   [rand_value(A("i32", [4, 2]), rng), [str(x) for x in p]]))
    return js


OWNER_SETS = {2: [[0, 1], [1, 2], [2, 0], [0, "pub"], ["sh", 1]],
              3: [[0, 1, 2], [2, 1, 0], ["pub", 1, 2]],
              4: [[0, 1, 2, 0], [1, 1, 2, 2]]}
OUT_SETS = [[2, 0], [1], []]


def jobs(tier, seed):
    rng = random.Random(seed * 11 + 3)
    js = []
    jid = 0
    nseeds = 2 if tier == "quick" else 8
    junk = ["zeros", "random"]
    for name, p, its in programs(tier, seed):
        owners_list = OWNER_SETS[len(its)]
        if tier == "quick":
            owners_list = owners_list[:2] + owners_list[3:4]
        for oi, ow in enumerate(owners_list):
            outs = OUT_SETS[(oi + len(name)) % len(OUT_SETS)]
            jid += 1
            vals = [rand_value(t, rng) for t in its]
            if name.startswith("long_division"):
                vals[1] = [v if int(v) != 0 else "3" for v in vals[1]]      # the property speaks of non-zero divisors
            js.append({"id": jid, "name": name, "family": "core", "prog": p, "owners": ow, "outs": outs, "mode": ["Simple", "Default", "Extreme"][oi % 3],
                       "inputs": vals, "seeds": [seed % 1000 + s for s in range(nseeds)], "junk": junk})
        # all inputs public, result returned in shared form / revealed to one party
        for outs in ([], [1]):
            jid += 1
            js.append({"id": jid, "name": name, "family": "core", "prog": p, "owners": ["pub"] * len(its), "outs": outs, "mode": "Simple",
                       "inputs": vals, "seeds": [seed % 1000], "junk": junk[:1]})
    for name, p, its in iterate_programs():
        for oi, (ow, outs) in enumerate((([0, 1], [2]), ([1, 2], []), (["pub", 0], [0, 1]))):
            for mode in ("Simple", "Default", "Extreme"):
                if tier == "quick" and (oi + len(mode)) % 2 == 1 and not name.endswith(("_16", "_5")):
                    continue
                jid += 1
                js.append({"id": jid, "name": name, "family": "iter", "prog": p, "owners": ow, "outs": outs, "mode": mode,
                           "inputs": [rand_value(t, rng, small=True) for t in its], "seeds": [seed % 1000 + s for s in range(nseeds)], "junk": junk[:1 if tier == "quick" else 2]})
    for name, p, vals in perm_jobs(rng):
        for ow in ([0, 1], [1, "pub"], ["sh", 2]):
            jid += 1
            js.append({"id": jid, "name": name, "family": "perm", "prog": p, "owners": ow, "outs": [[2, 0], [1], []][jid % 3], "mode": "Simple",
                       "inputs": vals, "seeds": [seed % 1000 + s for s in range(nseeds)], "junk": junk})
    # joins: 4 types x owner patterns, tables of 3 and 2 rows (u8 key, one payload column each), null column first
    pool = list(range(1, 9))
    for jt in ("Inner", "Left", "Union", "Full"):
        for ow in ([0, 1], [0, "pub"], ["pub", 1], ["sh", 1]):
            ta, va = table(rng, 3, "u8", "pa", pool)
            tb, vb = table(rng, 2, "u8", "pb", pool)
            jid += 1
            js.append({"id": jid, "name": "join_%s" % jt, "family": "join", "prog": prog([inp(ta), inp(tb), nd("Join", [1, 2], jt=jt, hd=[["k", "k"]])]),
                       "owners": ow, "outs": [2, 0], "mode": "Simple", "inputs": [va, vb],
                       "seeds": [seed % 1000 + s for s in range(nseeds)], "junk": junk})
    # seeded random well-typed programs over the MPC-compilable operations, random owners / output sets / inline modes
    from . import randprog
    nrand = 150 if tier == "quick" else 2500
    for name, p, its in randprog.programs(seed, nrand):
        ow = [rng.choice([0, 1, 2, 0, 1, 2, "pub", "sh"]) for _ in its]
        outs = rng.choice([[0], [1], [2], [2, 0], [0, 1], [1, 2, 0], []])
        if all(o == "pub" for o in ow) and jid % 3:
            ow[0] = 1       # (one in three all-public programs is kept: public results, revealed or returned in shared form)
        jid += 1
        js.append({"id": jid, "name": name, "family": "rand", "prog": p, "owners": ow, "outs": outs, "mode": rng.choice(["Simple", "Default", "Extreme"]),
                   "inputs": [rand_value(t, rng) for t in its], "seeds": [seed % 1000 + jid % 7], "junk": ["random"]})
    return js


def run(chk, tag="wide3", families=None, signature_extra=None):
    """returns (records, list of (record, reason)) after reporting nothing: the caller turns failures into violations"""
    js = [j for j in jobs(chk.tier, chk.seed) if families is None or j["family"] in families]
    jp, op = chk.path(tag + ".jobs.ndjson"), chk.path(tag + ".trace.ndjson")
    lib.write_ndjson(jp, js)
    p = lib.harness(["run3", jp, op], timeout=3000)
    failed = [l for l in p.stderr.splitlines() if l.startswith("job ")]
    recs = lib.read_ndjson(op)
    if not recs:
        raise lib.ToolError("run3 produced no records: " + " | ".join(failed[:3]))
    res = lib.tlc("Run3Trace", "MC_Run3Trace.cfg", env={"TRACE": op}, workers=8, timeout=1500, coverage=False)
    chk.add_tlc(res, tag)
    if not res.ok:
        raise lib.ToolError("Run3Trace did not complete: %s" % res.error)
    import re
    bad, bad1 = [], []
    for l in res.printed:
        m = re.match(r'<<"BAD3", (\d+)>>', l)
        if m:
            bad.append(recs[int(m.group(1)) - 1])
        m = re.match(r'<<"BAD1", (\d+)>>', l)
        if m:
            bad1.append(recs[int(m.group(1)) - 1])
    byid = {j["id"]: j for j in js}
    return js, recs, bad, bad1, failed, byid
