"""Seeded random well-typed source programs over the MPC-compilable operations (used by the wide phase of C01/C02 and by
the optimiser contract). The generator tracks types with the builder's own rules (a program the builder rejects is skipped
by the harness, so a slightly too liberal rule only wastes a case). Truncate is excluded (approximate, C05)."""
import random
from .progs import S, A, inp, nd, prog, idx, sub, ELL, bshape

DIMS = [1, 2, 3]
BITS = {"b": 1, "u8": 8, "i8": 8, "u16": 16, "i16": 16, "u32": 32, "i32": 32, "u64": 64, "i64": 64, "u128": 128, "i128": 128}


def T(st, sh):
    return S(st) if len(sh) == 0 else A(st, list(sh))


def shape_of(t):
    return tuple(t.get("sh", [])) if t["k"] in ("s", "a") else None


class Gen:
    def __init__(self, rng, st):
        self.rng, self.st = rng, st
        self.nodes, self.types = [], []

    def add(self, node, t):
        self.nodes.append(node)
        self.types.append(t)
        return len(self.nodes)

    def nums(self, st=None):
        return [i + 1 for i, t in enumerate(self.types) if t["k"] in ("s", "a") and (st is None or t["st"] == st)]

    def arrays(self, st=None, rank=None):
        return [i for i in self.nums(st) if self.types[i - 1]["k"] == "a" and (rank is None or len(self.types[i - 1]["sh"]) == rank)]

    def pick(self, xs):
        return self.rng.choice(xs) if xs else None


def random_shape(rng, maxrank=2):
    r = rng.choice([0, 1, 1, 2, 2][:maxrank * 2 + 1])
    return tuple(rng.choice(DIMS) for _ in range(r))


def gen_program(rng, st, n_ops):
    g = Gen(rng, st)
    n_in = rng.randint(2, 4)
    in_types = []
    for k in range(n_in):
        r = rng.random()
        if r < 0.75:
            t = T(st, random_shape(rng))
        elif r < 0.85 and st != "b":
            t = T("b", random_shape(rng))
        elif r < 0.93:
            t = {"k": "t", "el": [T(st, random_shape(rng)), T(st, random_shape(rng))]}
        else:
            t = {"k": "v", "n": 2, "of": T(st, random_shape(rng, 1))}
        g.add(inp(t), t)
        in_types.append(t)
    kinds = ["bin", "bin", "bin", "mul", "mul", "sum", "cumsum", "slice", "get", "permute", "reshape", "stack", "concat", "dot", "matmul",
             "gemm", "tuple", "tget", "vector", "vget", "a2v", "v2a", "repeat", "zip", "const", "mixmul", "a2b", "b2a", "named", "nget"]
    for _ in range(n_ops):
        kind = rng.choice(kinds)
        try:
            if kind in ("bin", "mul"):
                xs = g.nums(st)
                a, b = g.pick(xs), g.pick(xs)
                sa, sb = shape_of(g.types[a - 1]), shape_of(g.types[b - 1])
                r = bshape(sa, sb)
                pa, pb = (1,) * (len(r) - len(sa)) + sa, (1,) * (len(r) - len(sb)) + sb
                if all(x == y or x == 1 or y == 1 for x, y in zip(pa, pb)):
                    op = "Multiply" if kind == "mul" else rng.choice(["Add", "Subtract"])
                    g.add(nd(op, [a, b]), T(st, r))
            elif kind == "mixmul" and st != "b":
                xs, bs = g.nums(st), g.nums("b")
                if xs and bs:
                    a, b = g.pick(xs), g.pick(bs)
                    sa, sb = shape_of(g.types[a - 1]), shape_of(g.types[b - 1])
                    r = bshape(sa, sb)
                    pa, pb = (1,) * (len(r) - len(sa)) + sa, (1,) * (len(r) - len(sb)) + sb
                    if all(x == y or x == 1 or y == 1 for x, y in zip(pa, pb)):
                        g.add(nd("MixedMultiply", [a, b]), T(st, r))
            elif kind == "sum":
                a = g.pick(g.arrays(st))
                if a:
                    sh = shape_of(g.types[a - 1])
                    axes = sorted(rng.sample(range(len(sh)), rng.randint(1, len(sh))))
                    if rng.random() < 0.3:
                        axes = axes[::-1]
                    g.add(nd("Sum", [a], axes=axes), T(st, tuple(d for i, d in enumerate(sh) if i not in axes)))
            elif kind == "cumsum":
                a = g.pick(g.arrays(st))
                if a:
                    sh = shape_of(g.types[a - 1])
                    g.add(nd("CumSum", [a], axis=rng.randrange(len(sh))), g.types[a - 1])
            elif kind == "slice":
                a = g.pick(g.arrays())
                if a:
                    t = g.types[a - 1]
                    sh = shape_of(t)
                    d0 = sh[0]
                    choice = rng.random()
                    if choice < 0.4:
                        g.add(nd("GetSlice", [a], slice=[idx(rng.randrange(-d0, d0))]), T(t["st"], sh[1:]))
                    elif choice < 0.7:
                        g.add(nd("GetSlice", [a], slice=[ELL, sub(None, None, -1)]), t)
                    elif d0 >= 2:
                        g.add(nd("GetSlice", [a], slice=[sub(1, None, None)]), T(t["st"], (d0 - 1,) + sh[1:]))
            elif kind == "get":
                a = g.pick(g.arrays())
                if a:
                    t = g.types[a - 1]
                    sh = shape_of(t)
                    k = rng.randint(1, len(sh))      # any number of leading axes
                    g.add(nd("Get", [a], index=[rng.randrange(sh[i]) for i in range(k)]), T(t["st"], sh[k:]))
            elif kind == "permute":
                a = g.pick(g.arrays(None, 2))
                if a:
                    t = g.types[a - 1]
                    sh = shape_of(t)
                    g.add(nd("PermuteAxes", [a], perm=[1, 0]), T(t["st"], (sh[1], sh[0])))
            elif kind == "reshape":
                a = g.pick(g.arrays())
                if a:
                    t = g.types[a - 1]
                    n = 1
                    for d in shape_of(t):
                        n *= d
                    g.add(nd("Reshape", [a], t=T(t["st"], (n,))), T(t["st"], (n,)))
            elif kind == "stack":
                xs = g.nums(st)
                a, b = g.pick(xs), g.pick(xs)
                sa, sb = shape_of(g.types[a - 1]), shape_of(g.types[b - 1])
                r = bshape(sa, sb)
                pa, pb = (1,) * (len(r) - len(sa)) + sa, (1,) * (len(r) - len(sb)) + sb
                if all(x == y or x == 1 or y == 1 for x, y in zip(pa, pb)) and len(r) <= 2:
                    g.add(nd("Stack", [a, b], sh=[2]), T(st, (2,) + r))
            elif kind == "concat":
                a = g.pick(g.arrays(st))
                if a:
                    sh = shape_of(g.types[a - 1])
                    cands = [i for i in g.arrays(st) if shape_of(g.types[i - 1])[1:] == sh[1:]]
                    b = g.pick(cands)
                    sb = shape_of(g.types[b - 1])
                    g.add(nd("Concatenate", [a, b], axis=0), T(st, (sh[0] + sb[0],) + sh[1:]))
            elif kind == "dot":
                a = g.pick(g.arrays(st, 1))
                if a:
                    n = shape_of(g.types[a - 1])[0]
                    b = g.pick([i for i in g.arrays(st, 1) if shape_of(g.types[i - 1])[0] == n])
                    g.add(nd("Dot", [a, b]), S(st))
            elif kind == "matmul":
                a = g.pick(g.arrays(st, 2))
                if a:
                    sa = shape_of(g.types[a - 1])
                    b = g.pick([i for i in g.arrays(st, 2) if shape_of(g.types[i - 1])[0] == sa[1]])
                    if b:
                        g.add(nd("Matmul", [a, b]), T(st, (sa[0], shape_of(g.types[b - 1])[1])))
            elif kind == "gemm":
                a = g.pick(g.arrays(st, 2))
                if a:
                    sa = shape_of(g.types[a - 1])
                    ta, tb = rng.random() < 0.5, rng.random() < 0.5
                    ea = (sa[1], sa[0]) if ta else sa
                    cands = []
                    for i in g.arrays(st, 2):
                        sb0 = shape_of(g.types[i - 1])
                        eb = (sb0[1], sb0[0]) if tb else sb0
                        if eb[0] == ea[1]:
                            cands.append((i, eb))
                    if cands:
                        b, eb = rng.choice(cands)
                        g.add(nd("Gemm", [a, b], ta=ta, tb=tb), T(st, (ea[0], eb[1])))
            elif kind == "tuple":
                ds = [rng.randint(1, len(g.nodes)) for _ in range(rng.randint(1, 3))]
                g.add(nd("CreateTuple", ds), {"k": "t", "el": [g.types[d - 1] for d in ds]})
            elif kind == "tget":
                ts = [i + 1 for i, t in enumerate(g.types) if t["k"] in ("t", "n") and t["el"]]
                a = g.pick(ts)
                if a:
                    i = rng.randrange(len(g.types[a - 1]["el"]))
                    g.add(nd("TupleGet", [a], i=i), g.types[a - 1]["el"][i])
            elif kind == "named":
                ds = [rng.randint(1, len(g.nodes)) for _ in range(2)]
                nm = rng.choice([["p", "q"], ["q", "p"], ["second", "first"]])     # declaration order need not be name order
                g.add(nd("CreateNamedTuple", ds, nm=nm), {"k": "n", "nm": nm, "el": [g.types[d - 1] for d in ds]})
            elif kind == "nget":
                ts = [i + 1 for i, t in enumerate(g.types) if t["k"] == "n"]
                a = g.pick(ts)
                if a:
                    i = rng.randrange(2)
                    g.add(nd("NamedTupleGet", [a], key=g.types[a - 1]["nm"][i]), g.types[a - 1]["el"][i])
            elif kind == "vector":
                a = g.pick(g.nums(st))
                if a:
                    t = g.types[a - 1]
                    same = [i + 1 for i, x in enumerate(g.types) if x == t]
                    ds = [a, g.pick(same)]
                    g.add(nd("CreateVector", ds, t=t), {"k": "v", "n": 2, "of": t})
            elif kind == "vget":
                vs = [i + 1 for i, t in enumerate(g.types) if t["k"] == "v"]
                a = g.pick(vs)
                if a:
                    k = g.add(nd("Constant", [], t=S("u64"), v=[str(rng.randrange(g.types[a - 1]["n"]))]), S("u64"))
                    g.add(nd("VectorGet", [a, k]), g.types[a - 1]["of"])
            elif kind == "a2v":
                a = g.pick(g.arrays())
                if a:
                    t = g.types[a - 1]
                    sh = shape_of(t)
                    g.add(nd("ArrayToVector", [a]), {"k": "v", "n": sh[0], "of": T(t["st"], sh[1:])})
            elif kind == "v2a":
                vs = [i + 1 for i, t in enumerate(g.types) if t["k"] == "v" and t["of"]["k"] in ("s", "a") and t["n"] > 0]
                a = g.pick(vs)
                if a:
                    t = g.types[a - 1]
                    g.add(nd("VectorToArray", [a]), T(t["of"]["st"], (t["n"],) + shape_of(t["of"])))
            elif kind == "repeat":
                a = g.pick(g.nums())
                if a:
                    g.add(nd("Repeat", [a], n=2), {"k": "v", "n": 2, "of": g.types[a - 1]})
            elif kind == "zip":
                vs = [i + 1 for i, t in enumerate(g.types) if t["k"] == "v" and t["n"] == 2]
                if len(vs) >= 1:
                    a, b = g.pick(vs), g.pick(vs)
                    g.add(nd("Zip", [a, b]), {"k": "v", "n": 2, "of": {"k": "t", "el": [g.types[a - 1]["of"], g.types[b - 1]["of"]]}})
            elif kind == "const":
                t = T(st, random_shape(rng, 1))
                which = rng.choice(["Zeros", "Ones", "Constant"])
                if which == "Constant":
                    n = 1
                    for d in shape_of(t):
                        n *= d
                    g.add(nd("Constant", [], t=t, v=[str(rng.randrange(1 << min(BITS[st], 16))) for _ in range(n)]), t)
                else:
                    g.add(nd(which, [], t=t), t)
            elif kind == "a2b" and st != "b":
                a = g.pick(g.nums(st))
                if a:
                    g.add(nd("A2B", [a]), T("b", shape_of(g.types[a - 1]) + (BITS[st],)))
            elif kind == "b2a" and st != "b":
                cands = [i for i in g.arrays("b") if shape_of(g.types[i - 1])[-1] == BITS[st]]
                a = g.pick(cands)
                if a:
                    g.add(nd("B2A", [a], st=st), T(st, shape_of(g.types[a - 1])[:-1]))
        except (IndexError, TypeError, ValueError):
            pass
    if len(g.nodes) == n_in:
        return None
    # output: a late node
    out = rng.randint(max(n_in + 1, len(g.nodes) - 1), len(g.nodes))
    return prog(g.nodes, out), in_types


def programs(seed, count, sts=("b", "i32", "u64", "u8", "i128")):
    rng = random.Random(seed * 104729 + 7)
    out = []
    k = 0
    while len(out) < count and k < count * 4:
        k += 1
        st = rng.choice(sts)
        r = gen_program(rng, st, rng.randint(3, 9))
        if r:
            out.append(("rand_%s_%d" % (st, k), r[0], r[1]))
    return out
