"""Wide-width privacy phase of C03 (spec/DetLeakTrace.tla): deterministic-leak freedom, a consequence of
ABY3Priv!Private, observed on three-party runs of compiled graphs with the REAL evaluator (harness/src/detleak.rs)
for the protocols whose tape space is beyond exhaustive enumeration (A2B, B2A, Truncate, comparisons, sort, ...)."""
import random, re
from . import lib, wide3
from .progs import S, A, inp, nd, prog

RUNS = {"quick": 20, "thorough": 32}     # false-alarm probability per node <= 2 * 4^-RUNS


def programs(tier, seed):
    ps = list(wide3.programs(tier, seed))
    for st, k in (("i64", 3), ("i32", 1), ("u64", 5), ("i8", 2)):
        t = A(st, [2])
        ps.append(("trunc2k_%s_%d" % (st, k), prog([inp(t), nd("Truncate", [1], scale_s=str(1 << k))]), [t]))
        ps.append(("trunc2k_sum_%s_%d" % (st, k), prog([inp(t), inp(t), nd("Add", [1, 2]), nd("Truncate", [3], scale_s=str(1 << k))]), [t, t]))
    for st, sc in (("i64", 10), ("i32", 3)):
        t = A(st, [2])
        ps.append(("truncgen_%s_%d" % (st, sc), prog([inp(t), nd("Truncate", [1], scale_s=str(sc))]), [t]))
    b8 = A("b", [2, 8])
    ps.append(("b2a_u8_direct", prog([inp(b8), nd("B2A", [1], st="u8")]), [b8]))
    ps.append(("b2a_i64_direct", prog([inp(A("b", [64])), nd("B2A", [1], st="i64")]), [A("b", [64])]))
    ps.append(("a2b_i32_direct", prog([inp(A("i32", [2])), nd("A2B", [1])]), [A("i32", [2])]))
    # container-typed private inputs (every element needs its own sharing randomness)
    v3 = {"k": "v", "n": 3, "of": A("i32", [2])}
    ps.append(("vec_input_mul", prog([inp(v3), inp(A("i32", [2])), nd("VectorToArray", [1]), nd("Multiply", [3, 2])]), [v3, A("i32", [2])]))
    tp = {"k": "t", "el": [A("u64", [2]), A("u64", [2]), S("u64")]}
    ps.append(("tuple_input_mul", prog([inp(tp), inp(S("u64")), nd("TupleGet", [1], i=0), nd("TupleGet", [1], i=1), nd("Multiply", [3, 4]), nd("Multiply", [5, 2])]), [tp, S("u64")]))
    nt = {"k": "n", "nm": ["a", "b"], "el": [A("i64", [3]), A("i64", [3])]}
    ps.append(("named_input_dot", prog([inp(nt), nd("NamedTupleGet", [1], key="a"), nd("NamedTupleGet", [1], key="b"), nd("Dot", [2, 3])]), [nt]))
    # one-element products: an output party learns x*y only, so two input vectors with the same product (x = 0) are one class for it
    ps.append(("prod_gemm_11_i64", prog([inp(A("i64", [1, 1])), inp(A("i64", [1, 1])), nd("Gemm", [1, 2], ta=False, tb=True)]), [A("i64", [1, 1]), A("i64", [1, 1])]))
    ps.append(("prod_gemm_11_b", prog([inp(A("b", [1, 1])), inp(A("b", [1, 1])), nd("Gemm", [1, 2], ta=False, tb=True)]), [A("b", [1, 1]), A("b", [1, 1])]))
    ps.append(("prod_matmul_11_u64", prog([inp(A("u64", [1, 1])), inp(A("u64", [1, 1])), nd("Matmul", [1, 2])]), [A("u64", [1, 1]), A("u64", [1, 1])]))
    ps.append(("prod_dot_1_i32", prog([inp(A("i32", [1])), inp(A("i32", [1])), nd("Dot", [1, 2])]), [A("i32", [1]), A("i32", [1])]))
    ps.append(("prod_mul_scalar_u64", prog([inp(S("u64")), inp(S("u64")), nd("Multiply", [1, 2])]), [S("u64"), S("u64")]))
    ps.append(("mixmul_direct", prog([inp(A("i64", [3])), inp(A("b", [3])), nd("MixedMultiply", [1, 2])]), [A("i64", [3]), A("b", [3])]))
    return ps


def zero_like(v):
    return [zero_like(x) for x in v] if isinstance(v, list) else "0"


def jobs(tier, seed):
    rng = random.Random(seed * 7 + 1)
    js, jid = [], 0
    from . import randprog
    plist = [(n, p, its, "core") for n, p, its in programs(tier, seed)]
    plist += [(n, p, its, "rand") for n, p, its in randprog.programs(seed + 5, 40 if tier == "quick" else 600)]
    for name, p, its, fam in plist:
        k = len(its)
        ownersets = []
        if k == 1:
            ownersets = [[0], [1], [2]]
        else:
            base = [[(i + s) % 3 for i in range(k)] for s in range(3)]
            ownersets = base + [[(0 if i == 0 else "pub") for i in range(k)]]
        if fam == "rand" or tier == "quick":
            ownersets = [ownersets[rng.randrange(len(ownersets))]] if fam == "rand" else ownersets[:2] + ownersets[3:]
        for oi, ow in enumerate(ownersets):
            for obs in range(3):
                hidden = [i for i in range(k) if ow[i] in (0, 1, 2) and ow[i] != obs]
                if not hidden:
                    continue
                if fam == "rand" and rng.random() < 0.5:
                    continue
                others = [q for q in range(3) if q != obs]
                outs = [[], [others[0]], [others[1]], others][(oi + obs + len(name)) % 4]
                ia = [wide3.rand_value(t, rng) for t in its]
                ib = list(ia)
                for i in hidden:
                    ib[i] = wide3.rand_value(its[i], rng)
                    if ib[i] == ia[i]:
                        ib[i] = wide3.rand_value(its[i], rng)
                jid += 1
                js.append({"id": jid, "name": name, "family": fam, "prog": p, "owners": ow, "outs": outs, "observer": obs,
                           "mode": ["Simple", "Default", "Extreme"][(oi + obs) % 3], "inputs_a": ia, "inputs_b": ib,
                           "runs": RUNS[tier], "seed": seed % 100000 + jid})
    # degenerate hidden inputs (all zero: equal sort keys, zero factors, ...) against random ones: leaks that are a
    # function of several messages (equality of two openings) show on inputs with structure
    for name, p, its, fam in plist:
        if fam != "core":
            continue
        k = len(its)
        for s in range(2 if tier == "quick" else 3):
            ow = [(i + s) % 3 for i in range(k)]
            for obs in range(3):
                hidden = [i for i in range(k) if ow[i] != obs]
                if not hidden or (tier == "quick" and (s + obs + len(name)) % 2):
                    continue
                others = [q for q in range(3) if q != obs]
                ib = [wide3.rand_value(t, rng) for t in its]
                ia = list(ib)
                for i in hidden:
                    ia[i] = zero_like(ib[i])
                jid += 1
                js.append({"id": jid, "name": name, "family": "zero", "prog": p, "owners": ow, "outs": [[], [others[0]], [others[1]]][(s + obs) % 3], "observer": obs,
                           "mode": ["Simple", "Default", "Extreme"][(s + obs) % 3], "inputs_a": ia, "inputs_b": ib, "runs": RUNS[tier], "seed": seed % 100000 + jid})
    # observers that DO receive the output: only for programs whose result forgets much of the hidden inputs (comparisons,
    # min / max, truncation, multiplexer, products with bits), so that a second input vector with the same result can be
    # found among random candidates (the harness picks the first candidate whose plaintext result is the same)
    forgetful = ("GreaterThan", "LessThanEqualTo", "Equal", "Min", "Max", "trunc2k", "truncgen", "mux_", "mixmul", "clip2k", "long_division", "not_or", "prod_")
    for name, p, its, fam in plist:
        if not name.startswith(forgetful):
            continue
        k = len(its)
        for s in range(3 if tier == "thorough" else 2):
            ow = [(i + s) % 3 for i in range(k)]
            for obs in range(3):
                hidden = [i for i in range(k) if ow[i] != obs]
                if not hidden:
                    continue
                ia = [wide3.rand_value(t, rng, small=True) for t in its]
                cands = []
                for _ in range(64):
                    ib = list(ia)
                    for i in hidden:
                        ib[i] = wide3.rand_value(its[i], rng, small=True)
                    if ib != ia:
                        cands.append(ib)
                jid += 1
                js.append({"id": jid, "name": name, "family": "outobs", "prog": p, "owners": ow, "outs": [obs] if (s + obs) % 2 else [obs, (obs + 1) % 3],
                           "observer": obs, "mode": ["Simple", "Default", "Extreme"][(s + obs) % 3], "inputs_a": ia, "inputs_b_candidates": cands,
                           "runs": RUNS[tier], "seed": seed % 100000 + jid})
    return js


def run(chk, tag="detleak"):
    """returns (jobs, records, [(record, leaking node ids)], rejected)"""
    js = jobs(chk.tier, chk.seed)
    jp, op = chk.path(tag + ".jobs.ndjson"), chk.path(tag + ".trace.ndjson")
    lib.write_ndjson(jp, js)
    import os, subprocess
    # the runs are independent: split the jobs over parallel harness processes
    nproc = 8
    parts = [js[i::nproc] for i in range(nproc)]
    lib.build_harness()
    procs = []
    for i, part in enumerate(parts):
        pj, po = chk.path("%s.jobs.%d.ndjson" % (tag, i)), chk.path("%s.trace.%d.ndjson" % (tag, i))
        lib.write_ndjson(pj, part)
        procs.append((subprocess.Popen([lib.BIN, "detleak", pj, po], stdout=subprocess.PIPE, stderr=subprocess.PIPE, text=True), po))
    recs, failed = [], []
    for p, po in procs:
        _, err = p.communicate(timeout=6000)
        if p.returncode != 0:
            raise lib.ToolError("detleak harness exited %d: %s" % (p.returncode, err[-2000:]))
        failed += [l for l in err.splitlines() if l.startswith("job ")]
        recs += lib.read_ndjson(po)
    skipped = [r for r in recs if "skipped" in r]
    recs = [r for r in recs if "skipped" not in r]
    chk.note(tag + "_output_observer_jobs_without_a_colliding_input", len(skipped))
    recs.sort(key=lambda r: r["id"])
    if not recs:
        raise lib.ToolError("detleak produced no records: " + " | ".join(failed[:3]))
    slim = [{"id": r["id"], "per": r["per"], "out": r["out"], "outobs": r["outobs"], "runs": r["runs"], "pairs": r.get("pairs", [])} for r in recs]
    chk.note(tag + "_value_pairs_judged", sum(len(r.get("pairs", [])) for r in recs))
    lib.write_ndjson(op, slim)
    res = lib.tlc("DetLeakTrace", "MC_DetLeakTrace.cfg", env={"TRACE": op}, workers=8, timeout=3000, coverage=False, xss="1g")
    chk.add_tlc(res, tag)
    if not res.ok:
        raise lib.ToolError("DetLeakTrace did not complete: %s" % res.error)
    leaks, masked = [], {}
    for l in res.printed:
        m = re.match(r'<<"LEAK", (\d+), \{(.*)\}>>', l)
        if m:
            leaks.append((recs[int(m.group(1)) - 1], [int(x) for x in m.group(2).split(",") if x.strip()]))
        m = re.match(r'<<"PAIRLEAK", (\d+), \{(.*)\}>>', l)
        if m:
            r = recs[int(m.group(1)) - 1]
            idx = [int(x) for x in m.group(2).split(",") if x.strip()]
            leaks.append((r, ["pair %s" % r["pair_nodes"][i - 1] for i in idx]))
        m = re.match(r'<<"MASKED", (\d+), (-?\d+)>>', l)
        if m:
            masked[int(m.group(1))] = int(m.group(2))
    return js, recs, leaks, failed, masked
