"""C01  Compiled protocol computes the same function as the source graph.

Decided by TLC on spec/ABY3Run.tla in mode "single" (one store -- the evaluation model of every test in
the repository) over compiled graphs exported from the real compile_context: for every input and every
idealised random tape the compiled graph's result (or the sum of its three output shares) equals the
value the TLA+ reference semantics (CCOps) gives to the source graph.
"""
from . import c02


def run(chk):
    c02.run(chk, mode="single")
    chk.assumptions[0] = "single-store evaluation of the compiled graph (mode \"single\" of spec/ABY3Run.tla)"
