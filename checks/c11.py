"""C11  Graph-building API keeps contexts well-formed; failed calls have no effect.

spec/ContextAPI.tla is the builder state machine (one action per public mutator of graphs.rs with the
code's guards in the code's order, failing calls stutter); its state has the shape of the public
projection of a real Context, so recorded projections are compared with `=`.

  exhaustive   TLC checks WellFormed / TypesInferred / ErrNoEffect / Frozen on the bounded feature models
               of spec/ContextAPIMC.tla (core, names, annot, rollback, foreign);
  B1 spec->impl TLC prints one call history per distinct state of those models; `ctxapi replay` rebuilds
               every state with the REAL API, records the full public projection (getters + serialized
               context) and then tries EVERY enabled call of the model's call table in that state,
               i.e. every transition of the model is executed; spec/ContextAPIReplay.tla (TLC) judges
               result class, successor projection, "Err => projection unchanged" and completeness;
  B2 impl->spec `ctxapi random` runs seeded random histories of 50-400 calls over the real operation set
               (two contexts, foreign handles, calls after finalization, add_node_with_type);
               spec/ContextAPITrace.tla validates them step by step with WellFormed at every step.

Interpretation note: "a finalized graph rejects every mutation" = add_node / set_output_node are
rejected; naming/annotating nodes of a finalized graph in an unfinalized context is allowed by the code
and by the documentation (names and annotations live in the context), so the specification allows it.
"""
import json, os, re, concurrent.futures
from . import lib

NNAMES_MC = "2"     # probe names a,b in the bounded models
NNAMES_TRACE = "3"  # the random driver uses a,b,c
SHARDS = 4

MODELS = {"quick": ["MC_ContextAPI_quick.cfg"],
          "thorough": ["MC_ContextAPI_core.cfg", "MC_ContextAPI_names.cfg", "MC_ContextAPI_annot.cfg",
                       "MC_ContextAPI_rollback.cfg", "MC_ContextAPI_foreign.cfg"]}
RANDOM = {"quick": (24, 50, 400), "thorough": (400, 50, 400)}   # histories, min length, max length


def _valid_type(t):
    k = t.get("k")
    if k == "s":
        return True
    if k == "a":
        return len(t["sh"]) > 0 and all(d > 0 for d in t["sh"])
    if k in ("t", "n"):
        return all(_valid_type(e) for e in t["el"])
    if k == "v":
        return _valid_type(t["of"])
    return False


def signature(binding, why, call):
    """coarse, stable identification of a disagreement: first reason + kind of call (+ input class)"""
    first = why[0]["why"] if isinstance(why[0], dict) else why[0]
    sig = {"binding": binding, "kind": first, "call": call.get("k", "")}
    if call.get("k") == "addt":
        sig["api"] = "Graph::add_node_with_type"
        sig["where"] = "graphs.rs:3488-3492 (register_result error returns without remove_last_node)"
        sig["input_class"] = "supplied-type-valid" if _valid_type(call.get("wt", {})) else "supplied-type-invalid"
    elif call.get("k") == "add":
        sig["op"] = call.get("op", {}).get("o", "")
    return sig


# ----------------------------------------------------------------------------------------- B1

def generate(chk, cfgname, tag):
    """exhaustive TLC run of one model; returns (TlcResult, cfg dict, list of {f, path})"""
    res = lib.tlc("ContextAPIMC", cfgname, workers=4, coverage=False, timeout=2400,
                  env={"NNAMES": NNAMES_MC, "EMIT": "1"})
    if not res.ok:
        return res, None, None
    cfg = lib.printed_json(res, "CFG")[0]
    fidx = {f["name"]: i + 1 for i, f in enumerate(cfg["feats"])}
    paths = []
    for line in res.printed:
        m = re.match(r'^"H (\w+) <<(.*)>>"$', line)
        if m:
            paths.append({"f": fidx[m.group(1)], "path": [int(x) for x in m.group(2).split(",") if x.strip()]})
    if len(paths) != res.distinct:
        raise lib.ToolError("%s: %d paths printed for %d distinct states" % (cfgname, len(paths), res.distinct))
    return res, cfg, paths


def replay_paths(chk, cfg, paths, tag, want_ser=False):
    cfgp, pathp = chk.path(tag + ".cfg.json"), chk.path(tag + ".paths.ndjson")
    json.dump(cfg, open(cfgp, "w"))
    lib.write_ndjson(pathp, paths)
    lib.build_harness()
    outs, stats = [], []

    def one(k):
        out = chk.path("%s.replay.%d.ndjson" % (tag, k))
        ser = chk.path("%s.ser.%d.ndjson" % (tag, k)) if want_ser else "-"
        p = lib.harness(["replay", cfgp, pathp, out, ser, "%d/%d" % (k, SHARDS)], binary="ctxapi", timeout=3000)
        return out, json.loads(p.stdout.strip().splitlines()[-1])

    with concurrent.futures.ThreadPoolExecutor(SHARDS) as ex:
        for out, st in ex.map(one, range(SHARDS)):
            outs.append(out)
            stats.append(st)
    allp = chk.path(tag + ".replay.ndjson")
    with open(allp, "w") as f:
        for o in outs:
            f.write(open(o).read())
            os.remove(o)
    tot = {k: sum(s[k] for s in stats) for k in ("states", "tried", "ok", "err", "bad")}
    kinds = {}
    for s in stats:
        for k, v in s["by_kind"].items():
            kinds[k] = kinds.get(k, 0) + v
    tot["by_kind"] = kinds
    return cfgp, allp, tot


def judge_replay(chk, cfgp, tracep, cfg, tag):
    """TLC judges the recorded replay; each failing record becomes a violation and is removed."""
    rounds = 0
    while True:
        rounds += 1
        res = lib.tlc("ContextAPIReplay", "MC_ContextAPIReplay.cfg", workers=4, coverage=False, timeout=3000,
                      env={"NNAMES": NNAMES_MC, "CFG": cfgp, "TRACE": tracep})
        chk.add_tlc(res, "replay")
        if res.ok:
            return
        fails = lib.printed_json(res, "FAIL")
        if res.violated != "CaseOK" or not fails:
            raise lib.ToolError("replay judge: unexpected TLC result %s\n%s" % (res.violated, res.trace[:1500]))
        recs = lib.read_ndjson(tracep)
        drop = set()
        for f in fails:
            why = f["why"]
            call = next((w["call"] for w in why if "call" in w), {})
            feat = cfg["feats"][f["f"] - 1]
            chk.violation(signature("B1", why, call),
                          {"binding": "B1", "feature": feat["name"], "path": f["path"], "why": why,
                           "calls_of_path": [feat["calls"][i - 1] for i in f["path"]],
                           "cfg": {"names": cfg["names"], "feats": [feat]}})
            drop.add(f["rec"])
        if rounds >= 12:
            chk.note("replay_judge_stopped_after_rounds", rounds)
            return
        lib.write_ndjson(tracep, [r for i, r in enumerate(recs) if i + 1 not in drop])


# ----------------------------------------------------------------------------------------- B2

def random_traces(chk, seed, nh, lo, hi, tag, only=None):
    out = chk.path(tag + ".ndjson")
    p = lib.harness(["random", seed, nh, out, lo, hi], binary="ctxapi", timeout=3000)
    st = json.loads(p.stdout.strip().splitlines()[-1])
    recs = lib.read_ndjson(out)
    if only is not None:
        recs = [r for r in recs if r["h"] == only]
        lib.write_ndjson(out, recs)
    return out, recs, st


def judge_traces(chk, tracep, recs, replay_info):
    validated = 0
    pending = recs
    rounds = 0
    while pending:
        rounds += 1
        lib.write_ndjson(tracep, pending)
        res = lib.tlc("ContextAPITrace", "MC_ContextAPITrace.cfg", workers=1, deque=True, coverage=False, timeout=3000,
                      env={"NNAMES": NNAMES_TRACE, "TRACE": tracep})
        chk.add_tlc(res, "trace")
        if res.ok:
            validated += len({r["h"] for r in pending})
            break
        fails = lib.printed_json(res, "FAIL") or lib.printed_json(res, "STUCK")
        if not fails:
            raise lib.ToolError("trace judge: unexpected TLC result %s\n%s" % (res.violated, res.trace[:1500]))
        f = fails[0]
        bad = pending[f["rec"] - 1]
        h = bad["h"]
        call = bad.get("call", {})
        why = f.get("why", ["trace-not-a-behaviour"])
        hist = [r for r in pending if r["h"] == h and r["seq"] <= bad["seq"]]
        chk.violation(signature("B2", why, call),
                      dict(replay_info, binding="B2", h=h, seq=bad["seq"], why=why, call=call, res=bad.get("res"),
                           msg=bad.get("msg", ""), calls=[r["call"] for r in hist if r["ev"] == "call"][-40:]))
        hs = sorted({r["h"] for r in pending})
        validated += hs.index(h)          # the histories before the failing one were accepted
        pending = [r for r in pending if r["h"] > h]
        if rounds >= 40:
            break
    return validated


# ----------------------------------------------------------------------------------------- run

def run(chk):
    tier = chk.tier
    # ---- exhaustive models + B1
    tot_states = tot_tried = 0
    for cfgname in MODELS[tier]:
        tag = cfgname[len("MC_ContextAPI_"):-4]
        res, cfg, paths = generate(chk, cfgname, tag)
        chk.add_tlc(res, "model:" + tag)
        if not res.ok:
            # the specification itself violates one of its invariants: a defect of the model, not of the code
            raise lib.ToolError("model %s violates %s\n%s" % (cfgname, res.violated, res.trace[:3000]))
        cfgp, tracep, st = replay_paths(chk, cfg, paths, tag, want_ser=False)
        if st["tried"] != res.generated - len(cfg["feats"]):
            raise lib.ToolError("%s: harness executed %d transitions, the model has %d" % (tag, st["tried"], res.generated - len(cfg["feats"])))
        tot_states += st["states"]
        tot_tried += st["tried"]
        chk.note("B1_%s" % tag, {"distinct_states": res.distinct, "transitions": res.generated - len(cfg["feats"]),
                                 "features": [f["name"] for f in cfg["feats"]],
                                 "call_table_sizes": {f["name"]: len(f["calls"]) for f in cfg["feats"]},
                                 "replayed_states": st["states"], "replayed_transitions": st["tried"],
                                 "impl_ok": st["ok"], "impl_err_unchanged": st["err"], "impl_other": st["bad"],
                                 "by_call_kind": st["by_kind"]})
        # TLC reads a replay file whole: judge big recordings (the thorough models: > 1 GB) in pieces, three at a time
        CHUNK = 48 * 1024 * 1024
        if os.path.getsize(tracep) <= CHUNK:
            judge_replay(chk, cfgp, tracep, cfg, tag)
        else:
            pieces, cur, size = [], None, 0
            with open(tracep) as f:
                for line in f:
                    if cur is None or size > CHUNK:
                        if cur:
                            cur.close()
                        pieces.append(chk.path("%s.replay.piece%d.ndjson" % (tag, len(pieces))))
                        cur, size = open(pieces[-1], "w"), 0
                    cur.write(line)
                    size += len(line)
            if cur:
                cur.close()
            os.remove(tracep)
            chk.note("B1_%s_replay_pieces" % tag, len(pieces))
            from concurrent.futures import ThreadPoolExecutor
            with ThreadPoolExecutor(max_workers=3) as ex:
                for fut in [ex.submit(judge_replay, chk, cfgp, pc, cfg, tag) for pc in pieces]:
                    fut.result()
            for pc in pieces:
                os.remove(pc)
        if paths:
            p = paths[len(paths) // 2]
            feat = cfg["feats"][p["f"] - 1]
            chk.sample({"binding": "B1", "feature": feat["name"],
                        "history": [[feat["calls"][i - 1]["k"], feat["calls"][i - 1]["op"]["o"]] for i in p["path"]]}, cap=3)
    chk.note("B1_total", "every distinct state (%d) rebuilt with the real API, every transition (%d) executed and judged by TLC"
             % (tot_states, tot_tried))
    chk.exhaustive = True
    # ---- B2
    nh, lo, hi = RANDOM[tier]
    tracep, recs, st = random_traces(chk, chk.seed, nh, lo, hi, "random")
    info = {"seed": chk.seed, "nh": nh, "minlen": lo, "maxlen": hi}
    ok = judge_traces(chk, chk.path("random.pending.ndjson"), recs, info)
    chk.traces += ok
    kinds = {}
    for r in recs:
        if r["ev"] == "call":
            key = r["call"]["k"] + ":" + (r["call"]["op"]["o"] + ":" if r["call"]["k"] in ("add", "addt") else "") + r["res"]
            kinds[key] = kinds.get(key, 0) + 1
    chk.note("B2_random", {"histories": nh, "calls": st["calls"], "histories_accepted": ok, "calls_by_kind_and_result": kinds})
    for r in recs:
        if r["ev"] == "call" and r["res"] == "err" and r["call"]["k"] == "add":
            chk.sample({"binding": "B2", "h": r["h"], "seq": r["seq"], "call": r["call"]["op"]["o"], "res": r["res"], "same": r["same"]}, cap=6)
    chk.assumptions += [
        "operations the specification does not model (tags X:...) take their outcome and result type from the log; "
        "their structural guards (finalized graph, dependency and graph-dependency checks) are still predicted by the specification",
        "size limits are abstracted to weights (two designated array types reach the u64 overflow paths)",
        "handles of dropped contexts (documented panic of upgrade()) are not exercised",
    ]


def replay(path):
    """re-execute one recorded violation against /repo's current tree; exit 1 if it still fails"""
    v = json.load(open(path))
    rp = v["replay"]
    chk = lib.Check("C11-replay", "replay", rp.get("seed", 0))
    if rp["binding"] == "B2":
        tracep, recs, _ = random_traces(chk, rp["seed"], rp["nh"], rp["minlen"], rp["maxlen"], "replay.random", only=rp["h"])
        recs = [r for r in recs if r["seq"] <= rp["seq"]]
        judge_traces(chk, chk.path("replay.pending.ndjson"), recs, rp)
    else:
        cfg = rp["cfg"]
        cfgp, tracep, _ = replay_paths(chk, cfg, [{"f": 1, "path": rp["path"]}], "replay.b1")
        judge_replay(chk, cfgp, tracep, cfg, "replay")
    for sig, p in chk.violations:
        print("VIOLATION property=C11 replay=%s" % p)
    return 1 if chk.violations else 0
