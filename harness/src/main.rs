fn main() { println!("ok {}", ciphercore_base::verif_hooks::drain_stages().len()); }
