//! Programs as data: {"graphs":[{"nodes":[{op.., "deps":[1-based], "gdeps":[1-based], "ann":[..], "sends":[[s,r]]}], "out": id,
//! "gann":[..]}], "main": id}; built with the real public API (`add_node`).
use crate::export::*;
use ciphercore_base::errors::Result;
use ciphercore_base::graphs::*;
use ciphercore_base::runtime_error;
use serde_json::{json, Value as Json};

pub fn graph_annotation_from(s: &str) -> Option<GraphAnnotation> {
    match s {
        "AssociativeOperation" => Some(GraphAnnotation::AssociativeOperation),
        "OneBitState" => Some(GraphAnnotation::OneBitState),
        "SmallState" => Some(GraphAnnotation::SmallState),
        _ => None,
    }
}

pub fn node_annotation_from(s: &str) -> Option<NodeAnnotation> {
    match s {
        "AssociativeOperation" => Some(NodeAnnotation::AssociativeOperation),
        "Private" => Some(NodeAnnotation::Private),
        "PRFMultiplication" => Some(NodeAnnotation::PRFMultiplication),
        "PRFB2A" => Some(NodeAnnotation::PRFB2A),
        "PRFTruncate" => Some(NodeAnnotation::PRFTruncate),
        "MpcCall" => Some(NodeAnnotation::MpcCall),
        _ => None,
    }
}

/// Builds a finalized context from a program description.
pub fn build_context(p: &Json) -> Result<Context> {
    let c = create_context()?;
    let graphs = p["graphs"].as_array().ok_or_else(|| runtime_error!("graphs missing"))?;
    let mut built: Vec<Graph> = vec![];
    for gj in graphs {
        let g = c.create_graph()?;
        let mut nodes: Vec<Node> = vec![];
        for nj in gj["nodes"].as_array().unwrap() {
            let op = op_from_json(nj)?;
            let deps: Vec<Node> = nj["deps"]
                .as_array()
                .map(|a| a.iter().map(|d| nodes[d.as_u64().unwrap() as usize - 1].clone()).collect())
                .unwrap_or_default();
            let gdeps: Vec<Graph> = nj["gdeps"]
                .as_array()
                .map(|a| a.iter().map(|d| built[d.as_u64().unwrap() as usize - 1].clone()).collect())
                .unwrap_or_default();
            let n = g.add_node(deps, gdeps, op)?;
            if let Some(a) = nj["ann"].as_array() {
                for x in a {
                    if let Some(an) = node_annotation_from(x.as_str().unwrap_or("")) {
                        n.add_annotation(an)?;
                    }
                }
            }
            if let Some(a) = nj["sends"].as_array() {
                for x in a {
                    n.add_annotation(NodeAnnotation::Send(x[0].as_u64().unwrap(), x[1].as_u64().unwrap()))?;
                }
            }
            if let Some(s) = nj["name"].as_str() {
                if !s.is_empty() {
                    n.set_name(s)?;
                }
            }
            nodes.push(n);
        }
        let out = gj["out"].as_u64().ok_or_else(|| runtime_error!("out missing"))? as usize;
        g.set_output_node(nodes[out - 1].clone())?;
        if let Some(a) = gj["gann"].as_array() {
            for x in a {
                if let Some(an) = graph_annotation_from(x.as_str().unwrap_or("")) {
                    g.add_annotation(an)?;
                }
            }
        }
        g.finalize()?;
        built.push(g);
    }
    let main = p["main"].as_u64().unwrap_or(built.len() as u64) as usize;
    c.set_main_graph(built[main - 1].clone())?;
    c.finalize()?;
    Ok(c)
}

/// The inverse: a context as a program description (exact constants as decimal strings).
pub fn context_to_prog(c: &Context, mode: Num) -> Result<Json> {
    let mut graphs = vec![];
    for g in c.get_graphs() {
        let nodes = export_graph_nodes(&g, mode)?;
        let out = g.get_output_node().map(|n| n.get_id() + 1).unwrap_or(0);
        let gann: Vec<String> = g.get_annotations()?.iter().map(|a| format!("{:?}", a)).collect();
        graphs.push(json!({"nodes":nodes,"out":out,"gann":gann}));
    }
    let main = c.get_main_graph().map(|g| g.get_id() + 1).unwrap_or(0);
    Ok(json!({"graphs":graphs,"main":main}))
}
