//! Three-party execution of a compiled (fully inlined) graph with the REAL evaluator, following the runtime semantics
//! defined in spec/ABY3Run.tla: every party evaluates every node on its own store with its own SimpleEvaluator (own
//! seed, hence own Random draws); an Input owned by party o holds the real value at o and junk elsewhere; a public
//! input is real everywhere; an already shared input gives party p the real components p, p+1 and junk in p+2;
//! after a node is evaluated, every `Send(s, r)` marker on it copies s's value to r, in order. Nothing else crosses.
//!
//! A value a party cannot compute (an operation fails on junk, or a dependency is missing) is `None` ("poison") at
//! that party and propagates; it only matters if it reaches an output party's output.
use ciphercore_base::data_types::Type;
use ciphercore_base::data_values::Value;
use ciphercore_base::errors::Result;
use ciphercore_base::evaluators::simple_evaluator::SimpleEvaluator;
use ciphercore_base::evaluators::Evaluator;
use ciphercore_base::graphs::{Graph, NodeAnnotation, Operation};
use ciphercore_base::mpc::mpc_compiler::IOStatus;
use ciphercore_base::random::PRNG;
use ciphercore_base::typed_value::TypedValue;

#[derive(Clone, Copy, Debug, PartialEq, Eq)]
pub enum Junk {
    Zeros,
    Ones,
    Random,
}

pub struct Run3 {
    /// value of the output node at each party (None = the party could not compute it)
    pub out: [Option<Value>; 3],
    pub out_type: Type,
    /// number of Send markers applied, number of (party, node) evaluations that failed
    pub sends: usize,
    pub poisoned: usize,
}

fn seed16(seed: u64, salt: u64) -> [u8; 16] {
    let mut s = [0u8; 16];
    s[..8].copy_from_slice(&seed.to_le_bytes());
    s[8..].copy_from_slice(&salt.to_le_bytes());
    s
}

fn junk_value(t: &Type, kind: Junk, prng: &mut PRNG) -> Result<Value> {
    match kind {
        Junk::Zeros => Ok(Value::zero_of_type(t.clone())),
        Junk::Ones => Value::one_of_type(t.clone()),
        Junk::Random => prng.get_random_value(t.clone()),
    }
}

/// `g`: compiled main graph (no Call/Iterate); `owners[k]` for the k-th input; `inputs[k]`: the plaintext value.
pub fn run_three_parties(g: &Graph, owners: &[IOStatus], inputs: &[Value], junk: Junk, seed: u64) -> Result<Run3> {
    let mut evs = [
        SimpleEvaluator::new(Some(seed16(seed, 101)))?,
        SimpleEvaluator::new(Some(seed16(seed, 202)))?,
        SimpleEvaluator::new(Some(seed16(seed, 303)))?,
    ];
    let mut jprng = PRNG::new(Some(seed16(seed, 404)))?;
    let mut shprng = PRNG::new(Some(seed16(seed, 505)))?;
    let nodes = g.get_nodes();
    let mut store: Vec<[Option<Value>; 3]> = Vec::with_capacity(nodes.len());
    let mut k = 0usize;
    let (mut sends, mut poisoned) = (0usize, 0usize);
    for node in nodes.iter() {
        let op = node.get_operation();
        let mut vals: [Option<Value>; 3] = [None, None, None];
        match op {
            Operation::Input(t) => {
                let status = owners[k].clone();
                let x = inputs[k].clone();
                k += 1;
                match status {
                    IOStatus::Public => {
                        for p in 0..3 {
                            vals[p] = Some(x.clone());
                        }
                    }
                    IOStatus::Party(o) => {
                        for p in 0..3 {
                            vals[p] = Some(if p as u64 == o { x.clone() } else { junk_value(&t, junk, &mut jprng)? });
                        }
                    }
                    IOStatus::Shared => {
                        // t is the 3-tuple of the plaintext type
                        let pt = match &t {
                            Type::Tuple(ts) => (*ts[0]).clone(),
                            _ => return Err(ciphercore_base::runtime_error!("shared input must be a 3-tuple")),
                        };
                        let shares = TypedValue::new(pt.clone(), x)?.secret_share(&mut shprng)?.value.to_vector()?;
                        for p in 0..3 {
                            let mut comps = vec![];
                            for c in 0..3 {
                                if c == (p + 2) % 3 {
                                    comps.push(junk_value(&pt, junk, &mut jprng)?);
                                } else {
                                    comps.push(shares[c].clone());
                                }
                            }
                            vals[p] = Some(Value::from_vector(comps));
                        }
                    }
                }
            }
            Operation::Call | Operation::Iterate => {
                return Err(ciphercore_base::runtime_error!("graph is not fully inlined"));
            }
            _ => {
                let deps = node.get_node_dependencies();
                for p in 0..3 {
                    let mut args = Vec::with_capacity(deps.len());
                    let mut ok = true;
                    for d in deps.iter() {
                        match &store[d.get_id() as usize][p] {
                            Some(v) => args.push(v.clone()),
                            None => {
                                ok = false;
                                break;
                            }
                        }
                    }
                    if !ok {
                        continue;
                    }
                    let n2 = node.clone();
                    let ev = &mut evs[p];
                    let r = crate::catch(std::panic::AssertUnwindSafe(move || ev.evaluate_node(n2, args)));
                    match r {
                        Ok(Ok(v)) => vals[p] = Some(v),
                        other => {
                            poisoned += 1;
                            if std::env::var("CC3_DEBUG").is_ok() {
                                let msg = match other {
                                    Ok(Err(e)) => format!("{}", e).chars().take(200).collect::<String>(),
                                    Err(pn) => format!("panic {}", pn),
                                    _ => String::new(),
                                };
                                eprintln!("party {} node {} {}: {}", p, node.get_id(), node.get_operation(), msg);
                            }
                        }
                    }
                }
            }
        }
        for a in node.get_annotations()? {
            if let NodeAnnotation::Send(s, r) = a {
                vals[r as usize] = vals[s as usize].clone();
                sends += 1;
            }
        }
        store.push(vals);
    }
    let out = g.get_output_node()?;
    Ok(Run3 { out: store[out.get_id() as usize].clone(), out_type: out.get_type()?, sends, poisoned })
}
