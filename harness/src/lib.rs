//! Shared library of the CipherCore conformance harness.
//! One binary per property family lives in src/bin/; they all link this library.
pub mod compile;
pub mod detleak;
pub mod export;
pub mod party3;
pub mod prog;

use serde_json::Value as Json;
use std::io::BufRead;

/// Reads an ndjson file into a vector of JSON values.
pub fn read_ndjson(path: &str) -> Vec<Json> {
    let f = std::fs::File::open(path).unwrap_or_else(|e| panic!("open {path}: {e}"));
    std::io::BufReader::new(f)
        .lines()
        .map(|l| l.unwrap())
        .filter(|l| !l.trim().is_empty())
        .map(|l| serde_json::from_str(&l).expect("ndjson line"))
        .collect()
}

/// Runs `f`, turning a panic of the code under test into `Err(message)` (a panic is data, not a harness failure).
pub fn catch<T>(f: impl FnOnce() -> T + std::panic::UnwindSafe) -> Result<T, String> {
    std::panic::catch_unwind(f).map_err(|e| {
        if let Some(s) = e.downcast_ref::<&str>() {
            s.to_string()
        } else if let Some(s) = e.downcast_ref::<String>() {
            s.clone()
        } else {
            "panic".to_string()
        }
    })
}

/// Silences the default panic message (panics of the library under test are caught and reported as data).
pub fn quiet_panics() {
    std::panic::set_hook(Box::new(|_| {}));
}
