//! Drives the real compilation pipeline (with the stage-tracer hook) and exports every stage.
use crate::export::*;
use ciphercore_base::custom_ops::MappedContext;
use ciphercore_base::data_values::Value;
use ciphercore_base::errors::Result;
use ciphercore_base::evaluators::simple_evaluator::SimpleEvaluator;
use ciphercore_base::graphs::*;
use ciphercore_base::inline::inline_ops::{DepthOptimizationLevel, InlineConfig, InlineMode};
use ciphercore_base::mpc::mpc_compiler::{compile_context, IOStatus};
use ciphercore_base::runtime_error;
use serde_json::{json, Value as Json};

pub fn io_status(j: &Json) -> IOStatus {
    if let Some(p) = j.as_u64() {
        return IOStatus::Party(p);
    }
    match j.as_str().unwrap() {
        "pub" => IOStatus::Public,
        "sh" => IOStatus::Shared,
        s => IOStatus::Party(s.parse().unwrap()),
    }
}

pub fn inline_mode(s: &str) -> InlineMode {
    match s {
        "Simple" => InlineMode::Simple,
        "Default" => InlineMode::DepthOptimized(DepthOptimizationLevel::Default),
        "Extreme" => InlineMode::DepthOptimized(DepthOptimizationLevel::Extreme),
        "Noop" => InlineMode::Noop,
        _ => panic!("inline mode {s}"),
    }
}

pub fn inline_config(s: &str) -> InlineConfig {
    InlineConfig { default_mode: inline_mode(s), ..Default::default() }
}

pub struct Compiled {
    pub mapped: MappedContext,
    pub stages: Vec<(String, Context)>,
}

/// `compile_context` on `c`; returns the result and every recorded stage.
pub fn compile(c: &Context, owners: &[IOStatus], outs: &[IOStatus], mode: &str) -> Result<Compiled> {
    let _ = ciphercore_base::verif_hooks::drain_stages();
    let r = compile_context(c.clone(), owners.to_vec(), outs.to_vec(), inline_config(mode), || {
        SimpleEvaluator::new(None)
    });
    let stages = ciphercore_base::verif_hooks::drain_stages();
    Ok(Compiled { mapped: r?, stages })
}

pub fn stage<'a>(stages: &'a [(String, Context)], name: &str) -> Result<&'a Context> {
    stages
        .iter()
        .find(|s| s.0 == name)
        .map(|s| &s.1)
        .ok_or_else(|| runtime_error!("stage {} not recorded (hook removed?)", name))
}

/// PRF bag of a graph: (iv, key dependency id, op name) for every PRF / PermutationFromPRF node, and the randomizing nodes.
pub fn prf_bag(g: &Graph) -> Json {
    let mut prfs = vec![];
    let mut rnd = vec![];
    for n in g.get_nodes() {
        match n.get_operation() {
            Operation::PRF(iv, _) => {
                prfs.push(json!({"id":n.get_id()+1,"iv":iv,"key":n.get_node_dependencies()[0].get_id()+1,"op":"PRF"}))
            }
            Operation::PermutationFromPRF(iv, _) => {
                prfs.push(json!({"id":n.get_id()+1,"iv":iv,"key":n.get_node_dependencies()[0].get_id()+1,"op":"PermutationFromPRF"}))
            }
            Operation::Random(_) | Operation::RandomPermutation(_) => rnd.push(json!(n.get_id() + 1)),
            _ => {}
        }
    }
    json!({"prf":prfs,"rnd":rnd})
}

pub fn inputs_of(g: &Graph) -> Vec<Node> {
    g.get_nodes().into_iter().filter(|n| n.get_operation().is_input()).collect()
}

#[allow(dead_code)]
pub fn zero_inputs(g: &Graph) -> Result<Vec<Value>> {
    inputs_of(g).iter().map(|n| Ok(Value::zero_of_type(n.get_type()?))).collect()
}

/// One summary record per recorded stage: what a pipeline trace validator needs (spec/Pipeline.tla).
pub fn stage_summary(name: &str, ctx: &Context) -> Result<Json> {
    let graphs = ctx.get_graphs();
    let main = ctx.get_main_graph()?;
    let (mut customs, mut calls, mut prf, mut rnd) = (0u64, 0u64, vec![], 0u64);
    for g in graphs.iter() {
        for n in g.get_nodes() {
            match n.get_operation() {
                Operation::Custom(_) => customs += 1,
                Operation::Call | Operation::Iterate => calls += 1,
                Operation::PRF(iv, _) | Operation::PermutationFromPRF(iv, _) => prf.push(iv),
                Operation::Random(_) | Operation::RandomPermutation(_) => rnd += 1,
                _ => {}
            }
        }
    }
    // call structure: per graph its own randomising / PRF nodes and its calls [callee (1-based), multiplicity]; an Iterate
    // is listed with the length of its input vector and flagged (the depth-optimised inliners copy a body more often)
    let index_of = |g: &ciphercore_base::graphs::Graph| graphs.iter().position(|x| x == g).map(|i| i as u64 + 1).unwrap_or(0);
    let mut gr = vec![];
    let mut iterates = 0u64;
    for g in graphs.iter() {
        let (mut grnd, mut gprf) = (0u64, 0u64);
        let mut gcalls = vec![];
        for n in g.get_nodes() {
            match n.get_operation() {
                Operation::PRF(_, _) | Operation::PermutationFromPRF(_, _) => gprf += 1,
                Operation::Random(_) | Operation::RandomPermutation(_) => grnd += 1,
                Operation::Call => gcalls.push(json!([index_of(&n.get_graph_dependencies()[0]), 1])),
                Operation::Iterate => {
                    iterates += 1;
                    let len = match n.get_node_dependencies()[1].get_type()? {
                        ciphercore_base::data_types::Type::Vector(len, _) => len,
                        _ => 0,
                    };
                    gcalls.push(json!([index_of(&n.get_graph_dependencies()[0]), len]));
                }
                _ => {}
            }
        }
        gr.push(json!({"rnd": grnd, "prf": gprf, "calls": gcalls}));
    }
    let main_ix = index_of(&main);
    let inputs: Vec<Json> = inputs_of(&main)
        .iter()
        .map(|n| Ok(json!({"name": n.get_name()?.unwrap_or_default(), "ty": type_json(&n.get_type()?)})))
        .collect::<Result<_>>()?;
    Ok(json!({"ev": name, "graphs": graphs.len(), "main_nodes": main.get_nodes().len(), "custom": customs, "calls": calls,
              "prf": prf, "rnd": rnd, "gr": gr, "iterates": iterates, "main": main_ix, "inputs": inputs, "finalized": ctx.check_finalized().is_ok(),
              "out_ty": type_json(&main.get_output_node()?.get_type()?)}))
}
