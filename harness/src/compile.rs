//! Drives the real compilation pipeline (with the stage-tracer hook) and exports every stage.
use crate::export::*;
use ciphercore_base::custom_ops::MappedContext;
use ciphercore_base::data_values::Value;
use ciphercore_base::errors::Result;
use ciphercore_base::evaluators::simple_evaluator::SimpleEvaluator;
use ciphercore_base::graphs::*;
use ciphercore_base::inline::inline_ops::{DepthOptimizationLevel, InlineConfig, InlineMode};
use ciphercore_base::mpc::mpc_compiler::{compile_context, IOStatus};
use ciphercore_base::runtime_error;
use serde_json::{json, Value as Json};

pub fn io_status(j: &Json) -> IOStatus {
    if let Some(p) = j.as_u64() {
        return IOStatus::Party(p);
    }
    match j.as_str().unwrap() {
        "pub" => IOStatus::Public,
        "sh" => IOStatus::Shared,
        s => IOStatus::Party(s.parse().unwrap()),
    }
}

pub fn inline_mode(s: &str) -> InlineMode {
    match s {
        "Simple" => InlineMode::Simple,
        "Default" => InlineMode::DepthOptimized(DepthOptimizationLevel::Default),
        "Extreme" => InlineMode::DepthOptimized(DepthOptimizationLevel::Extreme),
        "Noop" => InlineMode::Noop,
        _ => panic!("inline mode {s}"),
    }
}

pub fn inline_config(s: &str) -> InlineConfig {
    InlineConfig { default_mode: inline_mode(s), ..Default::default() }
}

pub struct Compiled {
    pub mapped: MappedContext,
    pub stages: Vec<(String, Context)>,
}

/// `compile_context` on `c`; returns the result and every recorded stage.
pub fn compile(c: &Context, owners: &[IOStatus], outs: &[IOStatus], mode: &str) -> Result<Compiled> {
    let _ = ciphercore_base::verif_hooks::drain_stages();
    let r = compile_context(c.clone(), owners.to_vec(), outs.to_vec(), inline_config(mode), || {
        SimpleEvaluator::new(None)
    });
    let stages = ciphercore_base::verif_hooks::drain_stages();
    Ok(Compiled { mapped: r?, stages })
}

pub fn stage<'a>(stages: &'a [(String, Context)], name: &str) -> Result<&'a Context> {
    stages
        .iter()
        .find(|s| s.0 == name)
        .map(|s| &s.1)
        .ok_or_else(|| runtime_error!("stage {} not recorded (hook removed?)", name))
}

/// PRF bag of a graph: (iv, key dependency id, op name) for every PRF / PermutationFromPRF node, and the randomizing nodes.
pub fn prf_bag(g: &Graph) -> Json {
    let mut prfs = vec![];
    let mut rnd = vec![];
    for n in g.get_nodes() {
        match n.get_operation() {
            Operation::PRF(iv, _) => {
                prfs.push(json!({"id":n.get_id()+1,"iv":iv,"key":n.get_node_dependencies()[0].get_id()+1,"op":"PRF"}))
            }
            Operation::PermutationFromPRF(iv, _) => {
                prfs.push(json!({"id":n.get_id()+1,"iv":iv,"key":n.get_node_dependencies()[0].get_id()+1,"op":"PermutationFromPRF"}))
            }
            Operation::Random(_) | Operation::RandomPermutation(_) => rnd.push(json!(n.get_id() + 1)),
            _ => {}
        }
    }
    json!({"prf":prfs,"rnd":rnd})
}

pub fn inputs_of(g: &Graph) -> Vec<Node> {
    g.get_nodes().into_iter().filter(|n| n.get_operation().is_input()).collect()
}

#[allow(dead_code)]
pub fn zero_inputs(g: &Graph) -> Result<Vec<Value>> {
    inputs_of(g).iter().map(|n| Ok(Value::zero_of_type(n.get_type()?))).collect()
}

/// One summary record per recorded stage: what a pipeline trace validator needs (spec/Pipeline.tla).
pub fn stage_summary(name: &str, ctx: &Context) -> Result<Json> {
    let graphs = ctx.get_graphs();
    let main = ctx.get_main_graph()?;
    let (mut customs, mut calls, mut prf, mut rnd) = (0u64, 0u64, vec![], 0u64);
    for g in graphs.iter() {
        for n in g.get_nodes() {
            match n.get_operation() {
                Operation::Custom(_) => customs += 1,
                Operation::Call | Operation::Iterate => calls += 1,
                Operation::PRF(iv, _) | Operation::PermutationFromPRF(iv, _) => prf.push(iv),
                Operation::Random(_) | Operation::RandomPermutation(_) => rnd += 1,
                _ => {}
            }
        }
    }
    let inputs: Vec<Json> = inputs_of(&main)
        .iter()
        .map(|n| Ok(json!({"name": n.get_name()?.unwrap_or_default(), "ty": type_json(&n.get_type()?)})))
        .collect::<Result<_>>()?;
    Ok(json!({"ev": name, "graphs": graphs.len(), "main_nodes": main.get_nodes().len(), "custom": customs, "calls": calls,
              "prf": prf, "rnd": rnd, "inputs": inputs, "finalized": ctx.check_finalized().is_ok(),
              "out_ty": type_json(&main.get_output_node()?.get_type()?)}))
}
