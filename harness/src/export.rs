//! JSON interchange between the real CipherCore objects and the TLA+ specification.
//!
//! Types      {"k":"s","st":"u8"} | {"k":"a","st":..,"sh":[..]} | {"k":"t","el":[..]}
//!            | {"k":"v","n":N,"of":T} | {"k":"n","nm":[..],"el":[..]}
//! Values     scalars/arrays: flat row-major list of residues; containers: list of values.
//! Operations {"op":"GetSlice", ...parameters}
use ciphercore_base::data_types::*;
use ciphercore_base::data_values::Value;
use ciphercore_base::errors::Result;
use ciphercore_base::graphs::*;
use ciphercore_base::runtime_error;
use serde_json::{json, Value as Json};
use std::collections::HashMap;

pub fn st_name(st: &ScalarType) -> &'static str {
    match st {
        ScalarType::Bit => "b",
        ScalarType::U8 => "u8",
        ScalarType::I8 => "i8",
        ScalarType::U16 => "u16",
        ScalarType::I16 => "i16",
        ScalarType::U32 => "u32",
        ScalarType::I32 => "i32",
        ScalarType::U64 => "u64",
        ScalarType::I64 => "i64",
        ScalarType::U128 => "u128",
        ScalarType::I128 => "i128",
    }
}

pub fn st_from(name: &str) -> ScalarType {
    match name {
        "b" => BIT,
        "u8" => UINT8,
        "i8" => INT8,
        "u16" => UINT16,
        "i16" => INT16,
        "u32" => UINT32,
        "i32" => INT32,
        "u64" => UINT64,
        "i64" => INT64,
        "u128" => UINT128,
        "i128" => INT128,
        _ => panic!("unknown scalar type {name}"),
    }
}

pub const ALL_ST: [ScalarType; 11] = [
    BIT, UINT8, INT8, UINT16, INT16, UINT32, INT32, UINT64, INT64, UINT128, INT128,
];

pub fn type_json(t: &Type) -> Json {
    match t {
        Type::Scalar(st) => json!({"k":"s","st":st_name(st)}),
        Type::Array(sh, st) => json!({"k":"a","st":st_name(st),"sh":sh}),
        Type::Tuple(v) => json!({"k":"t","el":v.iter().map(|x| type_json(x)).collect::<Vec<_>>()}),
        Type::Vector(n, e) => json!({"k":"v","n":n,"of":type_json(e)}),
        Type::NamedTuple(v) => json!({"k":"n",
            "nm":v.iter().map(|x| x.0.clone()).collect::<Vec<_>>(),
            "el":v.iter().map(|x| type_json(&x.1)).collect::<Vec<_>>()}),
    }
}

pub fn type_from_json(j: &Json) -> Type {
    match j["k"].as_str().unwrap() {
        "s" => scalar_type(st_from(j["st"].as_str().unwrap())),
        "a" => array_type(
            j["sh"].as_array().unwrap().iter().map(|x| x.as_u64().unwrap()).collect(),
            st_from(j["st"].as_str().unwrap()),
        ),
        "t" => tuple_type(j["el"].as_array().unwrap().iter().map(type_from_json).collect()),
        "v" => vector_type(j["n"].as_u64().unwrap(), type_from_json(&j["of"])),
        "n" => {
            let nm = j["nm"].as_array().unwrap();
            let el = j["el"].as_array().unwrap();
            named_tuple_type(
                nm.iter()
                    .zip(el.iter())
                    .map(|(n, e)| (n.as_str().unwrap().to_owned(), type_from_json(e)))
                    .collect(),
            )
        }
        k => panic!("unknown type kind {k}"),
    }
}

/// A value as a tree whose leaves are flat arrays of residues modulo 2^w.
#[derive(Clone, Debug, PartialEq, Eq, Hash)]
pub enum VTree {
    Leaf(Vec<u128>),
    Node(Vec<VTree>),
}

pub fn st_mask(st: &ScalarType) -> u128 {
    match st.get_modulus() {
        Some(m) => m - 1,
        None => u128::MAX,
    }
}

pub fn value_to_tree(v: &Value, t: &Type) -> Result<VTree> {
    match t {
        Type::Scalar(st) => {
            if !v.check_type(t.clone())? {
                return Err(runtime_error!("Type and value mismatch"));
            }
            Ok(VTree::Leaf(vec![v.to_u128(*st)? & st_mask(st)]))
        }
        Type::Array(_, st) => {
            let xs = v.to_flattened_array_u128(t.clone())?;
            let m = st_mask(st);
            Ok(VTree::Leaf(xs.into_iter().map(|x| x & m).collect()))
        }
        Type::Tuple(ts) => {
            let vs = v.to_vector()?;
            if vs.len() != ts.len() {
                return Err(runtime_error!("tuple arity mismatch"));
            }
            Ok(VTree::Node(
                vs.iter().zip(ts.iter()).map(|(x, t)| value_to_tree(x, t)).collect::<Result<_>>()?,
            ))
        }
        Type::NamedTuple(ts) => {
            let vs = v.to_vector()?;
            if vs.len() != ts.len() {
                return Err(runtime_error!("named tuple arity mismatch"));
            }
            Ok(VTree::Node(
                vs.iter().zip(ts.iter()).map(|(x, t)| value_to_tree(x, &t.1)).collect::<Result<_>>()?,
            ))
        }
        Type::Vector(n, e) => {
            let vs = v.to_vector()?;
            if vs.len() as u64 != *n {
                return Err(runtime_error!("vector length mismatch"));
            }
            Ok(VTree::Node(vs.iter().map(|x| value_to_tree(x, e)).collect::<Result<_>>()?))
        }
    }
}

pub fn tree_to_value(tr: &VTree, t: &Type) -> Result<Value> {
    match (tr, t) {
        (VTree::Leaf(xs), Type::Scalar(st)) => {
            if xs.len() != 1 {
                return Err(runtime_error!("scalar leaf must have one element"));
            }
            Value::from_scalar(xs[0], *st)
        }
        (VTree::Leaf(xs), Type::Array(_, st)) => Value::from_flattened_array(xs, *st),
        (VTree::Node(vs), Type::Tuple(ts)) => Ok(Value::from_vector(
            vs.iter().zip(ts.iter()).map(|(x, t)| tree_to_value(x, t)).collect::<Result<_>>()?,
        )),
        (VTree::Node(vs), Type::NamedTuple(ts)) => Ok(Value::from_vector(
            vs.iter().zip(ts.iter()).map(|(x, t)| tree_to_value(x, &t.1)).collect::<Result<_>>()?,
        )),
        (VTree::Node(vs), Type::Vector(_, e)) => {
            Ok(Value::from_vector(vs.iter().map(|x| tree_to_value(x, e)).collect::<Result<_>>()?))
        }
        _ => Err(runtime_error!("tree/type mismatch")),
    }
}

/// How integers are written for TLC (whose integers are 32-bit).
#[derive(Clone, Copy, Debug)]
pub enum Num {
    /// JSON numbers, reduced modulo 2^k (k <= 30)
    Mod(u32),
    /// decimal strings, exact
    Str,
    /// little-endian base-256 limb arrays (as many limbs as the type has bytes, at least 1)
    Limbs,
}

pub fn num_json(x: u128, st: &ScalarType, mode: Num) -> Json {
    match mode {
        Num::Mod(k) => {
            let k = k.min(st.size_in_bits() as u32);
            json!((x & ((1u128 << k) - 1)) as u64)
        }
        Num::Str => json!(x.to_string()),
        Num::Limbs => {
            let nb = ((st.size_in_bits() + 7) / 8) as usize;
            json!((0..nb).map(|i| ((x >> (8 * i)) & 0xff) as u64).collect::<Vec<_>>())
        }
    }
}

pub fn tree_json(tr: &VTree, t: &Type, mode: Num) -> Json {
    match (tr, t) {
        (VTree::Leaf(xs), Type::Scalar(st)) | (VTree::Leaf(xs), Type::Array(_, st)) => {
            Json::Array(xs.iter().map(|x| num_json(*x, st, mode)).collect())
        }
        (VTree::Node(vs), Type::Tuple(ts)) => {
            Json::Array(vs.iter().zip(ts.iter()).map(|(x, t)| tree_json(x, t, mode)).collect())
        }
        (VTree::Node(vs), Type::NamedTuple(ts)) => {
            Json::Array(vs.iter().zip(ts.iter()).map(|(x, t)| tree_json(x, &t.1, mode)).collect())
        }
        (VTree::Node(vs), Type::Vector(_, e)) => {
            Json::Array(vs.iter().map(|x| tree_json(x, e, mode)).collect())
        }
        _ => panic!("tree/type mismatch"),
    }
}

pub fn value_json(v: &Value, t: &Type, mode: Num) -> Result<Json> {
    Ok(tree_json(&value_to_tree(v, t)?, t, mode))
}

fn json_to_u128(j: &Json) -> u128 {
    if let Some(s) = j.as_str() {
        if let Some(neg) = s.strip_prefix('-') {
            return (neg.parse::<u128>().unwrap()).wrapping_neg();
        }
        return s.parse::<u128>().unwrap();
    }
    if let Some(a) = j.as_array() {
        let mut x = 0u128;
        for (i, l) in a.iter().enumerate() {
            x |= (l.as_u64().unwrap() as u128) << (8 * i);
        }
        return x;
    }
    if let Some(i) = j.as_i64() {
        return i as i128 as u128;
    }
    j.as_u64().unwrap() as u128
}

/// Inverse of `tree_json` (numbers, decimal strings or limb arrays; negative numbers wrap).
pub fn json_tree(j: &Json, t: &Type) -> VTree {
    match t {
        Type::Scalar(st) | Type::Array(_, st) => {
            let m = st_mask(st);
            let limbs = j.as_array().unwrap();
            VTree::Leaf(limbs.iter().map(|x| json_to_u128(x) & m).collect())
        }
        Type::Tuple(ts) => VTree::Node(
            j.as_array().unwrap().iter().zip(ts.iter()).map(|(x, t)| json_tree(x, t)).collect(),
        ),
        Type::NamedTuple(ts) => VTree::Node(
            j.as_array().unwrap().iter().zip(ts.iter()).map(|(x, t)| json_tree(x, &t.1)).collect(),
        ),
        Type::Vector(_, e) => VTree::Node(j.as_array().unwrap().iter().map(|x| json_tree(x, e)).collect()),
    }
}

pub fn json_value(j: &Json, t: &Type) -> Result<Value> {
    tree_to_value(&json_tree(j, t), t)
}

fn slice_json(s: &Slice) -> Json {
    Json::Array(
        s.iter()
            .map(|e| match e {
                SliceElement::SingleIndex(i) => json!({"e":"i","i":i}),
                SliceElement::SubArray(b, e, s) => json!({"e":"s",
                    "hb":b.is_some(),"b":b.unwrap_or(0),
                    "he":e.is_some(),"en":e.unwrap_or(0),
                    "hs":s.is_some(),"s":s.unwrap_or(1)}),
                SliceElement::Ellipsis => json!({"e":"e"}),
            })
            .collect(),
    )
}

fn slice_from_json(j: &Json) -> Slice {
    j.as_array()
        .unwrap()
        .iter()
        .map(|e| match e["e"].as_str().unwrap() {
            "i" => SliceElement::SingleIndex(e["i"].as_i64().unwrap()),
            "s" => SliceElement::SubArray(
                if e["hb"].as_bool().unwrap() { Some(e["b"].as_i64().unwrap()) } else { None },
                if e["he"].as_bool().unwrap() { Some(e["en"].as_i64().unwrap()) } else { None },
                if e["hs"].as_bool().unwrap() { Some(e["s"].as_i64().unwrap()) } else { None },
            ),
            _ => SliceElement::Ellipsis,
        })
        .collect()
}

pub fn join_name(t: &JoinType) -> &'static str {
    match t {
        JoinType::Inner => "Inner",
        JoinType::Left => "Left",
        JoinType::Union => "Union",
        JoinType::Full => "Full",
    }
}

pub fn join_from(s: &str) -> JoinType {
    match s {
        "Inner" => JoinType::Inner,
        "Left" => JoinType::Left,
        "Union" => JoinType::Union,
        "Full" => JoinType::Full,
        _ => panic!("join type"),
    }
}

fn headers_json(h: &HashMap<String, String>) -> Json {
    let mut v: Vec<(&String, &String)> = h.iter().collect();
    v.sort();
    Json::Array(v.iter().map(|(a, b)| json!([a, b])).collect())
}

fn headers_from(j: &Json) -> HashMap<String, String> {
    j.as_array()
        .unwrap()
        .iter()
        .map(|p| (p[0].as_str().unwrap().to_owned(), p[1].as_str().unwrap().to_owned()))
        .collect()
}

/// Operation -> {"op": name, parameters...}. `mode` controls how constants are written.
pub fn op_json(op: &Operation, mode: Num) -> Json {
    use Operation::*;
    match op {
        Input(t) => json!({"op":"Input","t":type_json(t)}),
        Zeros(t) => json!({"op":"Zeros","t":type_json(t)}),
        Ones(t) => json!({"op":"Ones","t":type_json(t)}),
        Add => json!({"op":"Add"}),
        Subtract => json!({"op":"Subtract"}),
        Multiply => json!({"op":"Multiply"}),
        MixedMultiply => json!({"op":"MixedMultiply"}),
        Dot => json!({"op":"Dot"}),
        Matmul => json!({"op":"Matmul"}),
        Gemm(a, b) => json!({"op":"Gemm","ta":a,"tb":b}),
        Truncate(s) => match mode {
            Num::Mod(_) => json!({"op":"Truncate","scale": if *s < (1u128<<30) { *s as u64 } else { 0 }, "scale_s": s.to_string()}),
            _ => json!({"op":"Truncate","scale_s": s.to_string()}),
        },
        Sum(axes) => json!({"op":"Sum","axes":axes}),
        CumSum(a) => json!({"op":"CumSum","axis":a}),
        PermuteAxes(p) => json!({"op":"PermuteAxes","perm":p}),
        Get(i) => json!({"op":"Get","index":i}),
        GetSlice(s) => json!({"op":"GetSlice","slice":slice_json(s)}),
        Reshape(t) => json!({"op":"Reshape","t":type_json(t)}),
        NOP => json!({"op":"NOP"}),
        Random(t) => json!({"op":"Random","t":type_json(t)}),
        PRF(iv, t) => json!({"op":"PRF","iv":iv,"t":type_json(t)}),
        PermutationFromPRF(iv, n) => json!({"op":"PermutationFromPRF","iv":iv,"n":n}),
        Stack(sh) => json!({"op":"Stack","sh":sh}),
        Concatenate(a) => json!({"op":"Concatenate","axis":a}),
        Constant(t, v) => {
            let val = value_json(v, t, mode).unwrap_or(Json::Null);
            json!({"op":"Constant","t":type_json(t),"v":val})
        }
        A2B => json!({"op":"A2B"}),
        B2A(st) => json!({"op":"B2A","st":st_name(st)}),
        CreateTuple => json!({"op":"CreateTuple"}),
        CreateNamedTuple(n) => json!({"op":"CreateNamedTuple","nm":n}),
        CreateVector(t) => json!({"op":"CreateVector","t":type_json(t)}),
        TupleGet(i) => json!({"op":"TupleGet","i":i}),
        NamedTupleGet(s) => json!({"op":"NamedTupleGet","key":s}),
        VectorGet => json!({"op":"VectorGet"}),
        Zip => json!({"op":"Zip"}),
        Repeat(n) => json!({"op":"Repeat","n":n}),
        Call => json!({"op":"Call"}),
        Iterate => json!({"op":"Iterate"}),
        ArrayToVector => json!({"op":"ArrayToVector"}),
        VectorToArray => json!({"op":"VectorToArray"}),
        RandomPermutation(n) => json!({"op":"RandomPermutation","n":n}),
        Gather(a) => json!({"op":"Gather","axis":a}),
        CuckooHash => json!({"op":"CuckooHash"}),
        InversePermutation => json!({"op":"InversePermutation"}),
        CuckooToPermutation => json!({"op":"CuckooToPermutation"}),
        DecomposeSwitchingMap(n) => json!({"op":"DecomposeSwitchingMap","n":n}),
        SegmentCumSum => json!({"op":"SegmentCumSum"}),
        Shard(c) => json!({"op":"Shard","num":c.num_shards,"size":c.shard_size,"hd":c.shard_headers}),
        ShardWithColumnMasks(c) => json!({"op":"ShardWithColumnMasks","num":c.num_shards,"size":c.shard_size,"hd":c.shard_headers}),
        Join(t, h) => json!({"op":"Join","jt":join_name(t),"hd":headers_json(h)}),
        JoinWithColumnMasks(t, h) => json!({"op":"JoinWithColumnMasks","jt":join_name(t),"hd":headers_json(h)}),
        ApplyPermutation(inv) => json!({"op":"ApplyPermutation","inv":inv}),
        Sort(k) => json!({"op":"Sort","key":k}),
        Custom(c) => json!({"op":"Custom","name":c.get_name(),"raw":serde_json::to_string(c).unwrap_or_default()}),
        Print(m) => json!({"op":"Print","msg":m}),
        Assert(m) => json!({"op":"Assert","msg":m}),
    }
}

fn shape_from(j: &Json) -> Vec<u64> {
    j.as_array().unwrap().iter().map(|x| x.as_u64().unwrap()).collect()
}

pub fn op_from_json(j: &Json) -> Result<Operation> {
    use Operation::*;
    let name = j["op"].as_str().ok_or_else(|| runtime_error!("op missing"))?;
    Ok(match name {
        "Input" => Input(type_from_json(&j["t"])),
        "Zeros" => Zeros(type_from_json(&j["t"])),
        "Ones" => Ones(type_from_json(&j["t"])),
        "Add" => Add,
        "Subtract" => Subtract,
        "Multiply" => Multiply,
        "MixedMultiply" => MixedMultiply,
        "Dot" => Dot,
        "Matmul" => Matmul,
        "Gemm" => Gemm(j["ta"].as_bool().unwrap(), j["tb"].as_bool().unwrap()),
        "Truncate" => Truncate(j["scale_s"].as_str().map(|s| s.parse::<u128>().unwrap()).unwrap_or_else(|| j["scale"].as_u64().unwrap() as u128)),
        "Sum" => Sum(shape_from(&j["axes"])),
        "CumSum" => CumSum(j["axis"].as_u64().unwrap()),
        "PermuteAxes" => PermuteAxes(shape_from(&j["perm"])),
        "Get" => Get(shape_from(&j["index"])),
        "GetSlice" => GetSlice(slice_from_json(&j["slice"])),
        "Reshape" => Reshape(type_from_json(&j["t"])),
        "NOP" => NOP,
        "Random" => Random(type_from_json(&j["t"])),
        "PRF" => PRF(j["iv"].as_u64().unwrap(), type_from_json(&j["t"])),
        "PermutationFromPRF" => PermutationFromPRF(j["iv"].as_u64().unwrap(), j["n"].as_u64().unwrap()),
        "Stack" => Stack(shape_from(&j["sh"])),
        "Concatenate" => Concatenate(j["axis"].as_u64().unwrap()),
        "Constant" => {
            let t = type_from_json(&j["t"]);
            let v = json_value(&j["v"], &t)?;
            Constant(t, v)
        }
        "A2B" => A2B,
        "B2A" => B2A(st_from(j["st"].as_str().unwrap())),
        "CreateTuple" => CreateTuple,
        "CreateNamedTuple" => CreateNamedTuple(
            j["nm"].as_array().unwrap().iter().map(|x| x.as_str().unwrap().to_owned()).collect(),
        ),
        "CreateVector" => CreateVector(type_from_json(&j["t"])),
        "TupleGet" => TupleGet(j["i"].as_u64().unwrap()),
        "NamedTupleGet" => NamedTupleGet(j["key"].as_str().unwrap().to_owned()),
        "VectorGet" => VectorGet,
        "Zip" => Zip,
        "Repeat" => Repeat(j["n"].as_u64().unwrap()),
        "Call" => Call,
        "Iterate" => Iterate,
        "ArrayToVector" => ArrayToVector,
        "VectorToArray" => VectorToArray,
        "RandomPermutation" => RandomPermutation(j["n"].as_u64().unwrap()),
        "Gather" => Gather(j["axis"].as_u64().unwrap()),
        "CuckooHash" => CuckooHash,
        "InversePermutation" => InversePermutation,
        "CuckooToPermutation" => CuckooToPermutation,
        "DecomposeSwitchingMap" => DecomposeSwitchingMap(j["n"].as_u64().unwrap()),
        "SegmentCumSum" => SegmentCumSum,
        "Join" => Join(join_from(j["jt"].as_str().unwrap()), headers_from(&j["hd"])),
        "JoinWithColumnMasks" => JoinWithColumnMasks(join_from(j["jt"].as_str().unwrap()), headers_from(&j["hd"])),
        "ApplyPermutation" => ApplyPermutation(j["inv"].as_bool().unwrap()),
        "Sort" => Sort(j["key"].as_str().unwrap().to_owned()),
        "Custom" => Custom(serde_json::from_str(j["raw"].as_str().unwrap())?),
        // library custom operations by name (for hand-written programs): {"op":"CustomNamed","cname":..,"signed":..,"k":..,"key":..}
        "CustomNamed" => {
            use ciphercore_base::custom_ops::CustomOperation;
            use ciphercore_base::ops::comparisons::{Equal, GreaterThan, GreaterThanEqualTo, LessThan, LessThanEqualTo, NotEqual};
            use ciphercore_base::ops::integer_key_sort::SortByIntegerKey;
            use ciphercore_base::ops::min_max::{Max, Min};
            use ciphercore_base::ops::multiplexer::Mux;
            let sg = j["signed"].as_bool().unwrap_or(false);
            let c = match j["cname"].as_str().unwrap_or("") {
                "GreaterThan" => CustomOperation::new(GreaterThan { signed_comparison: sg }),
                "GreaterThanEqualTo" => CustomOperation::new(GreaterThanEqualTo { signed_comparison: sg }),
                "LessThan" => CustomOperation::new(LessThan { signed_comparison: sg }),
                "LessThanEqualTo" => CustomOperation::new(LessThanEqualTo { signed_comparison: sg }),
                "Equal" => CustomOperation::new(Equal {}),
                "NotEqual" => CustomOperation::new(NotEqual {}),
                "Min" => CustomOperation::new(Min { signed_comparison: sg }),
                "Max" => CustomOperation::new(Max { signed_comparison: sg }),
                "Mux" => CustomOperation::new(Mux {}),
                "Not" => CustomOperation::new(ciphercore_base::custom_ops::Not {}),
                "Or" => CustomOperation::new(ciphercore_base::custom_ops::Or {}),
                "Clip2K" => CustomOperation::new(ciphercore_base::ops::clip::Clip2K { k: j["k"].as_u64().unwrap_or(1) }),
                "LongDivision" => CustomOperation::new(ciphercore_base::ops::long_division::LongDivision { signed: sg }),
                "BinaryAdd" => CustomOperation::new(ciphercore_base::ops::adder::BinaryAdd { overflow_bit: j["overflow"].as_bool().unwrap_or(false) }),
                "SortByIntegerKey" => CustomOperation::new(SortByIntegerKey { key: j["key"].as_str().unwrap_or("k").to_owned() }),
                other => return Err(runtime_error!("unknown custom operation {}", other)),
            };
            Custom(c)
        }
        "Print" => Print(j["msg"].as_str().unwrap().to_owned()),
        "Assert" => Assert(j["msg"].as_str().unwrap().to_owned()),
        _ => return Err(runtime_error!("unknown op {}", name)),
    })
}

pub fn annotation_json(a: &NodeAnnotation) -> Json {
    match a {
        NodeAnnotation::Send(s, r) => json!({"a":"Send","s":s,"r":r}),
        other => json!({"a":format!("{:?}", other)}),
    }
}

/// One record per node of `g` (1-based `id`, dependencies as 1-based ids) in the format read by
/// the TLA+ interpreter. `extra` is merged into every record (program id, stage, ...).
pub fn export_graph_nodes(g: &Graph, mode: Num) -> Result<Vec<Json>> {
    let mut out = vec![];
    let outid = g.get_output_node().map(|n| n.get_id() + 1).unwrap_or(0);
    for n in g.get_nodes() {
        let deps: Vec<u64> = n.get_node_dependencies().iter().map(|d| d.get_id() + 1).collect();
        let gdeps: Vec<u64> = n.get_graph_dependencies().iter().map(|d| d.get_id() + 1).collect();
        let anns = n.get_annotations()?;
        let sends: Vec<Json> = anns
            .iter()
            .filter_map(|a| if let NodeAnnotation::Send(s, r) = a { Some(json!([s, r])) } else { None })
            .collect();
        let other: Vec<String> = anns
            .iter()
            .filter_map(|a| if let NodeAnnotation::Send(_, _) = a { None } else { Some(format!("{:?}", a)) })
            .collect();
        let mut rec = op_json(&n.get_operation(), mode);
        let o = rec.as_object_mut().unwrap();
        o.insert("id".into(), json!(n.get_id() + 1));
        o.insert("deps".into(), json!(deps));
        o.insert("gdeps".into(), json!(gdeps));
        o.insert("sends".into(), json!(sends));
        o.insert("ann".into(), json!(other));
        o.insert("ty".into(), type_json(&n.get_type()?));
        o.insert("name".into(), json!(n.get_name()?.unwrap_or_default()));
        o.insert("out".into(), json!(n.get_id() + 1 == outid));
        out.push(rec);
    }
    Ok(out)
}
