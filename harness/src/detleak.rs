//! Three-party runs with CONTROLLED randomness for the wide-width privacy phase of C03 (spec/DetLeakTrace.tla).
//!
//! Same runtime as party3.rs (spec/ABY3Run.tla), but seen from one observer p:
//!   * everything p draws itself (its evaluator's PRNG, the junk it holds) comes from a FIXED seed,
//!   * every PRF key drawn by another party that reaches p's store (found by a probe run: the 128-bit value occurs in a
//!     leaf of p's store) is fixed as well -- together this is rho_p, the randomness p knows,
//!   * everything else (the other parties' draws) is fresh in every run: rho_u.
//! The whole store of p (one value per node) is returned; the caller compares the stores of runs that differ in rho_u
//! only, and of runs that differ in the other parties' secrets.
use ciphercore_base::data_types::Type;
use ciphercore_base::data_values::Value;
use ciphercore_base::errors::Result;
use ciphercore_base::evaluators::simple_evaluator::SimpleEvaluator;
use ciphercore_base::evaluators::Evaluator;
use ciphercore_base::graphs::{Graph, NodeAnnotation, Operation};
use ciphercore_base::mpc::mpc_compiler::IOStatus;
use ciphercore_base::random::PRNG;
use std::collections::HashSet;

fn seed16(seed: u64, salt: u64) -> [u8; 16] {
    let mut s = [0u8; 16];
    s[..8].copy_from_slice(&seed.to_le_bytes());
    s[8..].copy_from_slice(&salt.to_le_bytes());
    s
}

/// canonical bytes of a value (tree structure included)
pub fn value_bytes(v: &Value, out: &mut Vec<u8>) {
    if let Ok(vs) = v.to_vector() {
        out.push(1);
        out.extend_from_slice(&(vs.len() as u32).to_le_bytes());
        for x in vs.iter() {
            value_bytes(x, out);
        }
    } else {
        let _ = v.access_bytes(|b| {
            out.push(0);
            out.extend_from_slice(&(b.len() as u32).to_le_bytes());
            out.extend_from_slice(b);
            Ok(())
        });
    }
}

fn leaves16(v: &Value, out: &mut HashSet<Vec<u8>>) {
    if let Ok(vs) = v.to_vector() {
        for x in vs.iter() {
            leaves16(x, out);
        }
    } else {
        let _ = v.access_bytes(|b| {
            if b.len() == 16 {
                out.insert(b.to_vec());
            }
            Ok(())
        });
    }
}

/// Differences of neighbouring same-typed numeric components of a vector / tuple / named-tuple value (element-wise,
/// modulo 2^w): values the observer can compute from ONE stored value.  The number of entries depends on the type only.
pub fn component_diffs(v: &Value, t: &Type) -> Vec<Vec<u8>> {
    let comps: Vec<Type> = match t {
        Type::Vector(n, et) => (0..*n).map(|_| (**et).clone()).collect(),
        Type::Tuple(ts) => ts.iter().map(|x| (**x).clone()).collect(),
        Type::NamedTuple(ts) => ts.iter().map(|x| (*x.1).clone()).collect(),
        _ => return vec![],
    };
    let vals = match v.to_vector() {
        Ok(x) if x.len() == comps.len() => x,
        _ => return comps.windows(2).filter(|w| w[0] == w[1] && (w[0].is_array() || w[0].is_scalar())).map(|_| vec![254u8]).collect(),
    };
    let mut out = vec![];
    for k in 0..comps.len().saturating_sub(1) {
        if comps[k] != comps[k + 1] || !(comps[k].is_array() || comps[k].is_scalar()) {
            continue;
        }
        let st = comps[k].get_scalar_type();
        let w = st.size_in_bits();
        let (a, b) = (vals[k].to_flattened_array_u128(comps[k].clone()), vals[k + 1].to_flattened_array_u128(comps[k].clone()));
        match (a, b) {
            (Ok(a), Ok(b)) => {
                let mut bytes = vec![];
                for (x, y) in a.iter().zip(b.iter()) {
                    let d = if w == 1 { x ^ y } else if w == 128 { x.wrapping_sub(*y) } else { x.wrapping_sub(*y) & ((1u128 << w) - 1) };
                    bytes.extend_from_slice(&d.to_le_bytes());
                }
                out.push(bytes);
            }
            _ => out.push(vec![254u8]),
        }
    }
    out
}

fn is_key_type(t: &Type) -> bool {
    match t {
        Type::Array(sh, st) => sh.len() == 1 && sh[0] == 128 && st.size_in_bits() == 1,
        _ => false,
    }
}

pub struct ObsRun {
    /// observer's store: one entry per node (None = the observer could not compute it)
    pub store: Vec<Option<Value>>,
    /// key-typed Random draws of every party: (node, party, value)
    pub key_draws: Vec<(u64, usize, Value)>,
}

/// `fixed_draws`: (node, party) pairs of key-typed Random nodes whose value is part of rho_p.
pub fn run_observed(
    g: &Graph,
    owners: &[IOStatus],
    inputs: &[Value],
    observer: usize,
    fixed_seed: u64,
    run_seed: u64,
    fixed_draws: &HashSet<(u64, usize)>,
) -> Result<ObsRun> {
    let sd = |q: usize, salt: u64| if q == observer { seed16(fixed_seed, salt + q as u64) } else { seed16(run_seed, salt + q as u64) };
    let mut evs = [
        SimpleEvaluator::new(Some(sd(0, 100)))?,
        SimpleEvaluator::new(Some(sd(1, 100)))?,
        SimpleEvaluator::new(Some(sd(2, 100)))?,
    ];
    let mut jprng = [PRNG::new(Some(sd(0, 400)))?, PRNG::new(Some(sd(1, 400)))?, PRNG::new(Some(sd(2, 400)))?];
    let nodes = g.get_nodes();
    let mut store: Vec<[Option<Value>; 3]> = Vec::with_capacity(nodes.len());
    let mut key_draws = vec![];
    let mut k = 0usize;
    for node in nodes.iter() {
        let op = node.get_operation();
        let mut vals: [Option<Value>; 3] = [None, None, None];
        match op {
            Operation::Input(t) => {
                let status = owners[k].clone();
                let x = inputs[k].clone();
                k += 1;
                match status {
                    IOStatus::Public => {
                        for p in 0..3 {
                            vals[p] = Some(x.clone());
                        }
                    }
                    IOStatus::Party(o) => {
                        for p in 0..3 {
                            vals[p] = Some(if p as u64 == o { x.clone() } else { jprng[p].get_random_value(t.clone())? });
                        }
                    }
                    IOStatus::Shared => {
                        return Err(ciphercore_base::runtime_error!("shared inputs are not used in this phase"));
                    }
                }
            }
            Operation::Call | Operation::Iterate => {
                return Err(ciphercore_base::runtime_error!("graph is not fully inlined"));
            }
            _ => {
                let deps = node.get_node_dependencies();
                for p in 0..3 {
                    let mut args = Vec::with_capacity(deps.len());
                    let mut ok = true;
                    for d in deps.iter() {
                        match &store[d.get_id() as usize][p] {
                            Some(v) => args.push(v.clone()),
                            None => {
                                ok = false;
                                break;
                            }
                        }
                    }
                    if !ok {
                        continue;
                    }
                    let n2 = node.clone();
                    let ev = &mut evs[p];
                    if let Ok(Ok(v)) = crate::catch(std::panic::AssertUnwindSafe(move || ev.evaluate_node(n2, args))) {
                        vals[p] = Some(v);
                    }
                }
                if let Operation::Random(t) = &op {
                    if is_key_type(t) {
                        for p in 0..3 {
                            if p != observer && fixed_draws.contains(&(node.get_id(), p)) {
                                let mut pr = PRNG::new(Some(seed16(fixed_seed, 7000 + 3 * node.get_id() + p as u64)))?;
                                vals[p] = Some(pr.get_random_value(t.clone())?);
                            }
                            if let Some(v) = &vals[p] {
                                key_draws.push((node.get_id(), p, v.clone()));
                            }
                        }
                    }
                }
            }
        }
        for a in node.get_annotations()? {
            if let NodeAnnotation::Send(s, r) = a {
                vals[r as usize] = vals[s as usize].clone();
            }
        }
        store.push(vals);
    }
    Ok(ObsRun { store: store.into_iter().map(|v| v[observer].clone()).collect(), key_draws })
}

/// the key draws of other parties that reach the observer's store (probe run with nothing fixed)
pub fn known_keys(g: &Graph, owners: &[IOStatus], inputs: &[Value], observer: usize, fixed_seed: u64) -> Result<HashSet<(u64, usize)>> {
    let probe = run_observed(g, owners, inputs, observer, fixed_seed, fixed_seed ^ 0x5eed, &HashSet::new())?;
    let mut seen = HashSet::new();
    for v in probe.store.iter().flatten() {
        leaves16(v, &mut seen);
    }
    let mut out = HashSet::new();
    for (n, q, v) in probe.key_draws.iter() {
        if *q == observer {
            continue;
        }
        let mut l = HashSet::new();
        leaves16(v, &mut l);
        if l.iter().any(|b| seen.contains(b)) {
            out.insert((*n, *q));
        }
    }
    Ok(out)
}
