//! Harness of C09 / C10: primitive operations one node at a time, and seeded random programs.
//!
//!   ops types <out.ndjson> <cases.ndjson>...           replay TLC-enumerated (rec, ats) against the real add_node
//!   ops eval  <out.ndjson> <seed> <sets> <cases>...    evaluate accepted cases with SimpleEvaluator on generated values
//!   ops fuzz  <out.ndjson> <seed> <programs> <depth>   random programs: typing of every add_node, shape of every node value
//!
//! The harness only records; spec/OpsTrace.tla (TLC) judges every record.
use cc_conform::export::*;
use cc_conform::read_ndjson;
use ciphercore_base::data_types::*;
use ciphercore_base::data_values::Value;
use ciphercore_base::evaluators::simple_evaluator::SimpleEvaluator;
use ciphercore_base::evaluators::{evaluate_simple_evaluator, Evaluator};
use ciphercore_base::graphs::*;
use rand::rngs::StdRng;
use rand::seq::SliceRandom;
use rand::{Rng, SeedableRng};
use serde_json::{json, Value as Json};
use std::collections::HashMap;
use std::io::Write;
use std::panic::AssertUnwindSafe;
use std::sync::Mutex;

static PANIC_LOC: Mutex<String> = Mutex::new(String::new());
static GUARD: std::sync::atomic::AtomicBool = std::sync::atomic::AtomicBool::new(false);

fn install_hook() {
    std::panic::set_hook(Box::new(|info| {
        let loc = info.location().map(|l| format!("{}:{}", l.file(), l.line())).unwrap_or_default();
        if !GUARD.load(std::sync::atomic::Ordering::SeqCst) {
            eprintln!("harness panic at {loc}: {info}");
        }
        *PANIC_LOC.lock().unwrap() = loc;
    }));
}

/// Runs code of the library under test; a panic becomes Err((message, location)).
fn guarded<T>(f: impl FnOnce() -> T) -> Result<T, (String, String)> {
    *PANIC_LOC.lock().unwrap() = String::new();
    GUARD.store(true, std::sync::atomic::Ordering::SeqCst);
    let r = cc_conform::catch(AssertUnwindSafe(f));
    GUARD.store(false, std::sync::atomic::Ordering::SeqCst);
    r.map_err(|m| {
        let loc = PANIC_LOC.lock().unwrap().clone();
        // keep only the path below the repository
        let loc = loc.rsplit("ciphercore-base/").next().unwrap_or("").to_string();
        (m.chars().take(160).collect(), loc)
    })
}

enum Added {
    Ok(Context, Graph, Node, Type),
    Err(String),
    Panic(String, String),
}

fn add_case(rec: &Json, ats: &[Type]) -> Added {
    let op = op_from_json(rec).unwrap_or_else(|e| panic!("harness: cannot build operation {rec}: {e}"));
    let c = create_context().unwrap();
    let g = c.create_graph().unwrap();
    let deps: Vec<Node> =
        ats.iter().map(|t| g.input(t.clone()).unwrap_or_else(|e| panic!("harness: input {t:?}: {e}"))).collect();
    match guarded(|| g.add_node(deps, vec![], op)) {
        Ok(Ok(n)) => match guarded(|| n.get_type()) {
            Ok(Ok(t)) => Added::Ok(c, g, n, t),
            Ok(Err(e)) => Added::Err(format!("get_type after add_node: {e}")),
            Err((m, l)) => Added::Panic(m, l),
        },
        Ok(Err(e)) => Added::Err(e.to_string().chars().take(100).collect()),
        Err((m, l)) => Added::Panic(m, l),
    }
}

fn cmd_types(args: &[String]) {
    let mut out = std::io::BufWriter::new(std::fs::File::create(&args[0]).unwrap());
    for f in &args[1..] {
        for case in read_ndjson(f) {
            let ats: Vec<Type> = case["ats"].as_array().unwrap().iter().map(type_from_json).collect();
            let mut r = json!({"kind":"type","id":case["id"],"rec":case["rec"],"ats":case["ats"]});
            match add_case(&case["rec"], &ats) {
                Added::Ok(_, _, _, t) => r["ty"] = type_json(&t),
                Added::Err(_) => r["ty"] = json!({"k":"err"}),
                Added::Panic(m, l) => {
                    r["ty"] = json!({"k":"panic"});
                    r["msg"] = json!(m);
                    r["loc"] = json!(l);
                }
            }
            writeln!(out, "{}", r).unwrap();
        }
    }
}

// ------------------------------------------------------------------------------------------------ values

fn mask_of(st: &ScalarType) -> u128 {
    st_mask(st)
}

/// Extreme values of a scalar type (distinct, reduced to the width).
fn palette(st: &ScalarType) -> Vec<u128> {
    let w = st.size_in_bits() as u32;
    if w == 1 {
        return vec![0, 1];
    }
    let m = mask_of(st);
    let half = 1u128 << (w - 1);
    let mut v: Vec<u128> = vec![0, 1, m, half, half - 1, 2, m - 1, half + 3];
    if w >= 64 {
        v.extend([1u128 << 63, (1u128 << 63) - 1, (1u128 << 63) + 1, (1u128 << 32) + 1]);
    }
    if w == 128 {
        v.extend([
            1u128 << 64,
            (1u128 << 64) + 1,
            (1u128 << 64) + 5,
            (1u128 << 64) - 1,
            (1u128 << 127) + (1u128 << 64) + 7,
            (1u128 << 100) + 12345,
            m - (1u128 << 64),
            1u128 << 96,
        ]);
    }
    let mut seen = std::collections::HashSet::new();
    v.into_iter().map(|x| x & m).filter(|x| seen.insert(*x)).collect()
}

fn rand_elem(rng: &mut StdRng, st: &ScalarType) -> u128 {
    let m = mask_of(st);
    if rng.gen_bool(0.5) {
        *palette(st).choose(rng).unwrap()
    } else {
        let x: u128 = ((rng.gen::<u64>() as u128) << 64) | rng.gen::<u64>() as u128;
        // sometimes small numbers
        if rng.gen_bool(0.3) {
            (x % 7) & m
        } else {
            x & m
        }
    }
}

fn leaves<'a>(t: &'a Type, out: &mut Vec<&'a Type>) {
    match t {
        Type::Scalar(_) | Type::Array(_, _) => out.push(t),
        Type::Tuple(ts) => ts.iter().for_each(|x| leaves(x, out)),
        Type::NamedTuple(ts) => ts.iter().for_each(|x| leaves(&x.1, out)),
        Type::Vector(n, e) => (0..*n).for_each(|_| leaves(e, out)),
    }
}

fn num_el(t: &Type) -> usize {
    match t {
        Type::Scalar(_) => 1,
        Type::Array(sh, _) => sh.iter().product::<u64>() as usize,
        _ => unreachable!(),
    }
}

/// Builds a tree of type `t` taking the elements of the leaves from `f(scalar type)`.
fn make_tree(t: &Type, f: &mut dyn FnMut(&ScalarType) -> u128) -> VTree {
    match t {
        Type::Scalar(st) => VTree::Leaf(vec![f(st)]),
        Type::Array(_, st) => VTree::Leaf((0..num_el(t)).map(|_| f(st)).collect()),
        Type::Tuple(ts) => VTree::Node(ts.iter().map(|x| make_tree(x, f)).collect()),
        Type::NamedTuple(ts) => VTree::Node(ts.iter().map(|x| make_tree(&x.1, f)).collect()),
        Type::Vector(n, e) => VTree::Node((0..*n).map(|_| make_tree(e, f)).collect()),
    }
}

/// JSON of a tree, every element written by `f(scalar type, value)`.
fn enc_tree(tr: &VTree, t: &Type, f: &mut dyn FnMut(&ScalarType, u128) -> Json) -> Json {
    match (tr, t) {
        (VTree::Leaf(xs), Type::Scalar(st)) | (VTree::Leaf(xs), Type::Array(_, st)) => {
            Json::Array(xs.iter().map(|x| f(st, *x)).collect())
        }
        (VTree::Node(vs), Type::Tuple(ts)) => {
            Json::Array(vs.iter().zip(ts.iter()).map(|(x, t)| enc_tree(x, t, f)).collect())
        }
        (VTree::Node(vs), Type::NamedTuple(ts)) => {
            Json::Array(vs.iter().zip(ts.iter()).map(|(x, t)| enc_tree(x, &t.1, f)).collect())
        }
        (VTree::Node(vs), Type::Vector(_, e)) => Json::Array(vs.iter().map(|x| enc_tree(x, e, f)).collect()),
        _ => panic!("tree/type mismatch"),
    }
}

const STRUCTURAL: &[&str] = &[
    "Get", "GetSlice", "PermuteAxes", "Reshape", "Stack", "Concatenate", "CreateTuple", "CreateNamedTuple",
    "CreateVector", "TupleGet", "NamedTupleGet", "VectorGet", "Zip", "Repeat", "ArrayToVector", "VectorToArray",
    "Gather", "ApplyPermutation", "NOP", "Assert",
];
const ARITH: &[&str] = &[
    "Add", "Subtract", "Multiply", "MixedMultiply", "Dot", "Matmul", "Gemm", "Sum", "CumSum", "SegmentCumSum",
    "Truncate", "A2B", "B2A", "Zeros", "Ones", "Constant", "InversePermutation",
];

/// argument positions (0-based) that carry indices / conditions rather than data
fn raw_args(op: &str) -> &'static [usize] {
    match op {
        "Gather" | "ApplyPermutation" | "VectorGet" => &[1],
        "Assert" => &[0],
        "InversePermutation" => &[0],
        _ => &[],
    }
}

fn random_perm(rng: &mut StdRng, n: usize) -> Vec<u128> {
    let mut p: Vec<u128> = (0..n as u128).collect();
    p.shuffle(rng);
    p
}

/// Values of an index-like argument; `variant` 0.. chooses valid / invalid flavours.
fn index_arg(rng: &mut StdRng, op: &str, ats: &[Type], rec: &Json, variant: usize) -> VTree {
    match op {
        "Assert" => VTree::Leaf(vec![if variant % 3 == 2 { 0 } else { 1 }]),
        "VectorGet" => {
            let n = if let Type::Vector(n, _) = &ats[0] { *n as u128 } else { 0 };
            let x = match variant % 4 {
                3 => n,
                2 => n + 1 + rng.gen_range(0..100) as u128,
                _ => {
                    if n == 0 {
                        0
                    } else {
                        rng.gen_range(0..n)
                    }
                }
            };
            VTree::Leaf(vec![x])
        }
        "Gather" => {
            let axis = rec["axis"].as_u64().unwrap() as usize;
            let dim = ats[0].get_shape()[axis] as usize;
            let cnt = num_el(&ats[1]);
            // unique indices (the documentation requires uniqueness); one flavour out of range
            let mut ix: Vec<u128> = random_perm(rng, dim).into_iter().take(cnt).collect();
            let m = mask_of(&ats[1].get_scalar_type());
            if variant % 4 == 3 {
                let k = rng.gen_range(0..cnt);
                ix[k] = ((dim + rng.gen_range(0..3)) as u128) & m;
            }
            VTree::Leaf(ix)
        }
        "ApplyPermutation" | "InversePermutation" => {
            let pt = if op == "ApplyPermutation" { &ats[1] } else { &ats[0] };
            let n = num_el(pt);
            let mut p = random_perm(rng, n);
            let m = mask_of(&pt.get_scalar_type());
            match variant % 5 {
                3 => {
                    let k = rng.gen_range(0..n);
                    p[k] = ((n + rng.gen_range(0..3)) as u128) & m;
                }
                4 if n > 1 => {
                    let k = rng.gen_range(1..n);
                    p[k] = p[0];
                }
                _ => {}
            }
            VTree::Leaf(p)
        }
        _ => unreachable!(),
    }
}

fn limbs_json(st: &ScalarType, x: u128) -> Json {
    num_json(x, st, Num::Limbs)
}

fn is_wide(st: &ScalarType) -> bool {
    st.size_in_bits() > 8
}

fn main_st(ats: &[Type], ty: &Type) -> ScalarType {
    let mut ls = vec![];
    for t in ats {
        leaves(t, &mut ls);
    }
    leaves(ty, &mut ls);
    ls.iter().map(|t| t.get_scalar_type()).max_by_key(|s| s.size_in_bits()).unwrap_or(BIT)
}

fn cmd_eval(args: &[String]) {
    let mut out = std::io::BufWriter::new(std::fs::File::create(&args[0]).unwrap());
    let seed: u64 = args[1].parse().unwrap();
    let sets: usize = args[2].parse().unwrap();
    let mut rng = StdRng::seed_from_u64(seed);
    let mut nrec = 0usize;
    for f in &args[3..] {
        for case in read_ndjson(f) {
            let rec = &case["rec"];
            let op = rec["op"].as_str().unwrap().to_string();
            if case["ty"]["k"] == "err" {
                continue;
            }
            let structural = STRUCTURAL.contains(&op.as_str());
            if !structural && !ARITH.contains(&op.as_str()) {
                continue;
            }
            let ats: Vec<Type> = case["ats"].as_array().unwrap().iter().map(type_from_json).collect();
            let (_ctx, g, ty) = match add_case(rec, &ats) {
                Added::Ok(c, g, n, t) => {
                    n.set_as_output().unwrap();
                    g.finalize().unwrap();
                    g.set_as_main().unwrap();
                    c.finalize().unwrap();
                    (c, g, t)
                }
                // disagreements on acceptance are reported by `types`
                _ => continue,
            };
            let mst = main_st(&ats, &ty);
            let raws = raw_args(&op);
            // all values of small bit-only arguments
            let mut arg_leaves = vec![];
            for t in &ats {
                leaves(t, &mut arg_leaves);
            }
            let all_bits = !arg_leaves.is_empty() && arg_leaves.iter().all(|t| t.get_scalar_type() == BIT);
            let cells: usize = arg_leaves.iter().map(|t| num_el(t)).sum();
            let exhaustive = all_bits && cells <= 6 && raws.is_empty();
            // operations with few type-level cases get more value sets
            let mult = if ["ApplyPermutation", "Gather", "VectorGet", "TupleGet", "NamedTupleGet", "InversePermutation",
                "Assert", "B2A", "Reshape", "Zip"].contains(&op.as_str()) { 4 } else { 1 };
            let nsets = if exhaustive { 1usize << cells } else if ats.is_empty() { 1 } else { sets * mult };
            let mode = if structural {
                "tok"
            } else if (is_wide(&mst) && op != "InversePermutation")
                || (op == "Truncate" && rec["scale"].as_u64().unwrap_or(0) == 0)
            {
                "limb"
            } else {
                "num"
            };
            // a token is a distinct value of the scalar type: more than 200 data cells are not tokenised (an 8-bit
            // type does not even have that many values); decided before drawing any value
            let data_cells: usize =
                arg_leaves.iter().filter(|t| t.get_scalar_type() != BIT).map(|t| num_el(t)).sum();
            if mode == "tok" && data_cells > 200 {
                continue;
            }
            for vi in 0..nsets {
                // ---- argument values
                let mut tok_of: HashMap<(String, u128), u64> = HashMap::new();
                let mut next_tok = 0u64;
                let mut pools: HashMap<String, Vec<u128>> = HashMap::new();
                let mut bitctr = 0usize;
                let mut trees: Vec<VTree> = vec![];
                for (ai, t) in ats.iter().enumerate() {
                    if raws.contains(&ai) {
                        trees.push(index_arg(&mut rng, &op, &ats, rec, vi));
                        continue;
                    }
                    let mut f = |st: &ScalarType| -> u128 {
                        if *st == BIT {
                            if exhaustive {
                                let b = (vi >> bitctr) & 1;
                                bitctr += 1;
                                return b as u128;
                            }
                            return rng.gen_range(0..2u32) as u128;
                        }
                        if mode == "tok" {
                            let name = st_name(st).to_string();
                            let pool = pools.entry(name.clone()).or_insert_with(|| {
                                let mut p = palette(st);
                                p.shuffle(&mut rng);
                                if st.size_in_bits() == 128 && vi == 0 {
                                    // make sure a value >= 2^64 comes first
                                    if let Some(k) = p.iter().position(|x| *x >= (1u128 << 64)) {
                                        p.swap(0, k);
                                    }
                                }
                                p
                            });
                            let used = tok_of.keys().filter(|k| k.0 == name).count();
                            let v = if used < pool.len() {
                                pool[used]
                            } else {
                                loop {
                                    let c = rand_elem(&mut rng, st);
                                    if !tok_of.contains_key(&(name.clone(), c)) {
                                        break c;
                                    }
                                }
                            };
                            next_tok += 1;
                            tok_of.insert((name, v), next_tok);
                            v
                        } else if vi == 0 {
                            let p = palette(st);
                            next_tok += 1;
                            p[(next_tok as usize * 5 + 2) % p.len()]
                        } else {
                            rand_elem(&mut rng, st)
                        }
                    };
                    trees.push(make_tree(t, &mut f));
                }
                if next_tok > 200 {
                    continue;
                }
                let inputs: Vec<Value> =
                    trees.iter().zip(ats.iter()).map(|(tr, t)| tree_to_value(tr, t).unwrap()).collect();
                // ---- the real evaluator
                let res = guarded(|| evaluate_simple_evaluator(g.clone(), inputs, None));
                // ---- record
                let mut lost = vec![];
                let mut enc = |raw: bool| {
                    let tok_of = &tok_of;
                    move |st: &ScalarType, x: u128| -> Json {
                        if mode == "limb" {
                            limbs_json(st, x)
                        } else if mode == "num" || raw || *st == BIT {
                            num_json(x, st, Num::Mod(15))
                        } else {
                            json!(tok_of.get(&(st_name(st).to_string(), x)).copied().unwrap_or(0))
                        }
                    }
                };
                let jargs: Vec<Json> = trees
                    .iter()
                    .zip(ats.iter())
                    .enumerate()
                    .map(|(ai, (tr, t))| enc_tree(tr, t, &mut enc(raws.contains(&ai))))
                    .collect();
                let mut r = json!({"kind":"val","id":format!("{}#{}", case["id"].as_str().unwrap(), vi),"rec":rec,
                    "ats":case["ats"],"ty":type_json(&ty),"mode":mode,"args":jargs,"out":[],"st":st_name(&mst)});
                // byte layout of the value and the verdict of the real check_type: OpsTrace requires the layout to
                // fit the node's type (a packed array that merely decodes to the right elements is not enough)
                if let Ok(Ok(v)) = &res {
                    if let Ok(tr) = guarded(|| shape_tree(v)) {
                        r["tree"] = tr;
                        r["chk"] = json!(matches!(guarded(|| v.check_type(ty.clone())), Ok(Ok(true))));
                    }
                }
                match res {
                    Ok(Ok(v)) => match value_to_tree(&v, &ty) {
                        Ok(tr) => {
                            r["res"] = json!("value");
                            r["out"] = enc_tree(&tr, &ty, &mut enc(false));
                            if mode == "tok" {
                                // elements that are none of the input elements: describe them for the report
                                let mut probe = |st: &ScalarType, x: u128| -> Json {
                                    if *st != BIT && !tok_of.contains_key(&(st_name(st).to_string(), x)) {
                                        let low = tok_of.keys().any(|k| {
                                            k.0 == st_name(st) && k.1 >= (1u128 << 64) && (k.1 & u64::MAX as u128) == x
                                        });
                                        lost.push(json!({"st":st_name(st),"got":x.to_string(),
                                            "class": if low {"element>=2^64"} else {"other"}}));
                                    }
                                    Json::Null
                                };
                                enc_tree(&tr, &ty, &mut probe);
                            }
                        }
                        Err(e) => {
                            r["res"] = json!("illtyped");
                            r["msg"] = json!(e.to_string().chars().take(100).collect::<String>());
                        }
                    },
                    Ok(Err(_)) => r["res"] = json!("error"),
                    Err((m, l)) => {
                        r["res"] = json!("panic");
                        r["msg"] = json!(m);
                        r["loc"] = json!(l);
                    }
                }
                if !lost.is_empty() {
                    r["lost"] = json!(lost);
                }
                // exact argument values for the replay file (decimal strings)
                r["exact"] = Json::Array(
                    trees.iter().zip(ats.iter()).map(|(tr, t)| tree_json(tr, t, Num::Str)).collect(),
                );
                writeln!(out, "{}", r).unwrap();
                nrec += 1;
            }
        }
    }
    eprintln!("eval: {nrec} records");
}

// ------------------------------------------------------------------------------------------------ random programs

fn rand_st(rng: &mut StdRng) -> ScalarType {
    *ALL_ST.choose(rng).unwrap()
}

fn rand_shape(rng: &mut StdRng) -> Vec<u64> {
    let r = rng.gen_range(1..=3);
    (0..r).map(|_| rng.gen_range(1..=3)).collect()
}

fn rand_num_type(rng: &mut StdRng) -> Type {
    let st = rand_st(rng);
    if rng.gen_bool(0.25) {
        scalar_type(st)
    } else {
        array_type(rand_shape(rng), st)
    }
}

fn rand_type(rng: &mut StdRng, depth: u32) -> Type {
    if depth >= 2 || rng.gen_bool(0.75) {
        return rand_num_type(rng);
    }
    match rng.gen_range(0..3) {
        0 => tuple_type((0..rng.gen_range(0..3)).map(|_| rand_type(rng, depth + 1)).collect()),
        1 => vector_type(rng.gen_range(0..3), rand_type(rng, depth + 1)),
        _ => {
            let n = rng.gen_range(1..3);
            named_tuple_type((0..n).map(|i| (["a", "b", "c"][i].to_string(), rand_type(rng, depth + 1))).collect())
        }
    }
}

fn rand_slice(rng: &mut StdRng, rank: usize) -> Json {
    let n = rng.gen_range(0..=rank + 1);
    let mut v = vec![];
    let mut ell = false;
    for _ in 0..n {
        let k = rng.gen_range(0..10);
        if k == 0 && !ell {
            ell = true;
            v.push(json!({"e":"e"}));
        } else if k < 4 {
            v.push(json!({"e":"i","i":rng.gen_range(-3..3)}));
        } else {
            let hb = rng.gen_bool(0.5);
            let he = rng.gen_bool(0.5);
            let hs = rng.gen_bool(0.5);
            v.push(json!({"e":"s","hb":hb,"b":if hb {rng.gen_range(-3..3)} else {0},
                "he":he,"en":if he {rng.gen_range(-3..4)} else {0},"hs":hs,"s":if hs {*[-2i64,-1,1,2,0].choose(rng).unwrap()} else {1}}));
        }
    }
    Json::Array(v)
}

const FUZZ_OPS: &[&str] = &[
    "Add", "Subtract", "Multiply", "MixedMultiply", "Dot", "Matmul", "Gemm", "Truncate", "Sum", "CumSum", "PermuteAxes",
    "InversePermutation", "Get", "GetSlice", "Reshape", "NOP", "Assert", "Stack", "Concatenate", "A2B", "B2A",
    "CreateTuple", "CreateNamedTuple", "CreateVector", "TupleGet", "NamedTupleGet", "VectorGet", "Zip", "Repeat",
    "ArrayToVector", "VectorToArray", "Gather", "ApplyPermutation", "SegmentCumSum", "Zeros", "Ones",
];

struct Prog {
    g: Graph,
    pool: Vec<(Node, Type)>,
}

impl Prog {
    fn input(&mut self, t: Type) -> usize {
        let n = self.g.input(t.clone()).unwrap();
        self.pool.push((n, t));
        self.pool.len() - 1
    }
    fn pick(&self, rng: &mut StdRng, pred: &dyn Fn(&Type) -> bool) -> Option<usize> {
        let c: Vec<usize> = (0..self.pool.len()).filter(|i| pred(&self.pool[*i].1)).collect();
        c.choose(rng).copied()
    }
    fn pick_or(&mut self, rng: &mut StdRng, pred: &dyn Fn(&Type) -> bool, mk: &mut dyn FnMut(&mut StdRng) -> Type) -> usize {
        if rng.gen_bool(0.12) {
            return rng.gen_range(0..self.pool.len());
        }
        if rng.gen_bool(0.8) {
            if let Some(i) = self.pick(rng, pred) {
                return i;
            }
        }
        let t = mk(rng);
        self.input(t)
    }
}

fn dims(t: &Type) -> Vec<u64> {
    match t {
        Type::Array(sh, _) => sh.clone(),
        _ => vec![],
    }
}

fn is_num(t: &Type) -> bool {
    t.is_scalar() || t.is_array()
}

/// Chooses an operation with parameters and its dependencies (indices into the pool).
fn rand_node(rng: &mut StdRng, p: &mut Prog) -> (Json, Vec<usize>) {
    let op = *FUZZ_OPS.choose(rng).unwrap();
    let any = |_: &Type| true;
    match op {
        "Add" | "Subtract" | "Multiply" | "Dot" | "Matmul" | "Gemm" => {
            let a = p.pick_or(rng, &|t| is_num(t), &mut |r| rand_num_type(r));
            let ta = p.pool[a].1.clone();
            let b = if is_num(&ta) {
                let st = ta.get_scalar_type();
                let sha = dims(&ta);
                p.pick_or(rng, &|t| is_num(t) && t.get_scalar_type() == st, &mut |r| {
                    // a shape related to the first operand
                    let mut sh = if sha.is_empty() { rand_shape(r) } else { sha.clone() };
                    match r.gen_range(0..5) {
                        0 => sh = rand_shape(r),
                        1 => {
                            let k = r.gen_range(0..sh.len());
                            sh[k] = 1;
                        }
                        2 => {
                            sh.reverse();
                        }
                        3 => {
                            if sh.len() > 1 {
                                sh.remove(0);
                            }
                        }
                        _ => {}
                    }
                    array_type(sh, st)
                })
            } else {
                rng.gen_range(0..p.pool.len())
            };
            let rec = if op == "Gemm" { json!({"op":op,"ta":rng.gen_bool(0.5),"tb":rng.gen_bool(0.5)}) } else { json!({"op":op}) };
            (rec, vec![a, b])
        }
        "MixedMultiply" => {
            let a = p.pick_or(rng, &|t| is_num(t) && t.get_scalar_type() != BIT, &mut |r| rand_num_type(r));
            let b = p.pick_or(rng, &|t| is_num(t) && t.get_scalar_type() == BIT, &mut |r| array_type(rand_shape(r), BIT));
            (json!({"op":op}), vec![a, b])
        }
        "Truncate" => {
            let a = p.pick_or(rng, &|t| is_num(t), &mut |r| rand_num_type(r));
            let s = *["0", "1", "3", "128", "1000", "18446744073709551616", "170141183460469231731687303715884105727",
                "170141183460469231731687303715884105728"]
                .choose(rng)
                .unwrap();
            let small = if s.len() < 6 { s.parse::<u64>().unwrap() } else { 0 };
            (json!({"op":op,"scale":small,"scale_s":s}), vec![a])
        }
        "Sum" | "PermuteAxes" => {
            let a = p.pick_or(rng, &|t| t.is_array(), &mut |r| array_type(rand_shape(r), rand_st(r)));
            let rank = dims(&p.pool[a].1).len().max(1);
            let mut ax: Vec<u64> = (0..rank as u64 + if rng.gen_bool(0.1) { 1 } else { 0 }).collect();
            ax.shuffle(rng);
            if op == "Sum" {
                ax.truncate(rng.gen_range(0..=rank));
            } else if rng.gen_bool(0.1) {
                ax.pop();
            }
            if rng.gen_bool(0.05) && !ax.is_empty() {
                ax.push(ax[0]);
            }
            (if op == "Sum" { json!({"op":op,"axes":ax}) } else { json!({"op":op,"perm":ax}) }, vec![a])
        }
        "CumSum" => {
            let a = p.pick_or(rng, &|t| t.is_array(), &mut |r| array_type(rand_shape(r), rand_st(r)));
            (json!({"op":op,"axis":rng.gen_range(0..4)}), vec![a])
        }
        "InversePermutation" => {
            let a = p.pick_or(rng, &|t| matches!(t, Type::Array(sh, st) if sh.len()==1 && !st.is_signed() && *st != BIT && st.size_in_bits() < 128),
                &mut |r| array_type(vec![r.gen_range(1..5)], *[UINT8, UINT16, UINT32, UINT64].choose(r).unwrap()));
            (json!({"op":op}), vec![a])
        }
        "Get" => {
            let a = p.pick_or(rng, &|t| t.is_array(), &mut |r| array_type(rand_shape(r), rand_st(r)));
            let sh = dims(&p.pool[a].1);
            let n = rng.gen_range(0..=sh.len() + 1);
            let ix: Vec<u64> = (0..n)
                .map(|i| {
                    let extra = if rng.gen_bool(0.1) { 1 } else { 0 };
                    rng.gen_range(0..sh.get(i).copied().unwrap_or(2) + extra)
                })
                .collect();
            (json!({"op":op,"index":ix}), vec![a])
        }
        "GetSlice" => {
            let a = p.pick_or(rng, &|t| t.is_array(), &mut |r| array_type(rand_shape(r), rand_st(r)));
            let rank = dims(&p.pool[a].1).len();
            (json!({"op":op,"slice":rand_slice(rng, rank)}), vec![a])
        }
        "Reshape" => {
            let a = rng.gen_range(0..p.pool.len());
            let t = p.pool[a].1.clone();
            let nt = match &t {
                Type::Array(sh, st) if rng.gen_bool(0.8) => {
                    let n: u64 = sh.iter().product();
                    let mut cands = vec![vec![n], vec![1, n], vec![n, 1]];
                    for d in 2..n {
                        if n % d == 0 {
                            cands.push(vec![d, n / d]);
                        }
                    }
                    array_type(cands.choose(rng).unwrap().clone(), *st)
                }
                Type::Tuple(ts) if rng.gen_bool(0.5) && !ts.is_empty() && ts.iter().all(|x| **x == *ts[0]) => {
                    vector_type(ts.len() as u64, (*ts[0]).clone())
                }
                Type::Vector(n, e) if rng.gen_bool(0.6) => tuple_type((0..*n).map(|_| (**e).clone()).collect()),
                _ => rand_type(rng, 0),
            };
            (json!({"op":op,"t":type_json(&nt)}), vec![a])
        }
        "NOP" | "A2B" | "ArrayToVector" => {
            let a = p.pick_or(rng, &|t| is_num(t), &mut |r| rand_num_type(r));
            (json!({"op":op}), vec![a])
        }
        "Assert" => {
            let a = p.pick_or(rng, &|t| *t == scalar_type(BIT), &mut |_| scalar_type(BIT));
            let b = rng.gen_range(0..p.pool.len());
            (json!({"op":op,"msg":"fuzz"}), vec![a, b])
        }
        "Stack" => {
            let a = p.pick_or(rng, &|t| is_num(t), &mut |r| rand_num_type(r));
            let outer: Vec<u64> = match rng.gen_range(0..4) {
                0 => vec![1],
                1 => vec![2],
                2 => vec![1, 2],
                _ => vec![2, 1],
            };
            let k: u64 = outer.iter().product::<u64>() + if rng.gen_bool(0.05) { 1 } else { 0 };
            let st = if is_num(&p.pool[a].1) { p.pool[a].1.get_scalar_type() } else { UINT8 };
            let mut deps = vec![a];
            for _ in 1..k {
                let same = rng.gen_bool(0.6);
                deps.push(if same { a } else { p.pick_or(rng, &|t| is_num(t) && t.get_scalar_type() == st, &mut |_| scalar_type(st)) });
            }
            (json!({"op":op,"sh":outer}), deps)
        }
        "Concatenate" => {
            let a = p.pick_or(rng, &|t| t.is_array(), &mut |r| array_type(rand_shape(r), rand_st(r)));
            let ta = p.pool[a].1.clone();
            let axis = rng.gen_range(0..3u64);
            let mut deps = vec![a];
            for _ in 0..rng.gen_range(0..3) {
                if ta.is_array() && rng.gen_bool(0.8) {
                    let mut sh = ta.get_shape();
                    if (axis as usize) < sh.len() {
                        sh[axis as usize] = rng.gen_range(1..4);
                    }
                    let t2 = array_type(sh, ta.get_scalar_type());
                    deps.push(p.input(t2));
                } else {
                    deps.push(rng.gen_range(0..p.pool.len()));
                }
            }
            (json!({"op":op,"axis":axis}), deps)
        }
        "B2A" => {
            let st = *ALL_ST.choose(rng).unwrap();
            let w = st.size_in_bits();
            let a = p.pick_or(rng, &|t| matches!(t, Type::Array(sh, BIT) if *sh.last().unwrap() == w), &mut |r| {
                let mut sh = if r.gen_bool(0.5) { vec![] } else { vec![r.gen_range(1..3)] };
                sh.push(w);
                array_type(sh, BIT)
            });
            (json!({"op":op,"st":st_name(&st)}), vec![a])
        }
        "CreateTuple" | "CreateNamedTuple" => {
            let n = rng.gen_range(0..4);
            let deps: Vec<usize> = (0..n).map(|_| rng.gen_range(0..p.pool.len())).collect();
            if op == "CreateTuple" {
                (json!({"op":op}), deps)
            } else {
                let mut names: Vec<&str> = vec!["a", "b", "c", "d"];
                names.truncate(n + if rng.gen_bool(0.05) { 1 } else { 0 });
                if rng.gen_bool(0.05) && n > 1 {
                    names[1] = "a";
                }
                (json!({"op":op,"nm":names}), deps)
            }
        }
        "CreateVector" => {
            let a = rng.gen_range(0..p.pool.len());
            let t = p.pool[a].1.clone();
            let mut deps = vec![];
            for _ in 0..rng.gen_range(0..4) {
                let same = rng.gen_bool(0.9);
                deps.push(if same { p.pick(rng, &|x| *x == t).unwrap_or(a) } else { rng.gen_range(0..p.pool.len()) });
            }
            (json!({"op":op,"t":type_json(&t)}), deps)
        }
        "TupleGet" => {
            let a = p.pick_or(rng, &|t| t.is_tuple() || t.is_named_tuple(), &mut |r| tuple_type(vec![rand_num_type(r), rand_num_type(r)]));
            (json!({"op":op,"i":rng.gen_range(0..3)}), vec![a])
        }
        "NamedTupleGet" => {
            let a = p.pick_or(rng, &|t| t.is_named_tuple(), &mut |r| named_tuple_type(vec![("a".into(), rand_num_type(r)), ("b".into(), rand_num_type(r))]));
            (json!({"op":op,"key":*["a", "b", "c", "zz"].choose(rng).unwrap()}), vec![a])
        }
        "VectorGet" => {
            let a = p.pick_or(rng, &|t| t.is_vector(), &mut |r| vector_type(r.gen_range(0..4), rand_num_type(r)));
            let b = p.pick_or(rng, &|t| *t == scalar_type(UINT64) || *t == scalar_type(UINT32), &mut |r| scalar_type(if r.gen_bool(0.5) { UINT64 } else { UINT32 }));
            (json!({"op":op}), vec![a, b])
        }
        "Zip" => {
            let a = p.pick_or(rng, &|t| t.is_vector(), &mut |r| vector_type(r.gen_range(0..4), rand_num_type(r)));
            let n = if let Type::Vector(n, _) = p.pool[a].1 { n } else { 2 };
            let mut deps = vec![a];
            for _ in 0..rng.gen_range(0..3) {
                deps.push(p.pick_or(rng, &|t| matches!(t, Type::Vector(m, _) if *m == n), &mut |r| vector_type(n, rand_num_type(r))));
            }
            (json!({"op":op}), deps)
        }
        "Repeat" => (json!({"op":op,"n":rng.gen_range(0..4)}), vec![rng.gen_range(0..p.pool.len())]),
        "VectorToArray" => {
            let a = p.pick_or(rng, &|t| matches!(t, Type::Vector(_, e) if is_num(e)), &mut |r| vector_type(r.gen_range(0..4), rand_num_type(r)));
            (json!({"op":op}), vec![a])
        }
        "Gather" | "ApplyPermutation" => {
            let a = p.pick_or(rng, &|t| t.is_array(), &mut |r| array_type(rand_shape(r), rand_st(r)));
            let sh = dims(&p.pool[a].1);
            let extra = if rng.gen_bool(0.1) { 1 } else { 0 };
            let axis = if op == "Gather" { rng.gen_range(0..sh.len().max(1) as u64 + extra) } else { 0 };
            let dim = sh.get(axis as usize).copied().unwrap_or(2);
            let ist = *[UINT8, UINT16, UINT32, UINT64, UINT64, UINT64, INT8, UINT128, BIT].choose(rng).unwrap();
            let b = if op == "Gather" {
                let extra = if rng.gen_bool(0.1) { 1 } else { 0 };
                let k = rng.gen_range(1..=dim + extra);
                p.input(array_type(vec![k], ist))
            } else {
                p.input(array_type(vec![dim + if rng.gen_bool(0.07) { 1 } else { 0 }], ist))
            };
            (if op == "Gather" { json!({"op":op,"axis":axis}) } else { json!({"op":op,"inv":rng.gen_bool(0.5)}) }, vec![a, b])
        }
        "SegmentCumSum" => {
            let a = p.pick_or(rng, &|t| t.is_array(), &mut |r| array_type(rand_shape(r), rand_st(r)));
            let ta = p.pool[a].1.clone();
            if !ta.is_array() {
                return (json!({"op":op}), vec![a, a, a]);
            }
            let sh = ta.get_shape();
            let b = p.input(array_type(vec![sh[0] + if rng.gen_bool(0.07) { 1 } else { 0 }], BIT));
            let ft = if sh.len() == 1 { scalar_type(ta.get_scalar_type()) } else { array_type(sh[1..].to_vec(), ta.get_scalar_type()) };
            let c = if rng.gen_bool(0.9) { p.input(ft) } else { rng.gen_range(0..p.pool.len()) };
            (json!({"op":op}), vec![a, b, c])
        }
        "Zeros" | "Ones" => (json!({"op":op,"t":type_json(&rand_type(rng, 0))}), vec![]),
        _ => {
            let _ = any;
            unreachable!()
        }
    }
}

fn shape_tree(v: &Value) -> Json {
    v.access(
        |bytes| Ok(json!({"b": bytes.len()})),
        |vs| Ok(json!({"c": vs.iter().map(shape_tree).collect::<Vec<_>>()})),
    )
    .unwrap()
}

/// Random input value: unsigned one-dimensional arrays are often permutations, unsigned scalars often small.
fn rand_input(rng: &mut StdRng, t: &Type) -> Value {
    let tr = match t {
        Type::Array(sh, st) if sh.len() == 1 && !st.is_signed() && *st != BIT && rng.gen_bool(0.7) => {
            let n = sh[0] as usize;
            let mut p = random_perm(rng, n);
            if rng.gen_bool(0.2) {
                let k = rng.gen_range(0..n);
                p[k] = rng.gen_range(0..n as u128 + 2);
            }
            VTree::Leaf(p)
        }
        Type::Scalar(st) if !st.is_signed() && *st != BIT && rng.gen_bool(0.8) => VTree::Leaf(vec![rng.gen_range(0..4)]),
        Type::Scalar(st) if *st == BIT => VTree::Leaf(vec![if rng.gen_bool(0.85) { 1 } else { 0 }]),
        _ => {
            let mut f = |st: &ScalarType| rand_elem(rng, st);
            make_tree(t, &mut f)
        }
    };
    tree_to_value(&tr, t).unwrap()
}

fn cmd_fuzz(args: &[String]) {
    let mut out = std::io::BufWriter::new(std::fs::File::create(&args[0]).unwrap());
    let seed: u64 = args[1].parse().unwrap();
    let nprog: usize = args[2].parse().unwrap();
    let depth: usize = args[3].parse().unwrap();
    let mut rng = StdRng::seed_from_u64(seed);
    let (mut n_ok, mut n_err, mut n_val, mut n_rt) = (0, 0, 0, 0);
    for pi in 0..nprog {
        let c = create_context().unwrap();
        let g = c.create_graph().unwrap();
        let mut p = Prog { g: g.clone(), pool: vec![] };
        for _ in 0..rng.gen_range(1..4) {
            let t = rand_type(&mut rng, 0);
            p.input(t);
        }
        let steps = rng.gen_range(depth / 2..=depth);
        let mut ok_nodes = 0;
        let mut si = 0;
        let mut attempts = 0;
        while ok_nodes < steps && attempts < 4 * depth {
            attempts += 1;
            let (rec, deps) = rand_node(&mut rng, &mut p);
            let ats: Vec<Json> = deps.iter().map(|d| type_json(&p.pool[*d].1)).collect();
            let dn: Vec<Node> = deps.iter().map(|d| p.pool[*d].0.clone()).collect();
            let op = op_from_json(&rec).unwrap_or_else(|e| panic!("harness: bad op {rec}: {e}"));
            si += 1;
            let id = format!("fuzz/{pi}/{si}");
            let mut r = json!({"kind":"type","id":id,"rec":rec,"ats":ats});
            match guarded(|| g.add_node(dn, vec![], op).and_then(|n| n.get_type().map(|t| (n, t)))) {
                Ok(Ok((n, t))) => {
                    r["ty"] = type_json(&t);
                    r["node"] = json!(n.get_id());
                    p.pool.push((n, t));
                    ok_nodes += 1;
                    n_ok += 1;
                }
                Ok(Err(_)) => {
                    r["ty"] = json!({"k":"err"});
                    n_err += 1;
                }
                Err((m, l)) => {
                    r["ty"] = json!({"k":"panic"});
                    r["msg"] = json!(m);
                    r["loc"] = json!(l);
                }
            }
            writeln!(out, "{}", r).unwrap();
        }
        // evaluate node by node; the output is the last node or (2 times in 5) any node, so that graphs whose output
        // has consumers of its own are covered (evaluate_graph frees a value after its last consumer)
        let last = if rng.gen_range(0..5) < 2 {
            let k = rng.gen_range(0..p.pool.len());
            p.pool[k].0.clone()
        } else {
            p.pool.last().unwrap().0.clone()
        };
        if last.set_as_output().is_err() || g.finalize().is_err() || g.set_as_main().is_err() || c.finalize().is_err() {
            continue;
        }
        for round in 0..2 {
            let mut evseed = [0u8; 16];
            rng.fill(&mut evseed);
            let mut ev = SimpleEvaluator::new(Some(evseed)).unwrap();
            let nodes = g.get_nodes();
            let mut vals: Vec<Option<Value>> = vec![None; nodes.len()];
            let mut node_rt = false;
            let mut node_panic = false;
            let mut graph_inputs: Vec<Value> = vec![];
            for n in nodes.iter() {
                let i = n.get_id() as usize;
                let t = n.get_type().unwrap();
                let opname = op_json(&n.get_operation(), Num::Mod(15))["op"].as_str().unwrap().to_string();
                if n.get_operation().is_input() {
                    vals[i] = Some(rand_input(&mut rng, &t));
                    graph_inputs.push(vals[i].clone().unwrap());
                    continue;
                }
                let dv: Option<Vec<Value>> =
                    n.get_node_dependencies().iter().map(|d| vals[d.get_id() as usize].clone()).collect();
                let dv = match dv {
                    Some(x) => x,
                    None => continue, // a dependency failed at run time
                };
                let id = format!("fuzz/{pi}/n{i}/r{round}");
                match guarded(|| ev.evaluate_node(n.clone(), dv)) {
                    Ok(Ok(v)) => {
                        let chk = guarded(|| v.check_type(t.clone()));
                        let chk_ok = matches!(chk, Ok(Ok(true)));
                        writeln!(out, "{}", json!({"kind":"shape","id":id,"op":opname,"ty":type_json(&t),"tree":shape_tree(&v),"chk":chk_ok})).unwrap();
                        vals[i] = Some(v);
                        n_val += 1;
                    }
                    Ok(Err(e)) => {
                        writeln!(out, "{}", json!({"kind":"rt","id":id,"op":opname,"msg":e.to_string().chars().take(80).collect::<String>()})).unwrap();
                        n_rt += 1;
                        node_rt = true;
                    }
                    Err((m, l)) => {
                        node_panic = true;
                        writeln!(out, "{}", json!({"kind":"panic","id":id,"op":opname,"msg":m,"loc":l,
                            "rec":op_json(&n.get_operation(), Num::Str),
                            "ats":n.get_node_dependencies().iter().map(|d| type_json(&d.get_type().unwrap())).collect::<Vec<_>>()})).unwrap();
                    }
                }
            }
            // the same graph, inputs and PRNG seed through Evaluator::evaluate_graph (spec/EvalGraph.tla)
            if node_panic {
                continue;
            }
            let oi = last.get_id() as usize;
            let ot = last.get_type().unwrap();
            let id = format!("fuzz/{pi}/graph/r{round}");
            let opname = op_json(&last.get_operation(), Num::Mod(15))["op"].as_str().unwrap().to_string();
            let mut ev2 = SimpleEvaluator::new(Some(evseed)).unwrap();
            let gg = g.clone();
            match guarded(|| ev2.evaluate_graph(gg, graph_inputs)) {
                Ok(Ok(v)) => {
                    let chk = matches!(guarded(|| v.check_type(ot.clone())), Ok(Ok(true)));
                    let same = match &vals[oi] {
                        Some(w) => {
                            let (mut a, mut b) = (vec![], vec![]);
                            cc_conform::detleak::value_bytes(&v, &mut a);
                            cc_conform::detleak::value_bytes(w, &mut b);
                            a == b
                        }
                        None => false,
                    };
                    writeln!(out, "{}", json!({"kind":"graph","id":id,"op":opname,"out":oi,"nodes":nodes.len(),"res":"value","chk":chk,"same":same,"node_rt":node_rt})).unwrap();
                }
                Ok(Err(_)) => {
                    writeln!(out, "{}", json!({"kind":"graph","id":id,"op":opname,"out":oi,"nodes":nodes.len(),"res":"error","chk":false,"same":false,"node_rt":node_rt})).unwrap();
                }
                Err((m, l)) => {
                    writeln!(out, "{}", json!({"kind":"graph","id":id,"op":opname,"out":oi,"nodes":nodes.len(),"res":"panic","chk":false,"same":false,"node_rt":node_rt,"msg":m,"loc":l})).unwrap();
                }
            }
        }
    }
    eprintln!("fuzz: {n_ok} nodes accepted, {n_err} rejected, {n_val} node values, {n_rt} runtime errors");
}

fn main() {
    let args: Vec<String> = std::env::args().skip(1).collect();
    install_hook();
    match args.first().map(|s| s.as_str()) {
        Some("types") => cmd_types(&args[1..]),
        Some("eval") => cmd_eval(&args[1..]),
        Some("fuzz") => cmd_fuzz(&args[1..]),
        _ => {
            eprintln!("usage: ops types|eval|fuzz ...");
            std::process::exit(2);
        }
    }
}
