//! Conformance harness of property C08, part "meaning against the library's DEFINITION".
//!
//!   instsem run <cases.ndjson> <out.ndjson>
//!
//! A case is a small program over library custom operations
//!   {id, wrap: "flat"|"call", nodes: [node...], inputs: [[value per input node] per sample]}
//!   node = {k:"in", t:<type>, ii:<1-based input index>}
//!        | {k:"op", fam:<operation family>, sg:0|1, kk:<k of Clip2K>, key:<sort key>, args:[1-based node indices]}
//!        | {k:"nt", names:[..], args:[..]}            create_named_tuple
//!        | {k:"get", name:<column>, args:[i]}         named_tuple_get
//! The harness builds the context with the REAL builder (a rejected node is recorded, not judged), pushes it
//! through the REAL run_instantiation_pass, evaluates the instantiated context and records the type and the value
//! of EVERY node.  It computes no expected value: spec/InstSemTrace.tla (TLC) evaluates the same program with the
//! TLA+ definitions of the operations (spec/InstSem.tla) and judges types, totality and values.
//!
//! Value encoding for TLC (32-bit integers): BIT arrays/scalars = flat list of 0/1; integer arrays/scalars =
//! flat list of bit strings (least significant bit first, as many bits as the scalar type has);
//! named tuples / tuples = list of the encoded components.
use cc_conform::export::*;
use cc_conform::{catch, quiet_panics, read_ndjson};
use ciphercore_base::custom_ops::{run_instantiation_pass, CustomOperation, Not, Or};
use ciphercore_base::data_types::*;
use ciphercore_base::data_values::Value;
use ciphercore_base::errors::Result;
use ciphercore_base::evaluators::evaluate_simple_evaluator;
use ciphercore_base::graphs::*;
use ciphercore_base::ops::clip::Clip2K;
use ciphercore_base::ops::comparisons::{Equal, GreaterThan, GreaterThanEqualTo, LessThan, LessThanEqualTo, NotEqual};
use ciphercore_base::ops::integer_key_sort::SortByIntegerKey;
use ciphercore_base::ops::min_max::{Max, Min};
use ciphercore_base::ops::multiplexer::Mux;
use ciphercore_base::runtime_error;
use serde_json::{json, Value as Json};
use std::io::Write;

fn custom_of(n: &Json) -> Result<CustomOperation> {
    let s = n["sg"].as_u64().unwrap_or(0) == 1;
    Ok(match n["fam"].as_str().unwrap_or("") {
        "GreaterThan" => CustomOperation::new(GreaterThan { signed_comparison: s }),
        "LessThan" => CustomOperation::new(LessThan { signed_comparison: s }),
        "GreaterThanEqualTo" => CustomOperation::new(GreaterThanEqualTo { signed_comparison: s }),
        "LessThanEqualTo" => CustomOperation::new(LessThanEqualTo { signed_comparison: s }),
        "Equal" => CustomOperation::new(Equal {}),
        "NotEqual" => CustomOperation::new(NotEqual {}),
        "Min" => CustomOperation::new(Min { signed_comparison: s }),
        "Max" => CustomOperation::new(Max { signed_comparison: s }),
        "Clip2K" => CustomOperation::new(Clip2K { k: n["kk"].as_u64().unwrap_or(0) }),
        "Mux" => CustomOperation::new(Mux {}),
        "Not" => CustomOperation::new(Not {}),
        "Or" => CustomOperation::new(Or {}),
        "SortByIntegerKey" => CustomOperation::new(SortByIntegerKey { key: n["key"].as_str().unwrap_or("").to_owned() }),
        f => return Err(runtime_error!("harness: unknown family {}", f)),
    })
}

fn enc_leaf(xs: &[u128], st: &ScalarType) -> Json {
    if *st == BIT {
        return json!(xs.iter().map(|x| (*x & 1) as u64).collect::<Vec<_>>());
    }
    let w = st.size_in_bits();
    Json::Array(xs.iter().map(|x| json!((0..w).map(|i| ((x >> i) & 1) as u64).collect::<Vec<_>>())).collect())
}

fn enc(tr: &VTree, t: &Type) -> Json {
    match (tr, t) {
        (VTree::Leaf(xs), Type::Scalar(st)) | (VTree::Leaf(xs), Type::Array(_, st)) => enc_leaf(xs, st),
        (VTree::Node(vs), Type::Tuple(ts)) => Json::Array(vs.iter().zip(ts.iter()).map(|(x, t)| enc(x, t)).collect()),
        (VTree::Node(vs), Type::NamedTuple(ts)) => Json::Array(vs.iter().zip(ts.iter()).map(|(x, t)| enc(x, &t.1)).collect()),
        (VTree::Node(vs), Type::Vector(_, e)) => Json::Array(vs.iter().map(|x| enc(x, e)).collect()),
        _ => json!("tree/type mismatch"),
    }
}

struct BuiltCase {
    ctx: Context,
    in_types: Vec<Type>,
    node_types: Vec<Type>,
}

/// Err((node index (1-based, 0 = not a node), is the node a custom operation, message))
fn build(cs: &Json) -> std::result::Result<BuiltCase, (usize, String)> {
    let nodes = cs["nodes"].as_array().unwrap();
    let wrap = cs["wrap"].as_str().unwrap_or("flat");
    let step = |i: usize, r: std::result::Result<Result<Node>, String>| -> std::result::Result<Node, (usize, String)> {
        match r {
            Ok(Ok(n)) => Ok(n),
            Ok(Err(e)) => Err((i, format!("err: {}", e).chars().take(240).collect())),
            Err(p) => Err((i, format!("panic: {}", p).chars().take(240).collect())),
        }
    };
    let other = |e: ciphercore_base::errors::Error| (0usize, format!("harness: {}", e).chars().take(240).collect::<String>());
    let c = create_context().map_err(other)?;
    let g = c.create_graph().map_err(other)?;
    let mut built: Vec<Node> = vec![];
    let mut in_types = vec![];
    for (ix, n) in nodes.iter().enumerate() {
        let args: Vec<Node> = n["args"].as_array().map(|a| a.iter().map(|x| built[x.as_u64().unwrap() as usize - 1].clone()).collect()).unwrap_or_default();
        let g2 = g.clone();
        let r = catch(std::panic::AssertUnwindSafe(move || -> Result<Node> {
            match n["k"].as_str().unwrap() {
                "in" => g2.input(type_from_json(&n["t"])),
                "op" => g2.custom_op(custom_of(n)?, args),
                "nt" => {
                    let names: Vec<String> = n["names"].as_array().unwrap().iter().map(|x| x.as_str().unwrap().to_owned()).collect();
                    g2.create_named_tuple(names.into_iter().zip(args.into_iter()).collect())
                }
                "get" => args[0].named_tuple_get(n["name"].as_str().unwrap().to_owned()),
                k => Err(runtime_error!("harness: unknown node kind {}", k)),
            }
        }));
        let node = step(ix + 1, r)?;
        if n["k"] == "in" {
            in_types.push(node.get_type().map_err(other)?);
        }
        built.push(node);
    }
    let node_types: Vec<Type> = built.iter().map(|n| n.get_type()).collect::<Result<_>>().map_err(other)?;
    let fin = || -> Result<()> {
        let o = g.create_tuple(built.clone())?;
        g.set_output_node(o)?;
        g.finalize()?;
        if wrap == "call" {
            // the program lives in a user graph; the main graph calls it twice (results of the first call are reported,
            // the second call shares every instantiation)
            let m = c.create_graph()?;
            let ins: Vec<Node> = in_types.iter().map(|t| m.input(t.clone())).collect::<Result<_>>()?;
            let r1 = m.call(g.clone(), ins.clone())?;
            let r2 = m.call(g.clone(), ins)?;
            let both = m.create_tuple(vec![r1, r2])?;
            m.set_output_node(both.tuple_get(0)?)?;
            m.finalize()?;
            c.set_main_graph(m)?;
        } else {
            c.set_main_graph(g.clone())?;
        }
        c.finalize()?;
        Ok(())
    };
    fin().map_err(other)?;
    Ok(BuiltCase { ctx: c, in_types, node_types })
}

fn count_custom(c: &Context) -> u64 {
    c.get_graphs().iter().map(|g| g.get_nodes().iter().filter(|n| matches!(n.get_operation(), Operation::Custom(_))).count() as u64).sum()
}

fn cmd_run(args: &[String]) {
    let cases = read_ndjson(&args[0]);
    let mut out = std::io::BufWriter::new(std::fs::File::create(&args[1]).unwrap());
    for cs in cases {
        let mut rec = json!({"id": cs["id"], "wrap": cs["wrap"], "cls": cs["cls"], "nodes": cs["nodes"], "built": false, "rej": 0, "err": "",
            "types": [], "pass_ok": false, "custom_before": 0, "custom_after": 0, "samples": []});
        let b = match build(&cs) {
            Ok(b) => b,
            Err((ix, msg)) => {
                rec["rej"] = json!(ix);
                rec["err"] = json!(msg);
                writeln!(out, "{}", rec).unwrap();
                continue;
            }
        };
        rec["built"] = json!(true);
        rec["types"] = Json::Array(b.node_types.iter().map(type_json).collect());
        rec["custom_before"] = json!(count_custom(&b.ctx));
        let c2 = b.ctx.clone();
        let mapped = match catch(std::panic::AssertUnwindSafe(|| run_instantiation_pass(c2))) {
            Ok(Ok(m)) => m.get_context(),
            Ok(Err(e)) => {
                rec["err"] = json!(format!("err: {}", e).chars().take(240).collect::<String>());
                writeln!(out, "{}", rec).unwrap();
                continue;
            }
            Err(p) => {
                rec["err"] = json!(format!("panic: {}", p).chars().take(240).collect::<String>());
                writeln!(out, "{}", rec).unwrap();
                continue;
            }
        };
        rec["pass_ok"] = json!(true);
        rec["custom_after"] = json!(count_custom(&mapped));
        let gi = mapped.get_main_graph().unwrap();
        let out_t = tuple_type(b.node_types.clone());
        let mut samples = vec![];
        for inp in cs["inputs"].as_array().unwrap() {
            let trees: Vec<VTree> = inp.as_array().unwrap().iter().zip(b.in_types.iter()).map(|(j, t)| json_tree(j, t)).collect();
            let enc_in: Vec<Json> = trees.iter().zip(b.in_types.iter()).map(|(tr, t)| enc(tr, t)).collect();
            let vals: Vec<Value> = trees.iter().zip(b.in_types.iter()).map(|(tr, t)| tree_to_value(tr, t).unwrap()).collect();
            let r = catch(std::panic::AssertUnwindSafe(|| -> Result<Json> {
                let v = evaluate_simple_evaluator(gi.clone(), vals.clone(), Some([7u8; 16]))?;
                Ok(enc(&value_to_tree(&v, &out_t)?, &out_t))
            }));
            samples.push(match r {
                Ok(Ok(j)) => json!({"in": enc_in, "ok": true, "err": "", "out": j}),
                Ok(Err(e)) => json!({"in": enc_in, "ok": false, "err": format!("err: {}", e).chars().take(240).collect::<String>(), "out": []}),
                Err(p) => json!({"in": enc_in, "ok": false, "err": format!("panic: {}", p).chars().take(240).collect::<String>(), "out": []}),
            });
        }
        rec["samples"] = Json::Array(samples);
        writeln!(out, "{}", rec).unwrap();
    }
}

fn main() {
    quiet_panics();
    let args: Vec<String> = std::env::args().skip(1).collect();
    match args.first().map(|s| s.as_str()) {
        Some("run") if args.len() == 3 => cmd_run(&args[1..]),
        _ => {
            eprintln!("usage: instsem run <cases.ndjson> <out.ndjson>");
            std::process::exit(2);
        }
    }
}
